"""Baseline finding 4 (C06): after abort_write_group() the repository's graph
API still reports the aborted revision as present.

PackRepository keeps a CachingParentsProvider (_unstacked_provider) that is
enabled for the duration of the lock.  A get_graph().get_parent_map() call made
while the write group is open caches the new revision.  _commit_write_group()
resets that cache; _abort_write_group() does not.  So on the unmodified tree,
after the abort (same lock), repo.get_graph().get_parent_map([rev]) still
returns the aborted revision although has_revision(), all_revision_ids() and
revisions.keys() correctly say it is gone.  Anything that decides "already
present" through the graph (is_ancestor, find_unique_ancestors, heads ...)
under the same lock sees a revision that does not exist.

exit 1 + message when the violation is present, exit 0 otherwise.
Run as:  cd <worktree> && /venv/bin/python bf4_graph_cache_after_abort.py
"""

import os
import sys
import tempfile

sys.path.insert(0, os.getcwd())
os.environ["BRZ_EMAIL"] = "Tester <tester@example.com>"
os.environ["BRZ_HOME"] = tempfile.mkdtemp(prefix="c06-home-")

import breezy  # noqa: E402

breezy.initialize()
import breezy.bzr  # noqa: E402,F401
from breezy import controldir, ui  # noqa: E402

ui.ui_factory = ui.SilentUIFactory()


def main():
    d = tempfile.mkdtemp(prefix="c06-bf4-")
    fmt = controldir.format_registry.make_controldir("2a")
    tree = controldir.ControlDir.create_standalone_workingtree(
        os.path.join(d, "src"), format=fmt
    )
    with open(os.path.join(d, "src", "a"), "w") as f:
        f.write("hello\n")
    tree.add(["a"])
    tree.commit("one", rev_id=b"rev-a")
    source = tree.branch.repository
    source.lock_read()
    os.mkdir(os.path.join(d, "tgt"))
    repo = fmt.initialize(os.path.join(d, "tgt")).create_repository()

    repo.lock_write()
    # NB: do not ask the graph about rev-a before the write group: the
    # provider also caches misses, which would hide the effect.
    before = {}
    assert not repo.has_revision(b"rev-a")
    repo.start_write_group()
    search = repo.search_missing_revision_ids(source, revision_ids=[b"rev-a"])
    stream = source._get_source(repo._format).get_stream(search)
    repo._get_sink().insert_stream_without_locking(stream, source._format)
    inside = dict(repo.get_graph().get_parent_map([b"rev-a"]))
    repo.abort_write_group()
    after = dict(repo.get_graph().get_parent_map([b"rev-a"]))
    has = repo.has_revision(b"rev-a")
    ids = list(repo.all_revision_ids())
    repo.unlock()
    print("graph parent map before the write group:", before)
    print("graph parent map inside the write group:", inside)
    print("graph parent map after abort:           ", after)
    print("has_revision after abort:", has, " all_revision_ids:", ids)
    if after != before:
        print("VIOLATION (baseline): get_graph().get_parent_map() still reports the "
              "aborted revision %r" % (after,))
        return 1
    print("no violation")
    return 0


if __name__ == "__main__":
    sys.exit(main())
