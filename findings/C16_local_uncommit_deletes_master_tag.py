"""C16: uncommit(local=True) in a bound branch removes the revision only from the local branch, yet deletes the tag from
the master, whose history still contains the tagged revision.  Exit 1 / DEFECT when present."""
import os, shutil, sys, tempfile
sys.path.insert(0, os.getcwd())
import breezy
breezy.initialize(setup_ui=False)
import breezy.bzr  # noqa
from breezy.controldir import ControlDir, format_registry
from breezy.uncommit import uncommit
d = tempfile.mkdtemp()
rc = 0
try:
    fmt = format_registry.make_controldir("2a")
    master_wt = ControlDir.create_standalone_workingtree(d + "/master", format=fmt)
    master_wt.commit("one", committer="a <a@b>")
    co = master_wt.branch.create_checkout(d + "/co")          # heavyweight checkout: bound branch
    open(d + "/co/f", "w").write("x\n"); co.add(["f"])
    rev2 = co.commit("two", committer="a <a@b>")
    co.branch.tags.set_tag("release", rev2)                      # propagates to the master
    master = ControlDir.open(d + "/master").open_branch()
    assert master.tags.get_tag_dict() == {"release": rev2} and master.last_revision() == rev2
    uncommit(co.branch, tree=co, local=True)
    master = ControlDir.open(d + "/master").open_branch()
    print("master tip still rev2:", master.last_revision() == rev2)
    print("master tags after the local uncommit:", master.tags.get_tag_dict())
    if master.last_revision() == rev2 and "release" not in master.tags.get_tag_dict():
        rc = 1
finally:
    shutil.rmtree(d)
print("DEFECT" if rc else "OK")
sys.exit(rc)
