"""Baseline finding (unmodified code): the autopack run by a commit does not
"reload and retry" when the file that has vanished is an INDEX of a source
pack that the packer has not read yet.

RepositoryPackCollection.autopack() retries (RetryAutopack) when a source
*pack file* disappears because another process repacked.  But the packers
(GCCHKPacker._build_vf, KnitPacker._index_contents) build their source
CombinedGraphIndex WITHOUT a reload_func, so a NoSuchFile raised while reading
a source pack's .tix/.six index (moved to obsolete_packs/ by the other
process) propagates: the commit fails with NoSuchFile instead of reloading
pack-names and retrying, although all the data it needs is listed in the new
pack.  No committed data is lost (the failed commit is simply not recorded);
what breaks is the "reload-and-retry on missing packs" part of C05.

Schedule: process A commits its 10th revision (-> autopack of 10 packs);
after A has copied revisions, inventories (and chk pages) but before it reads
the text indices, process B runs `pack`.

Run from the worktree root: /venv/bin/python autopack_index_no_retry.py [format]
Exit 1 + message when the violation is present, exit 0 otherwise.
"""

import os
import shutil
import subprocess
import sys
import tempfile

sys.path.insert(0, os.getcwd())
os.environ["BRZ_EMAIL"] = "Tester <tester@example.com>"
os.environ["BRZ_HOME"] = tempfile.mkdtemp(prefix="c05-home-")

import breezy  # noqa: E402

breezy.initialize()

import breezy.bzr  # noqa: E402,F401
from breezy import repository, trace, workingtree  # noqa: E402
from breezy.bzr import groupcompress_repo, knitpack_repo  # noqa: E402

trace.be_quiet(True)
FORMAT = sys.argv[1] if len(sys.argv) > 1 else "2a"

OTHER_PROCESS = """
import os, sys
sys.path.insert(0, os.getcwd())
import breezy
breezy.initialize()
import breezy.bzr
from breezy import controldir, repository, trace
trace.be_quiet(True)
mode, path, fmt = sys.argv[1:4]
if mode == "setup":
    tree = controldir.ControlDir.create_standalone_workingtree(
        path, format=controldir.format_registry.make_controldir(fmt))
    for i in range(9):
        with open(path + "/file%d" % i, "w") as f:
            f.write("content %d\\n" % i)
        tree.add(["file%d" % i])
        print(tree.commit("rev %d" % i).decode())
elif mode == "pack":
    repository.Repository.open(path).pack()
"""


def other_process(mode, path):
    return subprocess.run(
        [sys.executable, "-c", OTHER_PROCESS, mode, path, FORMAT],
        check=True,
        cwd=os.getcwd(),
        stdout=subprocess.PIPE,
    ).stdout


def main():
    base = tempfile.mkdtemp(prefix="c05-ap-")
    try:
        path = base + "/tree"
        revs = other_process("setup", path).split()
        tree = workingtree.WorkingTree.open(path)

        if FORMAT == "2a":
            packer_class = groupcompress_repo.GCCHKPacker
        else:
            packer_class = knitpack_repo.KnitPacker
        orig = packer_class._copy_text_texts
        fired = []

        def copy_text_texts(self):
            if not fired:
                fired.append(True)
                other_process("pack", path)  # process B repacks right now
            return orig(self)

        packer_class._copy_text_texts = copy_text_texts
        with open(path + "/file9", "w") as f:
            f.write("content 9\n")
        tree.add(["file9"])
        error = None
        try:
            revs.append(tree.commit("rev 9 (triggers autopack)"))
        except Exception as e:  # noqa: BLE001
            error = e
        finally:
            packer_class._copy_text_texts = orig
        if not fired:
            print("SETUP PROBLEM: autopack did not run")
            return 2

        fresh = repository.Repository.open(path)
        with fresh.lock_read():
            missing = set(revs) - set(fresh.all_revision_ids())
        print("revisions missing afterwards: %d" % len(missing))
        if error is not None:
            print(
                "VIOLATION PRESENT: commit/autopack did not reload and retry "
                "after a concurrent pack: %s: %s" % (type(error).__name__, error)
            )
            return 1
        if missing:
            print("VIOLATION PRESENT: committed revisions missing")
            return 1
        print("no violation")
        return 0
    finally:
        shutil.rmtree(base, ignore_errors=True)
        shutil.rmtree(os.environ["BRZ_HOME"], ignore_errors=True)


if __name__ == "__main__":
    sys.exit(main())
