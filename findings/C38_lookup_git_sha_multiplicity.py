"""Demonstration for the known finding C38/lookup-git-sha-multiplicity (not part of any check).

The same content committed under two (file id, revision) keys is fed to every SHA-map backend; lookup_git_sha(blob sha)
must give the same set of answers everywhere.  The index backend keeps only the first record per git sha.

Run:  cd /repo && /venv/bin/python /verif/findings/C38_lookup_git_sha_multiplicity.py"""
import os
import sys

sys.path.insert(0, os.getcwd())
import breezy  # noqa: E402

breezy.initialize(setup_ui=False)
from dromedary.memory import MemoryTransport  # noqa: E402
from dulwich.objects import Blob, Commit, Tree  # noqa: E402

from breezy.git import cache as C  # noqa: E402


class Rev:
    def __init__(self, r):
        self.revision_id = r
        self.parent_ids = []


def commit_for(tree):
    c = Commit()
    c.tree = tree.id
    c.author = c.committer = b"a <a@b>"
    c.commit_time = c.author_time = 0
    c.commit_timezone = c.author_timezone = 0
    c.message = b"m"
    return c


_t = MemoryTransport()
_t.mkdir("index")
backends = {"dict": C.DictBzrGitCache(), "index": C.IndexBzrGitCache(_t), "sqlite": C.SqliteBzrGitCache(":memory:")}
answers = {}
blob = Blob.from_string(b"hello\n")
for name, cache in backends.items():
    for revid, fileid in ((b"rev-1", b"file-a"), (b"rev-2", b"file-b")):
        cache.idmap.start_write_group()
        u = cache.get_updater(Rev(revid))
        t = Tree()
        t.add(fileid, 0o100644, blob.id)
        u.add_object(blob, (fileid, revid), fileid)
        u.add_object(t, (b"root-id", revid), b"")
        u.add_object(commit_for(t), {"testament3-sha1": b"0" * 40}, None)
        u.finish()
        cache.idmap.commit_write_group()
    answers[name] = sorted(repr(x) for x in cache.idmap.lookup_git_sha(blob.id))
for k, v in answers.items():
    print(k, v)
if len({tuple(v) for v in answers.values()}) > 1:
    print("DEFECT: backends disagree on lookup_git_sha for the same update history")
    sys.exit(1)
print("OK")
