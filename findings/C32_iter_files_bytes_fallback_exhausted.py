"""C32: RemoteRepository.iter_files_bytes consumes `desired_files` while it builds the RPC request and, when the server does not
know the Repository.iter_files_bytes verb (servers before 2.5), hands the same object to the real repository: a caller that
passes a generator (breezy/git/object_store.py does) silently gets nothing back, where the local repository yields every text.
Exit 1 / DEFECT when present."""
import os, sys
sys.path.insert(0, os.getcwd())
import unittest
import breezy
from breezy import tests, branch as _mod_branch
from breezy.bzr.smart import request as smart_request

class T(tests.TestCaseWithTransport):
    def ask(self, repo, keys):
        with repo.lock_read():
            return sorted((ident, b"".join(chunks)) for ident, chunks in repo.iter_files_bytes((k[0], k[1], k) for k in keys))
    def test_it(self):
        tree = self.make_branch_and_tree('b')
        self.build_tree_contents([('b/f', b'content of f\n'), ('b/g', b'content of g\n')])
        tree.add(['f', 'g'], ids=[b'f-id', b'g-id'])
        tree.commit('one', rev_id=b'r1')
        keys = [(b'f-id', b'r1'), (b'g-id', b'r1')]
        local = self.ask(tree.branch.repository, keys)
        handlers = smart_request.request_handlers
        verb = b"Repository.iter_files_bytes"
        saved = handlers.get_info(verb), handlers._dict[verb] if hasattr(handlers, "_dict") else None
        srv = self.make_smart_server('b')
        orig = handlers.get(verb)
        handlers.remove(verb)
        try:
            remote = self.ask(_mod_branch.Branch.open(srv.base).repository, keys)
        finally:
            handlers.register(verb, orig, info=saved[0])
        print("local :", local); print("remote:", remote)
        self.assertEqual(local, remote)

if __name__ == '__main__':
    breezy.initialize()
    res = unittest.TextTestRunner(verbosity=1).run(unittest.defaultTestLoader.loadTestsFromTestCase(T))
    print("OK" if res.wasSuccessful() else "DEFECT")
    sys.exit(0 if res.wasSuccessful() else 1)
