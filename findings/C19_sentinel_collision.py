"""Baseline finding (unmodified code): a user line that starts with the
internal start-marker sentinel of Merge3Merger.text_merge is taken for a
conflict.  The three-way merge is clean, yet a text conflict is recorded,
helper files are written and the user's line is rewritten to "<<<<<<<".

Run: cd <worktree> && /venv/bin/python sentinel_collision.py
Exit 1 when the violation is present.
"""
import os
import shutil
import sys
import tempfile

sys.path.insert(0, os.path.dirname(os.path.abspath(__file__)))
from _common import *  # noqa: E402,F403

SENTINEL = b"!START OF MERGE CONFLICT!I HOPE THIS IS UNIQUE"
BASE = b"a\nb\nc\n"
THIS = b"a\nb\nc\n" + SENTINEL + b" is what merge.py uses\n"
OTHER = b"A\nb\nc\n"
CLEAN = b"A\nb\nc\n" + SENTINEL + b" is what merge.py uses\n"


def main():
    tmp = tempfile.mkdtemp(prefix="c19-sentinel-")
    try:
        wt = make_tree(tmp + "/this")
        write(tmp + "/this/f", BASE)
        wt.add(["f"])
        wt.commit("base")
        other = wt.controldir.sprout(tmp + "/other").open_workingtree()
        write(tmp + "/this/f", THIS)
        wt.commit("this")
        write(tmp + "/other/f", OTHER)
        other.commit("other")
        do_merge(wt, other)
        wt = wt.controldir.open_workingtree()
        files = listing(tmp + "/this")
        bad = []
        if files["f"] != CLEAN:
            bad.append(f"clean merge expected, f holds {files['f']!r}")
        if [str(c) for c in wt.conflicts()]:
            bad.append(f"conflicts recorded: {[str(c) for c in wt.conflicts()]}")
        if sorted(files) != ["f"]:
            bad.append(f"helper files written: {sorted(files)}")
        for b in bad:
            print("VIOLATION:", b)
        print("FAIL" if bad else "PASS")
        return 1 if bad else 0
    finally:
        shutil.rmtree(tmp, ignore_errors=True)


if __name__ == "__main__":
    sys.exit(main())
