"""Baseline finding F4 (cmd_commit --amend): a `brz commit --amend` that is
refused leaves the branch tip moved back by one revision.

cmd_commit.run() calls uncommit() *before* tree.commit(); when the commit then
raises (StrictCommitFailed below; equally ConflictsInTree, a failing hook, an
I/O error ...) nothing restores the tip: "a commit that raises leaves the
branch tip unchanged" does not hold for --amend.
"""
import os
import subprocess
import sys
import tempfile

worktree = os.getcwd()
env = dict(os.environ)
home = tempfile.mkdtemp(prefix="c01-home-")
env.update(
    PYTHONPATH=worktree, BRZ_EMAIL="T <t@example.com>", BRZ_LOG=os.devnull,
    BRZ_HOME=home, HOME=home,
)
base = tempfile.mkdtemp(prefix="c01-finding-")


def brz(*args, ok=True):
    p = subprocess.run(
        [sys.executable, "-m", "breezy", *args], cwd=base, env=env,
        capture_output=True, text=True,
    )
    if ok and p.returncode != 0:
        raise SystemExit("setup failed: brz %s\n%s" % (" ".join(args), p.stderr))
    return p


brz("init", ".")
with open(os.path.join(base, "a"), "w") as f:
    f.write("1\n")
brz("add", "a")
brz("commit", "-m", "one")
with open(os.path.join(base, "a"), "w") as f:
    f.write("2\n")
brz("commit", "-m", "two")
before = brz("revno").stdout.strip()
with open(os.path.join(base, "unknown-file"), "w") as f:
    f.write("u\n")
p = brz("commit", "--amend", "--strict", "-m", "amended", ok=False)
after = brz("revno").stdout.strip()
if p.returncode == 0:
    print("unexpected: the strict commit was not refused")
    sys.exit(2)
if before != after:
    print("VIOLATION PRESENT")
    print(" - `brz commit --amend --strict` was refused (%s)" % p.stderr.strip().splitlines()[-1])
    print(" - but the branch went from revno %s to revno %s" % (before, after))
    sys.exit(1)
print("ok: refused amend left the tip alone")
