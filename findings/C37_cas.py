"""Demonstration for C37 (not part of any check; the checks are static).

Conditional ref updates must fail, leaving the ref unchanged, when the ref does
not hold the expected old value.

Run:  cd <tree> && /venv/bin/python /verif/findings/C37_cas.py
Exit 1 + DEFECT lines if any case misbehaves, else 0 + OK.
"""
import os, sys
sys.path.insert(0, os.getcwd())
import breezy
breezy.initialize(setup_ui=False)
from dromedary.memory import MemoryTransport
from breezy.git.transportgit import TransportRefsContainer

A, B, C = b"a" * 40, b"b" * 40, b"c" * 40
bad = 0


def fresh(packed=False):
    t = MemoryTransport()
    t.mkdir("refs"); t.mkdir("refs/heads")
    r = TransportRefsContainer(t)
    if packed:
        t.put_bytes("packed-refs", b"# pack-refs with: peeled fully-peeled sorted \n" + A + b" refs/heads/x\n")
    else:
        t.put_bytes("refs/heads/x", A + b"\n")
    return r


for packed in (False, True):
    r = fresh(packed)
    ok = r.set_if_equals(b"refs/heads/x", B, C)      # expected B, actual A
    now = r.read_loose_ref(b"refs/heads/x") or r.get_packed_refs().get(b"refs/heads/x")
    if ok or now != A:
        print(f"DEFECT set_if_equals(packed={packed}): returned {ok}, ref now {now!r} (expected False / unchanged)"); bad += 1
    r = fresh(packed)
    ok = r.remove_if_equals(b"refs/heads/x", B)
    now = r.read_loose_ref(b"refs/heads/x") or r.get_packed_refs().get(b"refs/heads/x")
    if ok or now != A:
        print(f"DEFECT remove_if_equals(packed={packed}): returned {ok}, ref now {now!r} (expected False / unchanged)"); bad += 1
    r = fresh(packed)
    if not r.set_if_equals(b"refs/heads/x", A, C) or (r.read_loose_ref(b"refs/heads/x") != C):
        print(f"DEFECT set_if_equals(packed={packed}) with the right old value failed"); bad += 1
    r = fresh(packed)
    if r.add_if_new(b"refs/heads/x", C):
        print(f"DEFECT add_if_new(packed={packed}) overwrote an existing ref"); bad += 1
print("OK" if not bad else f"{bad} defect(s)")
sys.exit(1 if bad else 0)
