"""Baseline finding F3 (bzr 2a / dirstate): committing only the new name of a
renamed file also commits an unrelated, unselected file that was added at the
old name.

  brz mv old new ; echo .. > old ; brz add old ; brz commit new

dirstate's iter_changes(specific_files=['new']) widens the search to the old
path of the rename and then yields *every* entry found there, including the
newly added, different file-id.  The unselected add is committed and is no
longer pending.  (The same sequence in a git tree does not commit it - but see
finding F2.)
"""
from _common import QUIET, finish, make_tree, pending, rev_state, write

problems = []
base, wt = make_tree("2a")
write(base, "old", b"tracked file\n")
wt.add(["old"])
wt.commit("one", reporter=QUIET)
wt.rename_one("old", "new")
write(base, "old", b"a brand new unrelated file, NOT selected\n")
wt.add(["old"])
revid = wt.commit("two", specific_files=["new"], reporter=QUIET)
state = rev_state(wt.branch.repository.revision_tree(revid))
if "old" in state:
    problems.append("the unselected new file 'old' was committed: %r" % (state["old"],))
if (None, "old") not in pending(wt):
    problems.append("the unselected add of 'old' is no longer pending: %r" % pending(wt))
finish(problems, "only the selected rename was committed")
