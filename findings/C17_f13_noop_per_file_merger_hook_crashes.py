"""C17 clause 2 with a do-nothing merge_file_content hook installed.

merge.AbstractPerFileMerger.merge_contents() is documented to return one of
'not_applicable', 'success', 'conflicted', 'delete' -- but the base class
returns the misspelt ("not applicable", None).  Merge3Merger._do_merge_contents
compares against "not_applicable", so a hook that relies on the inherited
default (i.e. "I do not handle this file") stops the hook chain and the merge
dies with AssertionError("unknown hook_status: 'not applicable'") as soon as
OTHER changes any file's content -- even for THIS == BASE.
"""
import sys, os, traceback
sys.path.insert(0, os.path.dirname(os.path.abspath(__file__)))
from C17__c17lib import make_tree, sprout, merge, versioned, write
from breezy import merge as _mod_merge

class Passive(_mod_merge.AbstractPerFileMerger):
    """A per-file merger that never claims a file (inherits merge_contents)."""

_mod_merge.Merger.hooks.install_named_hook("merge_file_content", Passive, "passive")
tmp, base = make_tree("bzr", {"a": b"a1\na2\n"})
this = sprout(base, tmp, "this"); other = sprout(base, tmp, "other")
write(other, "a", b"a1\na2\na3\n"); other.commit("edit a")
try:
    conflicts = merge(this, other)
except Exception as e:
    traceback.print_exc(limit=1)
    print("VIOLATION: a passive merge_file_content hook makes the merge crash:", repr(e))
    sys.exit(1)
text = open(this.abspath("a"), "rb").read()
print("conflicts:", conflicts, "a:", text)
if conflicts or text != b"a1\na2\na3\n":
    print("VIOLATION: result differs from OTHER")
    sys.exit(1)
print("ok")
