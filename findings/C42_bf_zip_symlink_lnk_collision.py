"""Baseline finding (unmodified code), property C42.

The zip exporter stores a symlink `X` as a regular member named `X.lnk`
(breezy/archive/zip.py).  A tree that contains both a symlink `a` and a
regular file `a.lnk` therefore produces a zip with TWO members called
`<root>/a.lnk`; on extraction one silently overwrites the other, so the
archive does not contain exactly the tree (the file's content, or the link
target, is lost).  tar and dir exports of the same tree are fine.

Run: cd <worktree> && /venv/bin/python zip_symlink_lnk_collision.py
Exits 1 when the violation is present.
"""

import io
import os
import shutil
import sys
import tempfile
import warnings
import zipfile

sys.path.insert(0, os.getcwd())
tmp = tempfile.mkdtemp(prefix="c42-bf1-")
os.environ["HOME"] = tmp
os.environ["BRZ_HOME"] = tmp
os.environ["BRZ_EMAIL"] = "Tester <tester@example.com>"

import breezy

breezy.initialize()
import breezy.bzr  # noqa: E402,F401
from breezy import controldir, export  # noqa: E402

warnings.simplefilter("ignore")
p = os.path.join(tmp, "t")
wt = controldir.ControlDir.create_standalone_workingtree(
    p, format=controldir.format_registry.make_controldir("2a")
)
with open(os.path.join(p, "a.lnk"), "wb") as f:
    f.write(b"regular file content\n")
os.symlink("link-target", os.path.join(p, "a"))
wt.add(["a", "a.lnk"])
wt.commit("one")
tree = wt.branch.basis_tree()
buf = io.BytesIO()
export.export(tree, "x.zip", "zip", root="r", fileobj=buf)
with zipfile.ZipFile(buf) as zf:
    names = zf.namelist()
    out = os.path.join(tmp, "extract")
    zf.extractall(out)
extracted = {}
for n in os.listdir(os.path.join(out, "r")):
    with open(os.path.join(out, "r", n), "rb") as f:
        extracted[n] = f.read()
shutil.rmtree(tmp, ignore_errors=True)
print("zip members:", names)
print("extracted:", extracted)
if len(names) != len(set(names)) or len(extracted) != 2:
    print(
        "VIOLATION: symlink 'a' and file 'a.lnk' collide on member name "
        "'r/a.lnk'; only one of them survives extraction"
    )
    sys.exit(1)
print("ok")
