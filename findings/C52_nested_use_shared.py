"""Baseline: reconfigure --use-shared on a standalone branch nested in another
*standalone* (non-shared) branch fetches into the outer repo and destroys the
inner repository, leaving the inner branch unopenable."""
import os, sys, tempfile
os.environ["BRZ_EMAIL"] = "Tester <t@example.com>"
os.environ["BRZ_HOME"] = tempfile.mkdtemp()
sys.path.insert(0, os.getcwd())
import breezy
breezy.initialize()
from breezy import controldir, reconfigure, errors, branch as _b
import breezy.bzr.bzrdir, breezy.bzr.branch, breezy.bzr.workingtree_4, breezy.bzr.groupcompress_repo  # noqa
from breezy.plugin import load_plugins; load_plugins()

d = tempfile.mkdtemp()
os.chdir(d)
outer = controldir.ControlDir.create_standalone_workingtree("outer")
outer.commit("outer rev")
inner = controldir.ControlDir.create_standalone_workingtree("outer/inner")
with open("outer/inner/f", "w") as f:
    f.write("x\n")
inner.add(["f"])
tip = inner.commit("inner rev")
r = reconfigure.Reconfigure.to_use_shared(inner.controldir)
r.apply()
try:
    b = _b.Branch.open("outer/inner")
    assert b.last_revision() == tip
    b.repository.get_revision(tip)
    print("PASS")
except Exception as e:
    print("FAIL: inner branch broken after reconfigure --use-shared:", type(e).__name__, e)
    sys.exit(1)
