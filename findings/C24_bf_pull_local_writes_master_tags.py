"""Baseline finding (UNMODIFIED code, side observation): `pull(local=True)` on a
bound branch is documented as "Only update the local branch, and not the bound
branch", yet the source's tags are still merged into the master:
GenericInterBranch.pull passes merge_tags_to_master=not source_is_master
without looking at `local`, and InterTags.merge then opens, locks and writes
the master's tags.

Run as: cd <worktree> && /venv/bin/python pull_local_writes_master_tags.py
exit 1 = behaviour present.
"""

import os
import shutil
import sys
import tempfile

sys.path.insert(0, os.getcwd())

import breezy

breezy.initialize()
import breezy.bzr  # noqa: F401
from breezy.branch import Branch
from breezy.controldir import ControlDir, format_registry

tmp = tempfile.mkdtemp(prefix="c24-bf3-")
os.environ["BRZ_HOME"] = tmp
os.environ["HOME"] = tmp
os.environ["BRZ_EMAIL"] = "Tester <tester@example.com>"


def main():
    src_path = os.path.join(tmp, "src")
    os.mkdir(src_path)
    src_wt = ControlDir.create_standalone_workingtree(
        src_path, format=format_registry.make_controldir("bzr")
    )
    r1 = src_wt.commit("one", allow_pointless=True)
    master = src_wt.branch.controldir.sprout(os.path.join(tmp, "master")).open_branch()
    child = master.controldir.sprout(os.path.join(tmp, "child")).open_branch()
    child.bind(master)
    src_wt.branch.tags.set_tag("only-src", r1)

    child = Branch.open(os.path.join(tmp, "child"))
    result = child.pull(Branch.open(src_path), local=True)
    master_after = Branch.open(os.path.join(tmp, "master")).tags.get_tag_dict()
    child_after = Branch.open(os.path.join(tmp, "child")).tags.get_tag_dict()
    print("tag_updates  :", result.tag_updates)
    print("master after :", master_after)
    print("child after  :", child_after)
    problems = []
    if master_after != {}:
        problems.append(f"pull(local=True) wrote tags to the master: {master_after}")
    return problems


try:
    problems = main()
finally:
    shutil.rmtree(tmp, ignore_errors=True)
sys.stdout.flush()
if problems:
    print("BEHAVIOUR PRESENT")
    for p in problems:
        print(" -", p)
    sys.stdout.flush()
    os._exit(1)
print("OK")
sys.stdout.flush()
os._exit(0)
