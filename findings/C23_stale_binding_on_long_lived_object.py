"""BASELINE FINDING (C23; probably the same root cause as the known C32
"branch config store is not re-read on lock" finding): a long-lived
WorkingTree/Branch object keeps using the bound location it read first.

After another Branch object (another process) re-binds the checkout to a
different master, a commit through the OLD object still goes to the OLD master
even though the commit takes a fresh write lock; the branch the checkout is now
bound to is not updated, so checkout and (current) master end with different
tips.

Run:  cd <worktree> && /venv/bin/python stale_binding_on_long_lived_object.py
Exit 1 when the violation is present.
"""

import sys, os
sys.path.insert(0, os.path.dirname(os.path.abspath(__file__)))
from C23__prelude import scratch, make_tree, commit_file
from breezy.branch import Branch

scratch("c23-stale-")
m1t = make_tree("m1")
commit_file(m1t, "m1", "a", "one")
co = m1t.branch.create_checkout("co")                 # long-lived object
commit_file(co, "co", "b", "two")                     # goes to m1, fine
m2 = Branch.open("m1").controldir.sprout("m2").open_branch()
Branch.open("co").bind(m2)                            # "another process" re-binds
bound_now = Branch.open("co").get_bound_location()
commit_file(co, "co", "c", "three")                   # commit through the old object
local = co.branch.last_revision_info()
tips = {n: Branch.open(n).last_revision_info() for n in ("m1", "m2")}
print("checkout is bound to", bound_now)
print("local", local)
print("m1   ", tips["m1"])
print("m2   ", tips["m2"])
rc = 0
if tips["m2"] != local:
    print("VIOLATION: commit did not reach the branch the checkout is bound to")
    rc = 1
print("FAIL" if rc else "PASS")
sys.exit(rc)
