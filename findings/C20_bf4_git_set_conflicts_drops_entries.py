"""Baseline finding (unmodified code), property C20.

GitWorkingTree.set_conflicts() rebuilds every kept conflict from the
<path>.BASE/.THIS/.OTHER sidecar files.  When those files are absent (the user
deleted them, or the conflict was stored through the API without them) the
conflict is stored as an empty ConflictedIndexEntry, which
  * is not read back by conflicts() (not even on the same tree object), and
  * removes the file itself from the git index (it becomes unversioned).
add_conflicts() has a guard for this case, set_conflicts() has not.  Because
breezy.conflicts.resolve() re-stores the *kept* conflicts with set_conflicts(),
resolving one conflict silently drops every other conflict whose sidecar
files are gone, together with the versioning of that file.

Exit 1 when the violation is present.
"""
import os
import sys
import tempfile

sys.path.insert(0, os.getcwd())
_home = tempfile.mkdtemp()
os.environ["BRZ_EMAIL"] = "T <t@example.com>"
os.environ["BRZ_HOME"] = _home
os.environ["HOME"] = _home

import breezy

breezy.initialize()
import breezy.bzr  # noqa
import breezy.git  # noqa
from breezy import conflicts as _mod_conflicts
from breezy.controldir import ControlDir, format_registry
from breezy.git.workingtree import TextConflict
from breezy.workingtree import WorkingTree

work = tempfile.mkdtemp()
os.chdir(work)
wt = ControlDir.create_standalone_workingtree(
    "g", format=format_registry.make_controldir("git")
)
for n in ["a", "b"]:
    with open(os.path.join("g", n), "w") as f:
        f.write("content of %s\n" % n)
wt.smart_add(["g"])
wt.commit("one")
for n in ["a", "b"]:
    for suffix in (".BASE", ".THIS", ".OTHER"):
        with open(os.path.join("g", n + suffix), "w") as f:
            f.write(suffix + " of " + n + "\n")
wt.add_conflicts([TextConflict("a"), TextConflict("b")])
wt = WorkingTree.open("g")
assert sorted(c.path for c in wt.conflicts()) == ["a", "b"], list(wt.conflicts())

# the user tidies up the helper files of 'a' by hand, but has not resolved it
for suffix in (".BASE", ".THIS", ".OTHER"):
    os.unlink(os.path.join("g", "a" + suffix))
# ... and marks only 'b' as resolved
_mod_conflicts.resolve(wt, ["b"])

wt = WorkingTree.open("g")
remaining = sorted(c.path for c in wt.conflicts())
problems = []
if remaining != ["a"]:
    problems.append("conflicts after resolving only 'b': %r (expected ['a'])" % remaining)
if not wt.is_versioned("a"):
    problems.append("file 'a' is no longer versioned")
if problems:
    print("VIOLATION: " + "; ".join(problems))
    sys.exit(1)
print("no violation")
