"""Demonstration for known finding C37/R3-result-consumed (not part of any check).

InterToLocalGitRepository.fetch_refs discards the boolean result of
set_if_equals(): when another updater moves the ref between fetch_refs reading
the old refs and its compare-and-swap, the push leaves the ref unchanged (good)
but reports the ref as updated (bad: "otherwise reports failure").

Run:  cd /repo && /venv/bin/python /verif/findings/C37_fetch_refs_ignores_cas.py
Exit 1 + DEFECT while present, 0 + OK otherwise.
"""
import os, shutil, sys, tempfile
sys.path.insert(0, os.getcwd())
import breezy
breezy.initialize(setup_ui=False)
import breezy.bzr, breezy.git  # noqa
from breezy.controldir import ControlDir, format_registry
from breezy.repository import InterRepository

d = tempfile.mkdtemp(prefix="c37-")
rc = 0
try:
    src = ControlDir.create_standalone_workingtree(d + "/src", format=format_registry.make_controldir("2a"))
    open(d + "/src/f", "w").write("1\n"); src.add(["f"])
    r1 = src.commit("one", committer="t <t@example.com>")
    tgt = ControlDir.create_standalone_workingtree(d + "/tgt", format=format_registry.make_controldir("git"))
    src.branch.push(tgt.branch, lossy=True)
    refs = tgt.branch.repository._git.refs
    first = refs[b"refs/heads/master"]
    # the "other updater": a different commit made directly in the git repo
    open(d + "/tgt/g", "w").write("other\n"); tgt.add(["g"])
    tgt.commit("other updater", committer="o <o@example.com>")
    other = refs[b"refs/heads/master"]
    refs[b"refs/heads/master"] = first          # rewind: this is what fetch_refs will read as the old value
    open(d + "/src/f", "w").write("2\n")
    r2 = src.commit("two", committer="t <t@example.com>")
    inter = InterRepository.get(src.branch.repository, tgt.branch.repository)
    real = refs.set_if_equals
    seen = {}

    def racing(name, old, new, *a, **kw):
        refs.set_if_equals = real
        if name == b"refs/heads/master" and old is not None:
            real(name, None, other)             # concurrent updater wins the race
        res = real(name, old, new, *a, **kw)
        seen[name] = res
        return res

    refs.set_if_equals = racing

    def update_refs(old):
        return {b"refs/heads/master": (None, r2)}

    with tgt.branch.repository.lock_write():
        revidmap, old_refs, new_refs = inter.fetch_refs(update_refs, lossy=True)
    now = refs[b"refs/heads/master"]
    claimed = new_refs[b"refs/heads/master"][0]
    print("CAS result:", seen, "ref now:", now[:12], "other updater's:", other[:12], "fetch_refs claims:", claimed[:12])
    if seen.get(b"refs/heads/master") is False and now == other and claimed != now:
        print("DEFECT: compare-and-swap failed (ref kept the other updater's value) but fetch_refs reported the ref as updated and raised nothing")
        rc = 1
    else:
        print("OK")
finally:
    shutil.rmtree(d, ignore_errors=True)
sys.exit(rc)
