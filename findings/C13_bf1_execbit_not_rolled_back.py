"""Baseline finding 1 (unmodified code): an execute-bit change is applied in
place and is NOT undone when apply() rolls back.

_apply_insertions() calls _set_executability() (a chmod on the file in the
tree) for every trans_id in _new_executability while it walks new_paths;
_FileMover.rollback() only reverses renames.  So if a later rename fails, the
tree is "rolled back" but the file keeps its new mode: neither the previous
nor the transformed state.  Happens for bzr and git trees (revert / merge /
pull of a revision that flips +x on one file and renames, adds or replaces a
later-sorting one).

Run:  cd <worktree> && /venv/bin/python bf1_execbit_not_rolled_back.py
Exit 1 + message when the violation is present, 0 otherwise.
"""

import errno
import os
import shutil
import sys
import tempfile

sys.path.insert(0, os.getcwd())

import breezy

breezy.initialize()
import breezy.bzr  # noqa: E402,F401
import breezy.git  # noqa: E402,F401
from breezy import trace, ui  # noqa: E402
from breezy.controldir import ControlDir, format_registry  # noqa: E402
from breezy.workingtree import WorkingTree  # noqa: E402

ui.ui_factory = ui.SilentUIFactory()
trace.be_quiet(True)
os.environ.setdefault("BRZ_EMAIL", "Tester <tester@example.com>")


def run(fmt):
    base = tempfile.mkdtemp(prefix="c13-bf1-")
    try:
        root = os.path.join(base, "t")
        wt = ControlDir.create_standalone_workingtree(
            root, format=format_registry.make_controldir(fmt)
        )
        for name in ("a", "m"):
            with open(os.path.join(root, name), "w") as f:
                f.write(name + "\n")
        wt.add(["a", "m"])
        wt.commit("one")
        mode_before = os.stat(os.path.join(root, "a")).st_mode & 0o777

        wt = WorkingTree.open(root)
        real_rename = os.rename

        def failing_rename(src, dst, *a, **kw):
            if dst == os.path.join(root, "z"):
                raise OSError(errno.EIO, "injected I/O error", src)
            return real_rename(src, dst, *a, **kw)

        os.rename = failing_rename
        try:
            with wt.transform() as tt:
                tt.set_executability(True, tt.trans_id_tree_path("a"))
                tt.adjust_path("z", tt.root, tt.trans_id_tree_path("m"))
                tt.apply()
        except BaseException as e:  # noqa: BLE001
            err = type(e).__name__
        else:
            err = None
        finally:
            os.rename = real_rename
        mode_after = os.stat(os.path.join(root, "a")).st_mode & 0o777
        renamed_back = os.path.exists(os.path.join(root, "m"))
        print(
            "%s: apply raised %s; 'm' restored: %s; mode of 'a' before %o after %o"
            % (fmt, err, renamed_back, mode_before, mode_after)
        )
        return err is not None and renamed_back and mode_after != mode_before
    finally:
        shutil.rmtree(base, ignore_errors=True)


if __name__ == "__main__":
    bad = [fmt for fmt in ("2a", "git") if run(fmt)]
    if bad:
        print(
            "VIOLATION: after a failed (rolled back) apply the file 'a' kept "
            "its new execute bit (formats: %s)" % ", ".join(bad)
        )
        sys.exit(1)
    print("no violation")
    sys.exit(0)
