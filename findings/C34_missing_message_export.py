"""Demonstration for the C34 known finding field-set-before-read[commit.message] (run with /venv/bin/python).

A commit object without a message is accepted by import_commit (revision property git-missing-message) but
export_commit raises AttributeError before it can rebuild it.
"""
import breezy.bzr, breezy.git
from breezy.git.mapping import BzrGitMappingv1
from dulwich.objects import Commit, Tree
raw = b"tree %s\nauthor A <a@x> 0 +0000\ncommitter C <c@x> 0 +0000" % Tree().id
c = Commit.from_string(raw)
print("message:", c.message, "sha", c.id)
m = BzrGitMappingv1()
rev, rt, verifiers = m.import_commit(c, m.revision_id_foreign_to_bzr, strict=True)
print(rev.properties, repr(rev.message))
try:
    c2 = m.export_commit(rev, c.tree, {}, True, None)
    print(c2.as_raw_string() == raw, c2.id == c.id)
except Exception as e:
    import traceback; traceback.print_exc()
