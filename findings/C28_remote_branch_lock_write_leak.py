"""Baseline finding: RemoteBranch.lock_write that is refused leaks the server-side locks.

RemoteBranch.lock_write() first performs the Branch.lock_write RPC (which takes
the physical branch AND repository locks on the server) and only then calls
self.repository.lock_write(token, _skip_rpc=True).  If the RemoteRepository
object is currently only read-locked that call raises ReadOnlyError; the
exception propagates with the RemoteBranch still unlocked (mode None,
count 0), so nobody will ever send Branch.unlock: the physical locks stay held
on the server.  A write lock requested while read-locked is thus "refused"
but not without changing the (physical) lock state.

Run: cd <worktree> && /venv/bin/python remote_branch_lock_write_leak.py
exit 0 = property holds, exit 1 = violation present.
"""
import os
import sys
import unittest

sys.path.insert(0, os.getcwd())

import breezy
import breezy.bzr  # noqa: F401
from breezy import errors, tests
from breezy.branch import Branch
from breezy.tests import test_server

problems = []


class T(tests.TestCaseWithTransport):
    def setUp(self):
        self.transport_server = test_server.SmartTCPServer_for_testing
        super().setUp()

    def test_it(self):
        self.make_branch("b", format="2a")
        local = Branch.open(self.get_vfs_only_url("b"))
        remote = Branch.open(self.get_url("b"))
        self.assertEqual("RemoteBranch", type(remote).__name__)
        remote.repository.lock_read()
        try:
            try:
                remote.lock_write()
            except errors.ReadOnlyError:
                pass
            else:
                problems.append("lock_write unexpectedly succeeded")
                remote.unlock()
            if remote.is_locked():
                problems.append("refused lock_write left RemoteBranch locked")
        finally:
            remote.repository.unlock()
        # Everything the caller took has been released; no physical lock may remain.
        if local.get_physical_lock_status():
            problems.append("branch physical lock still held on the server side")
            other = Branch.open(self.get_url("b"))
            try:
                other.lock_write()
            except errors.LockContention:
                problems.append("a second client now gets LockContention")
            else:
                other.unlock()
        if local.repository.get_physical_lock_status():
            problems.append("repository physical lock still held on the server side")
        # remove the leaked lock so teardown is quiet
        lk = local.control_files._lock
        if lk.peek() is not None:
            lk.force_break(lk.peek())

    def _check_locks(self):
        # the leak is reported above; keep the harness' own accounting quiet
        pass


res = unittest.TextTestRunner(stream=open(os.devnull, "w"), verbosity=0).run(
    unittest.defaultTestLoader.loadTestsFromTestCase(T))
if problems:
    print("FAIL (violation present in unmodified code):")
    for p in problems:
        print("  -", p)
    sys.exit(1)
if not res.wasSuccessful():
    print("ERROR: harness problem")
    sys.exit(2)
print("PASS")
