import os, sys, tempfile
sys.path.insert(0, os.getcwd())
os.environ["BRZ_EMAIL"]="T <t@example.com>"; os.environ["BRZ_HOME"]=tempfile.mkdtemp(); import breezy
breezy.initialize()
import breezy.bzr, breezy.git
from breezy import controldir, reconfigure, branch as _b, workingtree, errors
from breezy.tests import TestCaseWithTransport

def mk(path, fmt="2a"):
    return controldir.ControlDir.create_standalone_workingtree(path, format=controldir.format_registry.make_controldir(fmt))

tmp = tempfile.mkdtemp(prefix="c52x")
os.chdir(tmp)
# A: lightweight checkout with pending merge -> tree
main = mk("main")
open("main/a","w").write("a\n"); main.add(["a"]); r1 = main.commit("one", rev_id=b"r1")
other = main.controldir.sprout("other").open_workingtree()
open("other/b","w").write("b\n"); other.add(["b"]); other.commit("two", rev_id=b"o2")
co = main.branch.create_checkout("co", lightweight=True)
co.merge_from_branch(other.branch)
print("A parents before", co.get_parent_ids())
rc = reconfigure.Reconfigure.to_tree(co.controldir)
rc.apply()
t = workingtree.WorkingTree.open("co")
print("A parents after", t.get_parent_ids())
print("A repo has o2:", t.branch.repository.has_revision(b"o2"))
try:
    with t.lock_read():
        print("A changes:", [c.path for c in t.iter_changes(t.basis_tree())])
        pm = t.get_parent_ids()[1:]
        for p in pm:
            t.branch.repository.get_revision(p)
except Exception as e:
    print("A ERR", type(e), e)

# B: repo branch in shared repo with pending merge -> standalone
os.mkdir("shared"); repo = controldir.format_registry.make_controldir("2a").initialize("shared").create_repository(shared=True)
repo.set_make_working_trees(True)
bt = controldir.ControlDir.create_branch_convenience("shared/b1", force_new_tree=True).controldir.open_workingtree()
open("shared/b1/a","w").write("a\n"); bt.add(["a"]); bt.commit("one", rev_id=b"s1")
b2 = bt.controldir.sprout("shared/b2").open_workingtree()
open("shared/b2/b","w").write("b\n"); b2.add(["b"]); b2.commit("two", rev_id=b"s2")
bt.merge_from_branch(b2.branch)
bt.branch.tags.set_tag("t-other", b"s2")
rc = reconfigure.Reconfigure.to_standalone(bt.controldir)
rc.apply()
t = workingtree.WorkingTree.open("shared/b1")
print("B parents after", t.get_parent_ids(), "has s2:", t.branch.repository.has_revision(b"s2"), "tags", t.branch.tags.get_tag_dict())

# C: tree -> lightweight checkout with conflicting tags
m = mk("cm"); open("cm/a","w").write("a\n"); m.add(["a"]); m.commit("one", rev_id=b"c1")
open("cm/a","w").write("a2\n"); m.commit("two", rev_id=b"c2")
c = m.controldir.sprout("cc").open_workingtree()
m.branch.tags.set_tag("v", b"c1")
c.branch.tags.set_tag("v", b"c2")
rc = reconfigure.Reconfigure.to_lightweight_checkout(c.controldir, m.branch.base)
rc.apply()
t = workingtree.WorkingTree.open("cc")
print("C tags after", t.branch.tags.get_tag_dict())

# ---- verdict (exit 1 when a violation is present on unmodified code) ----
bad = []
tA = workingtree.WorkingTree.open("co")
if not tA.branch.repository.has_revision(b"o2"):
    bad.append("A: lightweight checkout -> tree: pending merge o2 kept as tree parent but its revision is not fetched (ghost parent)")
tB = workingtree.WorkingTree.open("shared/b1")
if not tB.branch.repository.has_revision(b"s2"):
    bad.append("B: shared-repo branch -> standalone: pending merge s2 and tag t-other -> s2 kept but revision s2 not fetched")
tC = workingtree.WorkingTree.open("cc")
if tC.branch.tags.get_tag_dict().get("v") != b"c2":
    bad.append("C: tree -> lightweight checkout: local tag v=c2 silently dropped (tag conflict from merge_to ignored), now %r" % tC.branch.tags.get_tag_dict())
for b_ in bad:
    print("VIOLATION", b_)
sys.exit(1 if bad else 0)
