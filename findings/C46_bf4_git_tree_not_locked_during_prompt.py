"""BASELINE finding (unmodified code), git trees only: clean-tree deletes a file
that became versioned while it was prompting.

For bzr trees the dirstate read lock held by clean_tree() across the prompt
makes a concurrent `brz add` fail with LockContention.  GitWorkingTree's
lock_read() takes no OS-level lock, so for a git tree the concurrent add
succeeds and clean-tree then unlinks a file that is in the index (exit 1).
(Weak finding: the property statement does not mention concurrency.)

Original description of the scenario:
C46 demo 2: clean-tree must never delete a versioned file.

While clean-tree is waiting for the user's confirmation another process tries
to `brz add` one of the listed unknown files.  clean-tree holds the tree's
read lock from the moment it enumerates the deletables until it has deleted
them, so the concurrent add is refused (LockContention) and the file is still
unversioned when it is deleted.  If the lock is dropped before the prompt, the
add succeeds and clean-tree then deletes a file that is versioned.
"""
import os
import subprocess
import sys
import tempfile

sys.path.insert(0, os.getcwd())
base = tempfile.mkdtemp(prefix="c46-2-")
os.environ["HOME"] = base
os.environ["BRZ_HOME"] = base
os.environ["BRZ_EMAIL"] = "Demo <demo@example.com>"
os.environ["PYTHONPATH"] = os.getcwd()

import breezy

breezy.initialize()
from breezy import ui
from breezy.plugin import load_plugins

load_plugins()
import breezy.bzr, breezy.git  # noqa
from breezy.clean_tree import clean_tree
from breezy.controldir import ControlDir, format_registry
from breezy.workingtree import WorkingTree

tdir = os.path.join(base, "tree")
os.mkdir(tdir)
tree = ControlDir.create_standalone_workingtree(
    tdir, format=format_registry.make_controldir("git")
)
with open(os.path.join(tdir, "a"), "w") as f:
    f.write("a")
tree.add(["a"])
tree.commit("one")
with open(os.path.join(tdir, "newfile"), "w") as f:
    f.write("work in progress the user is about to add\n")
with open(os.path.join(tdir, "junk"), "w") as f:
    f.write("junk")

add_result = {}


class ConcurrentAddUI(ui.SilentUIFactory):
    """Answers 'yes', but another process adds 'newfile' while we 'think'."""

    def note(self, msg):
        pass

    def get_boolean(self, prompt, **kwargs):
        proc = subprocess.run(
            [sys.executable, "-m", "breezy", "add", os.path.join(tdir, "newfile")],
            capture_output=True,
            text=True,
            timeout=120,
        )
        add_result["rc"] = proc.returncode
        add_result["err"] = proc.stderr.strip().splitlines()[-1:] if proc.stderr else []
        return True


ui.ui_factory = ConcurrentAddUI()
clean_tree(tdir, unknown=True, no_prompt=False)
print("concurrent `brz add newfile`: rc=%r %r" % (add_result.get("rc"), add_result.get("err")))

wt = WorkingTree.open(tdir)
with wt.lock_read():
    versioned = wt.is_versioned("newfile")
present = os.path.lexists(os.path.join(tdir, "newfile"))
print("newfile versioned=%s present_on_disk=%s" % (versioned, present))
if os.path.lexists(os.path.join(tdir, "junk")):
    print("FAIL: unknown file 'junk' was not deleted")
    sys.exit(2)
if versioned and not present:
    print("FAIL: clean-tree deleted 'newfile' although it was versioned at deletion time")
    sys.exit(1)
print("PASS")
