"""Side finding on unmodified code (not a C21 violation, but it blocks every
git -> bzr pull/push of a commit that modifies an existing file):

breezy/git/fetch.py:import_git_blob calls
    ppath = intertree.find_source_paths(decoded_path, recurse="none")
(plural: takes a list, returns a dict) where find_source_path (singular) is
meant; the dict is then handed to ptree.kind() -> TypeError.

Run: cd <worktree> && /venv/bin/python <this file>; exit 1 when present.
"""

import os
import sys
import unittest

sys.path.insert(0, os.getcwd())

import breezy  # noqa: E402
import breezy.bzr  # noqa: E402, F401
import breezy.git  # noqa: E402, F401
from breezy.tests import TestCaseWithTransport  # noqa: E402

PROBLEMS = []


class Repro(TestCaseWithTransport):
    def test_pull_modified_file(self):
        gtree = self.make_branch_and_tree("git", format="git")
        self.build_tree_contents([("git/a", b"1\n")])
        gtree.add(["a"])
        gtree.commit("base")
        self.build_tree_contents([("git/a", b"2\n")])
        tip = gtree.commit("modify a")
        btree = self.make_branch_and_tree("bzr", format="2a")
        try:
            btree.pull(gtree.branch)
        except TypeError as e:
            PROBLEMS.append(f"pull git -> bzr of a modified file raised {e!r}")
            return
        self.assertEqual(tip, btree.last_revision())


if __name__ == "__main__":
    breezy.initialize()
    suite = unittest.defaultTestLoader.loadTestsFromTestCase(Repro)
    res = unittest.TextTestRunner(verbosity=1).run(suite)
    if PROBLEMS:
        for p in PROBLEMS:
            print("FINDING:", p)
        sys.exit(1)
    if not res.wasSuccessful():
        sys.exit(2)
    print("PASS")
