"""C41 baseline finding: the UNMODIFIED testament code is not sensitive to
several single-field perturbations of attested data.

Each case commits two revisions (same revision id, in two separate
repositories, for both 2a and pack-0.92) that differ in exactly one attested
field and compares the short testaments.  A case "collides" when the stored
field really differs (checked on the re-read revision / tree) but the
testament is byte-identical.

Cases:
  message-trailing-newline : "msg" vs "msg\n"         (str.splitlines drops it)
  message-u2028            : "a b" vs "a\nb"     (splitlines splits on U+2028)
  message-x85              : "a\x85b" vs "a\nb"       (splitlines splits on NEL)
  revprop-u2028            : property value "a b" vs "a\nb"
  timestamp-subsecond      : 1000000000.25 vs 1000000000.75 ("%d" truncates)
  symlink-backslash        : symlink target "x\\y" vs "x/y" (_escape_path maps \\ to /)
  exec-bit-v1              : executable bit flipped; Testament (v1, the one that is
                             signed by sign_revision / commit signatures) ignores it

Exit 1 and a message when any violation is present.
"""

import os
import shutil
import sys
import tempfile

sys.path.insert(0, os.getcwd())

import breezy  # noqa: E402
import breezy.bzr  # noqa: E402, F401
from breezy import controldir  # noqa: E402
from breezy.bzr.testament import StrictTestament, StrictTestament3, Testament  # noqa: E402

BASE = None
COUNT = [0]


def build(fmt_name, message="msg", timestamp=1000000000, revprops=None,
          symlink_target="tgt", executable=False):
    COUNT[0] += 1
    d = os.path.join(BASE, "t%d" % COUNT[0])
    os.mkdir(d)
    fmt = controldir.format_registry.make_controldir(fmt_name)
    wt = controldir.ControlDir.create_standalone_workingtree(d, format=fmt)
    with open(os.path.join(d, "f"), "wb") as f:
        f.write(b"content\n")
    os.chmod(os.path.join(d, "f"), 0o755 if executable else 0o644)
    os.symlink(symlink_target, os.path.join(d, "l"))
    wt.add(["f", "l"], ids=[b"f-id", b"l-id"])
    wt.set_root_id(b"root-id")
    props = {"branch-nick": "nick"}
    if revprops:
        props.update(revprops)
    wt.commit(message, rev_id=b"the-rev", timestamp=timestamp, timezone=0,
              committer="C <c@example.com>", revprops=props)
    return wt.branch.repository


def observe(repo):
    repo.lock_read()
    try:
        rev = repo.get_revision(b"the-rev")
        tree = repo.revision_tree(b"the-rev")
        data = {
            "message": rev.message,
            "timestamp": rev.timestamp,
            "props": dict(rev.properties),
            "symlink": tree.get_symlink_target("l"),
            "exec": tree.is_executable("f"),
        }
        texts = {
            cls.__name__: cls.from_revision(repo, b"the-rev").as_short_text()
            for cls in (Testament, StrictTestament, StrictTestament3)
        }
        return data, texts
    finally:
        repo.unlock()


CASES = [
    ("message-trailing-newline", {"message": "msg"}, {"message": "msg\n"}, "message"),
    ("message-u2028", {"message": "a b"}, {"message": "a\nb"}, "message"),
    ("message-x85", {"message": "a\x85b"}, {"message": "a\nb"}, "message"),
    ("revprop-u2028", {"revprops": {"p": "a b"}}, {"revprops": {"p": "a\nb"}}, "props"),
    ("timestamp-subsecond", {"timestamp": 1000000000.25}, {"timestamp": 1000000000.75},
     "timestamp"),
    ("symlink-backslash", {"symlink_target": "x\\y"}, {"symlink_target": "x/y"}, "symlink"),
    ("exec-bit", {"executable": False}, {"executable": True}, "exec"),
]


def main():
    global BASE
    breezy.initialize()
    from breezy import trace

    trace.be_quiet(True)
    BASE =tempfile.mkdtemp(prefix="c41base-")
    os.environ["BRZ_HOME"] = BASE
    os.environ["HOME"] = BASE
    violations = []
    try:
        for fmt_name in ("2a", "pack-0.92"):
            for name, kw1, kw2, field in CASES:
                try:
                    d1, t1 = observe(build(fmt_name, **kw1))
                    d2, t2 = observe(build(fmt_name, **kw2))
                except Exception as e:  # noqa: BLE001
                    print(f"[{fmt_name}] {name}: could not build ({e!r})")
                    continue
                if d1[field] == d2[field]:
                    print(f"[{fmt_name}] {name}: stored field identical "
                          f"({d1[field]!r}); not a testament issue")
                    continue
                same = [k for k in t1 if t1[k] == t2[k]]
                if same:
                    violations.append((fmt_name, name, same))
                    print(f"[{fmt_name}] {name}: stored {field} differs "
                          f"({d1[field]!r} vs {d2[field]!r}) but testament identical for {same}")
                else:
                    print(f"[{fmt_name}] {name}: ok (testaments differ)")
    finally:
        shutil.rmtree(BASE, ignore_errors=True)
    if violations:
        print("VIOLATION: testament insensitive to attested-field change in "
              "%d case(s)" % len(violations))
        return 1
    print("PASS")
    return 0


if __name__ == "__main__":
    sys.exit(main())
