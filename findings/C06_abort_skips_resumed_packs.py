"""C06: RepositoryPackCollection._abort_write_group stops at the first failure: when aborting the new pack raises (e.g. the
transport fails while deleting the upload file) the loop over the resumed packs is skipped, so the indices of a resumed
pack stay in the in-memory aggregate index.  Repository.abort_write_group(suppress_errors=True) (what StreamSink uses)
hides the error, and the same Repository object then still sees the aborted content although it is in no listed pack.
Exit 1 / DEFECT when present."""
import os, shutil, sys, tempfile
sys.path.insert(0, os.getcwd())
import breezy
breezy.initialize(setup_ui=False)
import breezy.bzr  # noqa
from breezy.controldir import format_registry
from breezy.repository import Repository
d = tempfile.mkdtemp()
rc = 0
try:
    from breezy.controldir import ControlDir
    os.mkdir(d + "/r")
    repo = format_registry.make_controldir("2a").initialize(d + "/r").create_repository()
    key = (b"file-id", b"rev-1")
    repo.lock_write()
    try:
        repo.start_write_group()
        repo.texts.add_lines(key, (), [b"content\n"])
        tokens = repo.suspend_write_group()
        repo.resume_write_group(tokens)                      # the suspended pack is now a resumed pack
        assert repo.texts.get_parent_map([key]) == {key: ()}
        def failing_abort():
            raise ConnectionError("transport failed while deleting the upload file")
        repo._pack_collection._new_pack.abort = failing_abort
        repo.abort_write_group(suppress_errors=True)        # as StreamSink.insert_stream does after an error
        still = repo.texts.get_parent_map([key])
        print("after the abort, same object sees:", still)
        fresh = Repository.open(d + "/r")
        with fresh.lock_read():
            print("freshly opened repository sees   :", fresh.texts.get_parent_map([key]))
            rc = 1 if still and not fresh.texts.get_parent_map([key]) else 0
    finally:
        try:
            repo.unlock()
        except Exception as e:
            print("unlock:", type(e).__name__, e)
finally:
    shutil.rmtree(d)
print("DEFECT" if rc else "OK")
sys.exit(rc)
