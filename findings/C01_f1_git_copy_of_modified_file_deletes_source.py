"""Baseline finding F1 (git): committing a file whose content equals the
*committed* content of another, locally modified, file deletes that other file.

  a      committed with content X, then edited locally (still versioned)
  copy   new file with content X, added

``iter_changes`` reports ('a' -> 'copy', copied=True) next to the modification
of 'a'.  GitCommitBuilder.record_iter_changes treats the copy like a rename
(`_deleted_paths.add(path[0])`) and MutableGitIndexTree.update_basis_by_delta
then drops 'a' from the index.

 * partial commit of just 'copy': the new revision LOSES 'a' (an unselected
   path), and 'a' is silently unversioned in the working tree.
 * full commit: the revision is right, but 'a' is unversioned afterwards, so
   the tree reports a pending removal of a file nobody removed.
"""
from _common import QUIET, finish, make_tree, pending, rev_state, write

problems = []
X = b"original content of a, several lines\nline 2\nline 3\n"

# partial commit
base, wt = make_tree("git")
write(base, "a", X)
wt.add(["a"])
wt.commit("one", reporter=QUIET)
write(base, "a", b"a was edited locally; this edit is NOT selected\n")
write(base, "copy", X)
wt.add(["copy"])
revid = wt.commit("two", specific_files=["copy"], reporter=QUIET)
state = rev_state(wt.branch.repository.revision_tree(revid))
if "a" not in state:
    problems.append("partial commit of 'copy': unselected file 'a' vanished from the new revision: %r" % sorted(state))
with wt.lock_read():
    if not wt.is_versioned("a"):
        problems.append("partial commit of 'copy': 'a' was silently unversioned in the working tree")
if ("a", "a") not in pending(wt):
    problems.append("partial commit of 'copy': the unselected edit of 'a' is no longer pending: %r" % pending(wt))

# full commit
base, wt = make_tree("git")
write(base, "a", X)
wt.add(["a"])
wt.commit("one", reporter=QUIET)
write(base, "a", b"a was edited locally\n")
write(base, "copy", X)
wt.add(["copy"])
revid = wt.commit("two", reporter=QUIET)
left = pending(wt)
if left:
    problems.append("full commit: working tree still reports changes afterwards: %r" % left)
with wt.lock_read():
    if not wt.is_versioned("a"):
        problems.append("full commit: 'a' was silently unversioned in the working tree")

finish(problems, "copies of modified files do not disturb their source")
