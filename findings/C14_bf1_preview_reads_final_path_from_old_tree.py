"""BASELINE FINDING 1 (unmodified code): PreviewTree reads entries whose
content is unchanged through their *final* path in the *original* tree.

PreviewTree.get_file_sha1 / is_executable / get_file_size / has_filename /
stored_kind (breezy/transform.py) and InventoryPreviewTree.get_file /
get_symlink_target (breezy/bzr/transform.py) call
``self._transform._tree.<accessor>(path)`` with the preview path instead of
``tree_path(trans_id)``.  For a file that is only renamed this raises
NoSuchFile; when two files swap names the preview silently returns the
*other* file's content/sha1/size/exec bit.

Property C14: "the preview tree shows exactly the paths, kinds, contents,
executable bits ... that the working tree has after the transform is applied".

Run: cd <worktree> && /venv/bin/python bf1_preview_reads_final_path_from_old_tree.py
Exit 1 + message when the violation is present, exit 0 otherwise.
"""

import os
import sys

sys.path.insert(0, os.path.dirname(os.path.abspath(__file__)))
from C14__common import attempt, make_tree, reopen  # noqa: E402


def facts(tree, paths):
    out = {}
    with tree.lock_read():
        for p in paths:
            out[p] = {
                "text": attempt(tree.get_file_text, p),
                "sha1": attempt(tree.get_file_sha1, p),
                "size": attempt(tree.get_file_size, p),
                "executable": attempt(lambda q: bool(tree.is_executable(q)), p),
                "has_filename": attempt(tree.has_filename, p),
            }
    return out


problems = []
for fmt in ("bzr", "git"):
    # --- case A: two files swap names --------------------------------------
    wt, base = make_tree(
        fmt, {"prog": b"#!/bin/sh\necho prog\n", "notes": b"just notes\n"},
        executable=("prog",),
    )
    tt = wt.transform()
    try:
        prog = tt.trans_id_tree_path("prog")
        notes = tt.trans_id_tree_path("notes")
        tt.adjust_path("notes", tt.root, prog)
        tt.adjust_path("prog", tt.root, notes)
        assert tt.find_raw_conflicts() == []
        preview = facts(tt.get_preview_tree(), ["prog", "notes"])
        tt.apply()
    finally:
        tt.finalize()
    applied = facts(reopen(wt), ["prog", "notes"])
    for p in ("prog", "notes"):
        for k in preview[p]:
            if preview[p][k] != applied[p][k]:
                problems.append(
                    f"[{fmt}] swap: {k}({p!r}) preview={preview[p][k]!r} applied={applied[p][k]!r}"
                )

    # --- case B: plain rename of an executable file ------------------------
    wt, base = make_tree(fmt, {"dir/tool": b"#!/bin/sh\n"}, executable=("dir/tool",))
    tt = wt.transform()
    try:
        tool = tt.trans_id_tree_path("dir/tool")
        tt.adjust_path("tool2", tt.root, tool)
        assert tt.find_raw_conflicts() == []
        preview = facts(tt.get_preview_tree(), ["tool2"])
        tt.apply()
    finally:
        tt.finalize()
    applied = facts(reopen(wt), ["tool2"])
    for k in preview["tool2"]:
        if preview["tool2"][k] != applied["tool2"][k]:
            problems.append(
                f"[{fmt}] rename: {k}('tool2') preview={preview['tool2'][k]!r} applied={applied['tool2'][k]!r}"
            )

if problems:
    print("VIOLATION (C14, preview != applied) on unmodified code:")
    for p in problems:
        print("  ", p)
    sys.exit(1)
print("no violation observed")
sys.exit(0)
