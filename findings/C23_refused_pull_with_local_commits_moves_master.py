"""BASELINE FINDING (C23, weaker): a `pull` in a checkout that is REFUSED
(DivergedBranches) has already moved the master.

GenericInterBranch.pull pulls source -> master first and then source -> local.
When the checkout holds a --local commit that has diverged from the source, the
first step succeeds and the second raises: the command fails, the local branch
is unchanged, but the master has a new tip.

Run:  cd <worktree> && /venv/bin/python refused_pull_with_local_commits_moves_master.py
Exit 1 when the violation is present.
"""

import sys, os
sys.path.insert(0, os.path.dirname(os.path.abspath(__file__)))
from C23__prelude import scratch, make_tree, commit_file
from breezy import errors
from breezy.branch import Branch

scratch("c23-refused-")
mt = make_tree("m")
commit_file(mt, "m", "a", "one")
co = mt.branch.create_checkout("co")
other = mt.branch.controldir.sprout("other").open_workingtree()
commit_file(other, "other", "o", "other")
commit_file(co, "co", "l", "local", local=True)
before = (co.branch.last_revision_info(), Branch.open("m").last_revision_info())
refused = False
try:
    co.pull(other.branch)
except errors.DivergedBranches:
    refused = True
after = (co.branch.last_revision_info(), Branch.open("m").last_revision_info())
print("refused:", refused)
print("before: local %r master %r" % before)
print("after : local %r master %r" % after)
rc = 0
if refused and after[1] != before[1]:
    print("VIOLATION: the refused pull changed the master")
    rc = 1
print("FAIL" if rc else "PASS")
sys.exit(rc)
