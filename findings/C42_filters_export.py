"""Baseline finding (unmodified code): `brz export --filters` goes through
breezy.filter_tree.ContentFilterTree, which does not forward
get_symlink_target() nor is_special_path() to the backing tree.

 (a) a tree containing a symlink cannot be exported with --filters at all:
     every format dies with NotImplementedError (Tree.get_symlink_target);
 (b) without a symlink, the filtered export contains `.bzrignore` (and any
     other top-level `.bzr*` path), which the unfiltered export of the same
     revision tree leaves out - the two exports of one tree differ in more than
     the filtered contents.

Run as: cd <worktree> && /venv/bin/python filters_export.py
Exits 1 (prints FINDING lines) when the behaviour is present.
"""

import os
import sys
import tarfile
import tempfile

sys.path.insert(0, os.getcwd())
_home = tempfile.mkdtemp(prefix="c42-home-")
os.environ.update(BRZ_HOME=_home, HOME=_home, BRZ_EMAIL="D <d@example.com>", BRZ_LOG=os.devnull)

import breezy  # noqa: E402

breezy.initialize()
import breezy.bzr  # noqa: E402, F401
import breezy.bzr.bzrdir  # noqa: E402, F401
from breezy import controldir, export, filter_tree, trace  # noqa: E402

trace.be_quiet(True)
os.chdir(tempfile.mkdtemp(prefix="c42-bf-"))
found = 0

wt = controldir.ControlDir.create_standalone_workingtree("plain")
open("plain/a", "wb").write(b"A\n")
open("plain/.bzrignore", "wb").write(b"*.o\n")
wt.add(["a", ".bzrignore"])
wt.commit("1")
rt = wt.branch.basis_tree()
export.export(rt, "plain.tar", "tar", root="r")
ft = filter_tree.ContentFilterTree(rt, rt._content_filter_stack)
export.export(ft, "filtered.tar", "tar", root="r")
plain = sorted(tarfile.open("plain.tar").getnames())
filtered = sorted(tarfile.open("filtered.tar").getnames())
print("unfiltered export:", plain)
print("--filters export :", filtered)
if plain != filtered:
    print("FINDING (b): --filters export has a different member set:", sorted(set(filtered) ^ set(plain)))
    found += 1

wt2 = controldir.ControlDir.create_standalone_workingtree("withlink")
open("withlink/a", "wb").write(b"A\n")
os.symlink("a", "withlink/l")
wt2.add(["a", "l"])
wt2.commit("1")
rt2 = wt2.branch.basis_tree()
for fmt in ("tar", "zip", "dir"):
    ft2 = filter_tree.ContentFilterTree(rt2, rt2._content_filter_stack)
    try:
        export.export(ft2, "l." + fmt, fmt, root="r")
    except NotImplementedError as e:
        print(f"FINDING (a): --filters export to {fmt} of a tree with a symlink: NotImplementedError {e}")
        found += 1

sys.exit(1 if found else 0)
