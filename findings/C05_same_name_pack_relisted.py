"""Baseline finding (unmodified code): a pack can end up LISTED in pack-names
while its files have been moved to obsolete_packs/ - after which every reader
that touches all indices fails, even after reloading pack-names.

Pack names are the md5 of the pack content, and with the 2a format packing the
same source packs gives byte-identical output, i.e. THE SAME NAME, in every
process.  The three-way merge of pack-names works on names only, so:

  pack-names = {X, Y}
  P2: `brz pack`   reads X,Y, writes packs/Z.pack ... (slow, not saved yet)
  P1: `brz pack`   X+Y -> Z (same name), pack-names = {Z}, X,Y obsoleted
  P1: commit N, `brz pack`: Z+N -> W, writes pack-names = {W},
        releases the names lock and is about to move Z to obsolete_packs/
  P2: _save_pack_names(): disk {W}, mine: -X -Y +Z  => writes {W, Z}
  P1: moves Z.pack / Z.?ix to obsolete_packs/          (P2's clean-up may even
                                                        delete them later)

Result: pack-names lists Z, Z's files are gone.  No revision is lost (W holds
everything) but "no reader sees a listed pack disappear without being able to
find its data after reloading" is violated permanently: all_revision_ids(),
pack, autopack, check ... raise NoSuchFile until pack-names is repaired by
hand.  The window is small (P2's save must land between P1's pack-names write
and P1's rename of Z) but nothing closes it; P2 blocking on the names lock
that P1 holds while writing pack-names lands exactly in it.

The schedule is forced with threads + events; each actor is a separate
Repository object performing the ordinary public operations.

Run from the worktree root: /venv/bin/python same_name_pack_relisted.py
Exit 1 + message when the violation is present, exit 0 otherwise.
"""

import os
import shutil
import sys
import tempfile
import threading

sys.path.insert(0, os.getcwd())
os.environ["BRZ_EMAIL"] = "Tester <tester@example.com>"
os.environ["BRZ_HOME"] = tempfile.mkdtemp(prefix="c05-home-")

import breezy  # noqa: E402

breezy.initialize()

import breezy.bzr  # noqa: E402,F401
from breezy import controldir, repository, trace, workingtree  # noqa: E402

trace.be_quiet(True)


def main():
    base = tempfile.mkdtemp(prefix="c05-same-")
    try:
        path = base + "/tree"
        tree = controldir.ControlDir.create_standalone_workingtree(
            path, format=controldir.format_registry.make_controldir("2a")
        )
        revs = []
        for i in range(2):
            with open(path + "/file", "a") as f:
                f.write("line %d\n" % i)
            if i == 0:
                tree.add(["file"])
            revs.append(tree.commit("rev %d" % i))
        del tree

        p2_at_save = threading.Event()
        p2_may_save = threading.Event()
        p2_done = threading.Event()
        p2_error = []

        def p2():
            try:
                r2 = repository.Repository.open(path)
                coll = r2._pack_collection
                orig_save = coll._save_pack_names

                def save(*args, **kwargs):
                    p2_at_save.set()
                    p2_may_save.wait(60)
                    return orig_save(*args, **kwargs)

                coll._save_pack_names = save
                r2.pack()
            except BaseException as e:  # noqa: BLE001
                p2_error.append(e)
            finally:
                p2_at_save.set()
                p2_done.set()

        t = threading.Thread(target=p2)
        t.start()
        p2_at_save.wait(60)  # P2 has built its pack Z and is about to save

        # P1: brz pack  (X+Y -> the same Z)
        r1 = repository.Repository.open(path)
        r1.pack()
        with r1.lock_read():
            z_names = r1._pack_collection.names()
        # P1: commit, then brz pack again (Z+N -> W)
        tree = workingtree.WorkingTree.open(path)
        with open(path + "/file", "a") as f:
            f.write("line 2\n")
        revs.append(tree.commit("rev 2"))
        r1b = repository.Repository.open(path)
        coll1 = r1b._pack_collection
        orig_obsolete = coll1._obsolete_packs

        def obsolete(packs):
            # pack-names has been written and the names lock released; now
            # P2's save gets in before we rename the old packs.
            p2_may_save.set()
            p2_done.wait(60)
            return orig_obsolete(packs)

        coll1._obsolete_packs = obsolete
        r1b.pack()
        t.join(60)
        if p2_error:
            print("P2 failed: %r" % (p2_error[0],))

        fresh = repository.Repository.open(path)
        with fresh.lock_read():
            names = fresh._pack_collection.names()
            pack_files = sorted(os.listdir(path + "/.bzr/repository/packs"))
            print("pack Z produced by both P1 and P2: %s" % z_names)
            print("pack-names now lists : %s" % names)
            print("files in packs/      : %s" % pack_files)
            listed_without_file = [n for n in names if n + ".pack" not in pack_files]
            try:
                present = set(fresh.all_revision_ids())
                read_error = None
            except Exception as e:  # noqa: BLE001
                read_error = e
        if listed_without_file or read_error is not None:
            print(
                "VIOLATION PRESENT: listed pack(s) %s have no files; a fresh "
                "reader gets: %r" % (listed_without_file, read_error)
            )
            return 1
        if not set(revs) <= present:
            print("VIOLATION PRESENT: revisions missing")
            return 1
        print("no violation")
        return 0
    finally:
        shutil.rmtree(base, ignore_errors=True)
        shutil.rmtree(os.environ["BRZ_HOME"], ignore_errors=True)


if __name__ == "__main__":
    sys.exit(main())
