"""C38: the sqlite SHA-map schema makes trees unique by sha1 (column constraint and unique index): two directories with
identical content recorded in one revision (same git tree sha, different file ids) - `replace into trees` keeps only the
last; lookup_tree_id raises KeyError for the first directory where the dict backend answers.  Exit 1 / DEFECT."""
import os, sys
sys.path.insert(0, os.getcwd())
import breezy
breezy.initialize(setup_ui=False)
from dulwich.objects import Blob, Commit, Tree
from breezy.git.cache import DictBzrGitCache, SqliteBzrGitCache

def fill(cache):
    blob = Blob.from_string(b"same\n")
    sub = Tree(); sub.add(b"f", 0o100644, blob.id)              # the tree both directories have
    root = Tree(); root.add(b"a", 0o40000, sub.id); root.add(b"b", 0o40000, sub.id)
    c = Commit(); c.tree = root.id; c.author = c.committer = b"x <x@y>"; c.author_time = c.commit_time = 0
    c.author_timezone = c.commit_timezone = 0; c.message = b"m"
    u = cache.get_updater(type("Rev", (), {"revision_id": b"rev1", "parent_ids": ()})())
    u.add_object(c, {"testament3-sha1": b"0" * 40}, None)
    u.add_object(blob, (b"f-id-a", b"rev1"), b"a/f")
    u.add_object(sub, (b"a-id", b"rev1"), b"a")
    u.add_object(sub, (b"b-id", b"rev1"), b"b")
    u.add_object(root, (b"root-id", b"rev1"), b"")
    u.finish()
    out = []
    for fid in (b"a-id", b"b-id", b"root-id"):
        try:
            out.append((fid, cache.idmap.lookup_tree_id(fid, b"rev1")))
        except KeyError as e:
            out.append((fid, "KeyError"))
    return out
d = fill(DictBzrGitCache())
s = fill(SqliteBzrGitCache(":memory:"))
print("dict  :", d); print("sqlite:", s)
rc = 1 if d != s else 0
print("DEFECT" if rc else "OK"); sys.exit(rc)
