"""Shared set-up for the C23 baseline repro scripts (run from the worktree root)."""

import os
import sys
import tempfile

sys.path.insert(0, os.getcwd())
_home = tempfile.mkdtemp(prefix="c23-home-")
os.environ["BRZ_EMAIL"] = "Tester <tester@example.com>"
os.environ["BRZ_HOME"] = _home
os.environ["HOME"] = _home

import breezy

breezy.initialize()
import breezy.bzr  # noqa: F401,E402
import breezy.git  # noqa: F401,E402
from breezy import trace  # noqa: E402
from breezy.controldir import ControlDir, format_registry  # noqa: E402

trace.be_quiet(True)


def scratch(prefix):
    d = tempfile.mkdtemp(prefix=prefix)
    os.chdir(d)
    return d


def make_tree(path, fmt="default"):
    return ControlDir.create_standalone_workingtree(
        path, format=format_registry.make_controldir(fmt)
    )


def commit_file(tree, relpath, name, message, **kwargs):
    with open(os.path.join(relpath, name), "w") as f:
        f.write(message + "\n")
    tree.add([name])
    return tree.commit(message, **kwargs)
