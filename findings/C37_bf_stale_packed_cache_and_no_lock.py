"""Baseline findings for C37 on UNMODIFIED code (TransportRefsContainer).

(1) The packed-refs cache of a TransportRefsContainer is filled once and never
    refreshed ("TODO: invalidate the cache on repacking").  A conditional
    operation that is decided on the packed value therefore uses a value that
    can be arbitrarily old: after another process packed a (new) ref,
    add_if_new() on the long-lived container overwrites it and
    set_if_equals(name, ZERO_SHA, x) ("only if absent") succeeds.
(2) set_if_equals() takes no lock between reading the current value and
    writing the new one (dulwich's DiskRefsContainer holds <ref>.lock over
    both).  Two updaters that both expect the same old value both get True;
    the first one's update is silently lost.

Exit 1 when a violation is present.
"""
import os
import sys
import tempfile

sys.path.insert(0, os.getcwd())
import breezy  # noqa: E402
import breezy.bzr  # noqa: E402,F401
import breezy.git  # noqa: E402,F401
from breezy.transport import get_transport  # noqa: E402
from breezy.git.transportgit import TransportRefsContainer  # noqa: E402

A, B, C = b"a" * 40, b"b" * 40, b"c" * 40
ZERO = b"0" * 40
NAME = b"refs/heads/topic"
bad = []

with breezy.initialize():
    # ---- (1) stale packed-refs cache
    for op in ("add_if_new", "set_if_equals"):
        t = get_transport(tempfile.mkdtemp(prefix="c37-base-"))
        long_lived = TransportRefsContainer(t)
        long_lived.allkeys()  # any earlier read fills the cache (empty)
        # another process creates the ref and packs it (git pack-refs --all)
        t.put_bytes("packed-refs", b"# pack-refs with: peeled fully-peeled sorted \n" + A + b" " + NAME + b"\n")
        assert TransportRefsContainer(t)[NAME] == A
        if op == "add_if_new":
            r = long_lived.add_if_new(NAME, B)
        else:
            r = long_lived.set_if_equals(NAME, ZERO, B)
        now = TransportRefsContainer(t)[NAME]
        if r or now != A:
            bad.append(f"(1) {op}: ref existed (packed, value A) but call returned {r}; ref now {now!r}")

    # ---- (2) no lock between check and write
    t = get_transport(tempfile.mkdtemp(prefix="c37-base-"))
    TransportRefsContainer(t)[NAME] = A
    first, second = TransportRefsContainer(t), TransportRefsContainer(t)
    results = {}
    orig = first._ensure_dir_exists

    def after_check_before_write(path):
        # `first` has compared the value already; now the other updater runs
        results["second"] = second.set_if_equals(NAME, A, C)
        return orig(path)

    first._ensure_dir_exists = after_check_before_write
    results["first"] = first.set_if_equals(NAME, A, B)
    now = TransportRefsContainer(t)[NAME]
    if results["first"] and results["second"]:
        bad.append(f"(2) two updaters expecting A both succeeded ({results}); ref now {now!r}, the other update is lost")

for b in bad:
    print("VIOLATION:", b)
if bad:
    sys.exit(1)
print("no violation")
