"""Baseline finding: GitBranch.lock_write that is refused leaves the branch locked.

LocalGitBranch.lock_write() takes the physical ref lock (refs/heads/<x>.lock),
records mode 'w'/count 1 and only THEN write-locks its repository.  If the
repository refuses (it is only read-locked -> ReadOnlyError) the exception
propagates, but the branch object stays write-locked and the ref lock file
stays on disk: the refused request changed the lock state and the physical
lock is never released by a matching unlock.  (BzrBranch.lock_write undoes
its partial work in the equivalent situation.)

Run: cd <worktree> && /venv/bin/python git_branch_lock_write_leak.py
exit 0 = property holds, exit 1 = violation present.
"""
import os
import sys
import tempfile

sys.path.insert(0, os.getcwd())
os.environ["BRZ_EMAIL"] = "Tester <t@example.com>"
os.environ["BRZ_HOME"] = tempfile.mkdtemp(prefix="c28-home-")

import breezy
import breezy.bzr  # noqa: F401
import breezy.git  # noqa: F401
from breezy import errors
from breezy.controldir import ControlDir, format_registry

breezy.initialize()

d = tempfile.mkdtemp(prefix="c28-git-")
tree = ControlDir.create_standalone_workingtree(d, format=format_registry.make_controldir("git"))
tree.commit("one", allow_pointless=True)
branch = tree.branch
lockfile = os.path.join(d, ".git", "refs", "heads", "master.lock")

problems = []
branch.repository.lock_read()
try:
    try:
        branch.lock_write()
    except errors.ReadOnlyError:
        pass
    else:
        problems.append("lock_write unexpectedly succeeded")
    if branch.is_locked():
        problems.append(
            f"refused lock_write left the branch locked "
            f"(mode={branch._lock_mode!r}, count={branch._lock_count})")
    if os.path.exists(lockfile):
        problems.append(f"physical ref lock still held: {lockfile}")
finally:
    branch.repository.unlock()

# after everything the caller legitimately took has been released, nothing
# may remain locked
if branch.repository.is_locked():
    problems.append("repository still locked")
if os.path.exists(lockfile):
    problems.append("ref lock file survives all unlocks")
    # a second opener can now never write-lock the branch
    other = ControlDir.open(d).open_branch()
    try:
        other.lock_write()
    except Exception as e:
        problems.append(f"fresh branch object cannot lock_write: {type(e).__name__}")
    else:
        other.unlock()

if problems:
    print("FAIL (violation present in unmodified code):")
    for p in problems:
        print("  -", p)
    sys.exit(1)
print("PASS")
