"""Baseline finding 2 (C06): a fetch whose commit triggers an autopack and then
fails to write pack-names leaves the fetched revision visible after the abort.

The 10th pack makes _commit_write_group() call autopack().  The autopack
combines the nine old packs AND the just-allocated new pack into one pack,
removes the ten source packs from memory, allocates the combined pack and then
calls _save_pack_names().  If that fails (here: LockContention on the
pack-names lock, i.e. another process is holding it), the cleanup in
_commit_write_group() only forgets the packs it allocated itself -- which are
already gone from memory -- and the *combined* pack, which contains the data of
the write group that is now being aborted, stays allocated.

Observable result on the unmodified tree, after StreamSink.insert_stream has
aborted the write group and fetch() has raised:
  * all_revision_ids() through the same (still locked) object contains rev9;
  * names() is just the combined pack, while pack-names on disk still lists
    the nine old packs: the next write group committed through this object
    publishes rev9 and obsoletes the nine packs.

exit 1 + message when the violation is present, exit 0 otherwise.
Run as:  cd <worktree> && /venv/bin/python bf2_autopack_save_failure_then_abort.py
"""

import os
import sys
import tempfile

sys.path.insert(0, os.getcwd())
os.environ["BRZ_EMAIL"] = "Tester <tester@example.com>"
os.environ["BRZ_HOME"] = tempfile.mkdtemp(prefix="c06-home-")

import breezy  # noqa: E402

breezy.initialize()
import breezy.bzr  # noqa: E402,F401
from breezy import controldir, errors, ui  # noqa: E402

ui.ui_factory = ui.SilentUIFactory()


def disk_state(path):
    r = controldir.ControlDir.open(path).open_repository()
    with r.lock_read():
        return sorted(r.all_revision_ids()), sorted(r._pack_collection.names())


def main():
    d = tempfile.mkdtemp(prefix="c06-bf2-")
    fmt = controldir.format_registry.make_controldir("2a")
    tree = controldir.ControlDir.create_standalone_workingtree(
        os.path.join(d, "src"), format=fmt
    )
    revs = []
    for i in range(10):
        with open(os.path.join(d, "src", "a"), "w") as f:
            f.write("hello %d\n" % i)
        if i == 0:
            tree.add(["a"])
        revs.append(tree.commit("c%d" % i, rev_id=b"rev%d" % i))
    source = tree.branch.repository
    tgt = os.path.join(d, "tgt")
    os.mkdir(tgt)
    repo = fmt.initialize(tgt).create_repository()
    repo.lock_write()
    for i in range(9):
        repo.fetch(source, revision_id=revs[i])
    before = (sorted(repo.all_revision_ids()), sorted(repo._pack_collection.names()))
    assert len(before[1]) == 9, before

    collection = repo._pack_collection
    orig_lock_names = collection.lock_names

    def contended():
        raise errors.LockContention("pack-names (injected: held by another process)")

    collection.lock_names = contended
    try:
        repo.fetch(source, revision_id=revs[9])
    except errors.LockContention as e:
        print("fetch failed as injected:", str(e).strip())
    else:
        print("fault was not hit; cannot evaluate")
        return 2
    finally:
        collection.lock_names = orig_lock_names
    print("in write group after the failed fetch:", bool(repo.is_in_write_group()))
    after = (sorted(repo.all_revision_ids()), sorted(repo._pack_collection.names()))
    disk = disk_state(tgt)
    print("object before:", before[0], len(before[1]), "packs")
    print("object after: ", after[0], len(after[1]), "packs")
    print("disk:         ", disk[0], len(disk[1]), "packs")
    repo.unlock()
    problems = []
    if after[0] != before[0]:
        problems.append(
            "revision(s) of the aborted write group visible: %r"
            % sorted(set(after[0]) - set(before[0]))
        )
    if after[1] != before[1]:
        problems.append(
            "in-memory pack list differs from the one before the write group "
            "(%d packs -> %d packs) although nothing was committed"
            % (len(before[1]), len(after[1]))
        )
    if problems:
        print("VIOLATION (baseline):")
        for p in problems:
            print("  -", p)
        return 1
    print("no violation")
    return 0


if __name__ == "__main__":
    sys.exit(main())
