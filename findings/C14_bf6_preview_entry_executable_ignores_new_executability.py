"""BASELINE FINDING 6 (unmodified code): the inventory entries yielded by the
preview tree's iter_entries_by_dir() carry the wrong executable bit.

 * bzr: InventoryPreviewTree._make_inv_entries builds entries with
   inventory.make_entry(kind, name, parent, file_id) and never sets
   ``executable`` (neither from _new_executability nor from the source tree).
 * git: DiskTreeTransform.final_entry uses the limbo file's stat mode / the
   old tree's entry and ignores _new_executability.

preview.is_executable(path) is right for these cases, so the preview tree
is even inconsistent with itself; after apply() the working tree's entries
have the requested bit.

Run: cd <worktree> && /venv/bin/python bf6_preview_entry_executable_ignores_new_executability.py
"""

import os
import sys

sys.path.insert(0, os.path.dirname(os.path.abspath(__file__)))
from C14__common import make_tree, reopen  # noqa: E402


def entry_exec(tree):
    with tree.lock_read():
        return {
            p: (bool(e.executable), bool(tree.is_executable(p)))
            for p, e in tree.iter_entries_by_dir()
            if e.kind == "file"
        }


problems = []
for fmt in ("bzr", "git"):
    wt, base = make_tree(
        fmt, {"script": b"#!/bin/sh\n", "plain": b"plain\n"}, executable=("script",)
    )
    tt = wt.transform()
    try:
        tt.new_file("newtool", tt.root, [b"#!/bin/sh\n"], b"newtool-id", True)
        tt.set_executability(True, tt.trans_id_tree_path("plain"))
        tt.set_executability(False, tt.trans_id_tree_path("script"))
        assert tt.find_raw_conflicts() == []
        preview = entry_exec(tt.get_preview_tree())
        tt.apply()
    finally:
        tt.finalize()
    applied = entry_exec(reopen(wt))
    for p in sorted(applied):
        print(f"[{fmt}] {p}: preview (entry.executable, is_executable)={preview.get(p)} applied={applied[p]}")
        if preview.get(p) != applied[p]:
            problems.append(f"[{fmt}] {p}")

if problems:
    print("VIOLATION (C14): executable bit of preview entries != applied:", problems)
    sys.exit(1)
print("no violation observed")
