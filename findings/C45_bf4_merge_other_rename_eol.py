"""Baseline finding: a merge in which OTHER renames a file across an eol-rule
boundary (*.txt has eol=crlf, *.dat has no rule) and changes its content writes
the new content through the filter of the OLD (working-tree) path while the
file ends up at the NEW path.  The working tree file then reads back (through
the filters of its final path) differently from the canonical content that
was merged, and a commit of the merge stores CRLF bytes.

exit 1 + message when the violation is present.
"""
import os
import shutil
import sys
import tempfile

sys.path.insert(0, os.getcwd())
tmp = tempfile.mkdtemp(prefix="c45-base-")
os.environ["BRZ_HOME"] = tmp
os.environ["HOME"] = tmp
os.environ["BRZ_EMAIL"] = "Tester <t@example.com>"

import breezy
from breezy import trace
import breezy.bzr  # noqa
import breezy.git  # noqa
from breezy import rules  # noqa
from breezy.controldir import ControlDir
from breezy.workingtree import WorkingTree

breezy.initialize()
trace.be_quiet(True)


def main():
    from breezy import bedding

    os.makedirs(bedding.config_dir(), exist_ok=True)
    with open(rules.rules_path(), "w") as f:
        f.write("[name *.txt]\neol = crlf\n")
    rules.reset_rules()
    base = os.path.join(tmp, "work")
    os.mkdir(base)
    from breezy.controldir import format_registry
    a = ControlDir.create_standalone_workingtree(
        os.path.join(base, "a"), format=format_registry.make_controldir("2a")
    )
    with open(os.path.join(base, "a", "notes.txt"), "wb") as f:
        f.write(b"one\r\ntwo\r\n")
    a.add(["notes.txt"])
    a.commit("base")
    b = a.controldir.sprout(os.path.join(base, "b")).open_workingtree()
    # OTHER (a): rename across the rule boundary and change the content
    a.rename_one("notes.txt", "notes.dat")
    with open(os.path.join(base, "a", "notes.dat"), "wb") as f:
        f.write(b"one\ntwo\nthree\n")
    a.commit("rename + change")
    rt = a.branch.repository.revision_tree(a.branch.last_revision())
    with rt.lock_read():
        canonical = rt.get_file_text("notes.dat")
    assert canonical == b"one\ntwo\nthree\n", canonical
    # THIS (b): unchanged.  Merge a into b.
    with b.lock_write():
        b.merge_from_branch(a.branch)
    b = WorkingTree.open(os.path.join(base, "b"))
    with b.lock_read():
        got = b.get_file_text("notes.dat")
    with open(os.path.join(base, "b", "notes.dat"), "rb") as f:
        disk = f.read()
    print("disk bytes      :", disk)
    print("read back       :", got)
    print("canonical merged:", canonical)
    if got != canonical:
        print("FAIL: merged content does not read back as the canonical content")
        return 1
    print("PASS")
    return 0


try:
    rc = main()
finally:
    shutil.rmtree(tmp, ignore_errors=True)
sys.exit(rc)
