"""UNMODIFIED code: 0.9 action lines are wrapped at 79 *bytes* (v08.Action.write)
but decoded line by line as UTF-8 by the reader, so a long non-ASCII path whose
wrap point falls inside a multi-byte character makes the bundle unreadable
(UnicodeDecodeError).  Format 4 is fine.

Run: cd <worktree> && /venv/bin/python 4_v09_long_unicode_path.py
"""
import os, sys
sys.path.insert(0, os.path.dirname(os.path.abspath(__file__)))
from C40__common import *  # noqa

tree = mktree("src")
name = "a" + "\xe9" * 40
with open("src/" + name, "wb") as f:
    f.write(b"one\n")
tree.add([name])
tree.commit("one", rev_id=b"r1")
print("format 4  :", roundtrip(tree, b"null:", b"r1", "4", name="d4"))
try:
    ok = roundtrip(tree, b"null:", b"r1", "0.9", name="d09")
    print("format 0.9:", ok)
    sys.exit(0 if ok else 1)
except Exception as e:
    print("format 0.9: VIOLATION:", type(e).__name__, e)
    sys.exit(1)
