"""Baseline finding (C39, conflict clause): applying a diff to a text that is
shorter than the diff's context is not reported as PatchConflict; the Python
patcher lets StopIteration escape inside a generator -> RuntimeError.
"""
import os, sys
from io import BytesIO
sys.path.insert(0, os.getcwd())
from breezy.diff import internal_diff
from breezy.patches import iter_patched, PatchConflict

old = [b"a\n", b"b\n", b"c\n"]
new = [b"a\n", b"b\n", b"d\n"]
out = BytesIO()
internal_diff("old", old, "new", new, out)
patch_lines = out.getvalue().splitlines(True)
truncated = old[:1]  # perturbed old text: lines missing at the end
try:
    res = list(iter_patched(truncated, patch_lines))
except PatchConflict:
    print("PASS: conflict reported")
    sys.exit(0)
except Exception as e:
    print("VIOLATION: expected PatchConflict, got %r" % (e,))
    sys.exit(1)
print("VIOLATION: no error, output %r" % (res,))
sys.exit(1)
