"""C17 clause 2 (executable bits), bzr working trees; same root cause family as f6.

(a) THIS == BASE, OTHER renames an executable file b -> b2.  After the merge
    the disk mode is 755 and is_executable('b2') is True, but the working
    inventory entry (iter_entries_by_dir / what a filesystem without an
    executable bit would report) says executable=False:
    InventoryTreeTransform._generate_inventory_delta rebuilds a renamed
    entry with make_entry() and only copies the x bit when the transform
    *changed* it.
(b) Consequence, two merges in a row without a commit: merge a branch that
    renames b -> b2, then merge a branch that edits b's text.  _entries3 takes
    THIS's x bit from that stale inventory entry, so _merge_executable writes
    "not executable" onto the merged file although BASE, THIS and OTHER all
    agree that it is executable.
"""
import sys, os
sys.path.insert(0, os.path.dirname(os.path.abspath(__file__)))
from C17__c17lib import make_tree, sprout, merge, write

tmp, base = make_tree("bzr", {"b": ("x", b"b1\nb2\nb3\n"), "a": b"a\n"})
this = sprout(base, tmp, "this"); o1 = sprout(base, tmp, "o1"); o2 = sprout(base, tmp, "o2")
o1.rename_one("b", "b2"); o1.commit("rename b")
write(o2, "b", b"b1\nb2\nb3\nmore\n"); os.chmod(o2.abspath("b"), 0o755); o2.commit("edit b")

bad = []
print("merge 1 conflicts:", merge(this, o1))
with this.lock_read():
    inv_flag = dict((p, e.executable) for p, e in this.iter_entries_by_dir() if e.kind == "file")["b2"]
    api_flag = this.is_executable("b2")
print("after merge 1: inventory entry executable=%r, is_executable()=%r, disk mode=%o"
      % (inv_flag, api_flag, os.stat(this.abspath("b2")).st_mode & 0o777))
if not inv_flag:
    bad.append("(a) inventory entry of renamed file lost executable=True")
print("merge 2 conflicts:", merge(this, o2))
mode = os.stat(this.abspath("b2")).st_mode & 0o777
print("after merge 2: disk mode=%o" % mode)
if not mode & 0o100:
    bad.append("(b) x bit dropped on disk although BASE, THIS and OTHER are all executable")
if bad:
    print("VIOLATION:", bad)
    sys.exit(1)
print("ok")
