"""Baseline finding (unmodified code).

A commit whose write group fails while *publishing* (the pack-names rewrite
raises) is reported as failed and aborted, but when the failing commit had
triggered an autopack the combined pack (which already contains the failed
commit's data) stays allocated in the in-memory pack list, and the source
packs stay removed from it.  The next write group committed through the same
repository object - even after unlocking and re-locking, because
reload_pack_names() preserves pending in-memory changes - writes the
combined pack into pack-names.  The revision of the commit that raised
becomes visible in the repository although that commit was rolled back.

Commit 4c96017 fixed this for the pack allocated by _commit_write_group
itself, but not for the pack allocated by the autopack that runs inside it.

Run:  cd <worktree> && /venv/bin/python autopack_publish_failure_leaks_revision.py
Exit 1 + message when the violation is present.
"""

import os
import sys
import tempfile

sys.path.insert(0, os.getcwd())
os.environ["BRZ_EMAIL"] = "Tester <t@example.com>"
os.environ["BRZ_HOME"] = tempfile.mkdtemp(prefix="c04-home-")
os.environ["HOME"] = os.environ["BRZ_HOME"]

import breezy
import breezy.bzr  # noqa: F401
from breezy import controldir, errors, trace
from breezy.repository import Repository

breezy.initialize().__enter__()
trace.be_quiet(True)


class FailingPutProxy:
    """Transport proxy whose put_file('pack-names') fails once."""

    def __init__(self, inner):
        self.__dict__["_inner"] = inner
        self.__dict__["fail_next"] = False

    def __getattr__(self, name):
        attr = getattr(self._inner, name)
        if name == "put_file":

            def put_file(relpath, *args, **kwargs):
                if relpath == "pack-names" and self.fail_next:
                    self.__dict__["fail_next"] = False
                    raise errors.TransportError("injected: connection lost")
                return attr(relpath, *args, **kwargs)

            return put_file
        return attr


def run(fmt):
    root = tempfile.mkdtemp(prefix="c04-base-")
    wt_path = os.path.join(root, "wt")
    tree = controldir.ControlDir.create_standalone_workingtree(
        wt_path, format=controldir.format_registry.make_controldir(fmt)
    )
    with open(os.path.join(wt_path, "f"), "w") as f:
        f.write("0\n")
    tree.add(["f"])
    for i in range(9):
        with open(os.path.join(wt_path, "f"), "a") as f:
            f.write("line %d\n" % i)
        tree.commit("c%d" % i, rev_id=b"rev-%d" % i)
    repo = tree.branch.repository
    coll = repo._pack_collection
    proxy = FailingPutProxy(coll.transport)
    coll.transport = proxy

    # 10th commit: triggers autopack; publishing pack-names fails.
    with open(os.path.join(wt_path, "f"), "a") as f:
        f.write("doomed\n")
    proxy.__dict__["fail_next"] = True
    try:
        tree.commit("doomed", rev_id=b"rev-doomed")
    except errors.TransportError:
        pass
    else:
        raise AssertionError("fault was not injected")
    after_fail = Repository.open(wt_path)
    with after_fail.lock_read():
        assert b"rev-doomed" not in after_fail.all_revision_ids()

    # An unrelated, successful commit through the same objects.
    with open(os.path.join(wt_path, "g"), "w") as f:
        f.write("g\n")
    tree.add(["g"])
    tree.commit("good", rev_id=b"rev-good")

    fresh = Repository.open(wt_path)
    with fresh.lock_read():
        revs = set(fresh.all_revision_ids())
    if b"rev-doomed" in revs:
        print(
            "%s: VIOLATION: revision of the failed (aborted) commit is listed "
            "after a later commit: %s" % (fmt, sorted(revs))
        )
        return False
    print("%s: ok" % fmt)
    return True


ok = True
for fmt in ("2a", "pack-0.92"):
    ok = run(fmt) and ok
if not ok:
    print("FAIL")
    sys.exit(1)
print("PASS")
