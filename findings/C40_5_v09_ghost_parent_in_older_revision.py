"""UNMODIFIED code: the 0.9 writer diffs every non-target revision against its
LAST parent; when that parent is a ghost the bundle cannot even be written
(NoSuchRevision).  test_bundle_with_ghosts only has the ghost on the target
revision, which gets an explicit base.  Format 4 is fine.

Run: cd <worktree> && /venv/bin/python 5_v09_ghost_parent_in_older_revision.py
"""
import os, sys
sys.path.insert(0, os.path.dirname(os.path.abspath(__file__)))
from C40__common import *  # noqa

tree = mktree("src")
with open("src/a", "wb") as f:
    f.write(b"one\n")
tree.add(["a"])
tree.commit("one", rev_id=b"r1")
tree.add_parent_tree_id(b"ghost")
with open("src/a", "wb") as f:
    f.write(b"one\ntwo\n")
tree.commit("two", rev_id=b"r2")
with open("src/a", "wb") as f:
    f.write(b"one\ntwo\nthree\n")
tree.commit("three", rev_id=b"r3")
print("format 4  :", roundtrip(tree, b"null:", b"r3", "4", name="d4"))
try:
    ok = roundtrip(tree, b"null:", b"r3", "0.9", name="d09")
    print("format 0.9:", ok)
    sys.exit(0 if ok else 1)
except Exception as e:
    print("format 0.9: VIOLATION:", type(e).__name__, e)
    sys.exit(1)
