"""Baseline finding F5 (GitMemoryTree): a memory tree opened on a git branch
reports every executable file as changed, and a commit made through it clears
the executable bit of files nobody touched.

GitMemoryTree._populate_from_branch copies blobs into a MemoryTransport, which
has no notion of an executable bit, and re-derives the index mode from it.
(It also raises NotImplementedError for a branch that contains a symlink.)
"""
from _common import QUIET, finish, make_tree, rev_state, write

problems = []
base, wt = make_tree("git")
write(base, "script.sh", b"#!/bin/sh\n", 0o755)
write(base, "plain", b"plain\n")
wt.add(["script.sh", "plain"])
wt.commit("one", reporter=QUIET)
mt = wt.branch.create_memorytree()
with mt.lock_write():
    spurious = [(c.path, c.executable) for c in mt.iter_changes(mt.basis_tree())]
    if spurious:
        problems.append("freshly locked memory tree already reports changes: %r" % spurious)
    mt.put_file_bytes_non_atomic("plain", b"plain v2\n")
    revid = mt.commit("two", reporter=QUIET)
state = rev_state(wt.branch.repository.revision_tree(revid))
if state["script.sh"][2] is not True:
    problems.append("commit through the memory tree cleared the executable bit of the untouched script.sh")
finish(problems, "memory tree preserves executable bits")
