"""Baseline finding (UNMODIFIED code): `pull` into a bound bzr branch from a
third branch that has BOTH new revisions AND tags dies with LockContention on
the master, after the master has already been updated and before the bound
branch's tags are written -> the tag transfer is half done (master has the
source's tags, the bound branch has none) and nothing is reported.

Cause: GenericInterBranch.pull locks the object returned by
target.get_master_branch() (cached in target._master_branch_cache).  _pull ->
_update_revisions -> set_last_revision_info -> _clear_cached_state() drops
that cache, so InterTags.merge's own `self.target.branch.get_master_branch()`
opens a *second* Branch object for the master and tries to lock_write it while
the first object still holds the physical lock.  Without new revisions the
cache survives and everything works, which is why the existing tests pass.

C24: "every tag only in the source is added".

Run as: cd <worktree> && /venv/bin/python bound_pull_lock_contention.py
exit 1 = violation present.
"""

import os
import shutil
import sys
import tempfile

sys.path.insert(0, os.getcwd())

import breezy

breezy.initialize()
import breezy.bzr  # noqa: F401
from breezy import errors
from breezy.branch import Branch
from breezy.controldir import ControlDir, format_registry

tmp = tempfile.mkdtemp(prefix="c24-bf2-")
os.environ["BRZ_HOME"] = tmp
os.environ["HOME"] = tmp
os.environ["BRZ_EMAIL"] = "Tester <tester@example.com>"


def main():
    src_path = os.path.join(tmp, "src")
    os.mkdir(src_path)
    src_wt = ControlDir.create_standalone_workingtree(
        src_path, format=format_registry.make_controldir("bzr")
    )
    src_wt.commit("one", allow_pointless=True)
    master = src_wt.branch.controldir.sprout(os.path.join(tmp, "master")).open_branch()
    child = master.controldir.sprout(os.path.join(tmp, "child")).open_branch()
    child.bind(master)
    r2 = src_wt.commit("two", allow_pointless=True)  # new revision
    src_wt.branch.tags.set_tag("only-src", r2)  # and a tag
    # fail fast instead of waiting for the lock
    from breezy import lockdir

    lockdir._DEFAULT_TIMEOUT_SECONDS = 0

    child = Branch.open(os.path.join(tmp, "child"))
    problems = []
    try:
        result = child.pull(Branch.open(src_path))
    except errors.LockContention as e:
        problems.append(f"pull raised {e!r}")
    else:
        print("tag_updates  :", result.tag_updates)
        print("tag_conflicts:", result.tag_conflicts)
    master_after = Branch.open(os.path.join(tmp, "master")).tags.get_tag_dict()
    child_after = Branch.open(os.path.join(tmp, "child")).tags.get_tag_dict()
    print("master after :", master_after)
    print("child after  :", child_after)
    if child_after != {"only-src": r2}:
        problems.append(f"bound branch tags {child_after}, expected only-src={r2!r}")
    if master_after != {"only-src": r2}:
        problems.append(f"master tags {master_after}, expected only-src={r2!r}")
    return problems


try:
    problems = main()
finally:
    shutil.rmtree(tmp, ignore_errors=True)
sys.stdout.flush()
if problems:
    print("VIOLATION PRESENT")
    for p in problems:
        print(" -", p)
    sys.stdout.flush()
    os._exit(1)
print("OK (no violation)")
sys.stdout.flush()
os._exit(0)
