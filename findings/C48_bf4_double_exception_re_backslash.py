"""Baseline finding (unmodified code): a '!!RE:' line in an ignore file has
its backslashes rewritten to '/', so the double-exception regex no longer
matches; 'RE:' and '!RE:' lines are left intact.

ignores.parse_ignore_file() calls normalize_pattern() on the whole line;
normalize_pattern() recognises 'RE:' and '!RE:' but not '!!RE:', and so
treats '!!RE:...' as a glob and converts '\\' to '/'.
ExceptionGlobster(['!!RE:...']) used directly is fine (it strips '!!' first),
so the result depends on whether the pattern came through an ignore file.
"""

import os
import sys
from io import BytesIO

sys.path.insert(0, os.getcwd())

from breezy import ignores  # noqa: E402
from breezy.globbing import ExceptionGlobster  # noqa: E402

lines = ["*.log", "!*.log", r"!!RE:.*\d\.log"]
direct = ExceptionGlobster(lines)
parsed = ignores.parse_ignore_file(BytesIO("\n".join(lines).encode() + b"\n"))
via_file = ExceptionGlobster(parsed)

bad = []
for name in ["a1.log", "sub/b22.log", "plain.log"]:
    d, f = direct.match(name), via_file.match(name)
    print(f"{name!r}: direct={d!r} via ignore file={f!r}")
    if d != f:
        bad.append(name)
print("parsed patterns:", sorted(parsed))
if bad:
    print("VIOLATION: '!!RE:' pattern mangled by parse_ignore_file for", bad)
    sys.exit(1)
print("PASS")
