"""Baseline finding 3 (C06): a resumed pack is never forgotten by the
RepositoryPackCollection unless it is committed, which breaks later
suspend/resume/commit sequences on the same repository object.

_resume_pack() registers the ResumedPack with add_pack_to_memory() (self.packs,
self._packs_by_name and the aggregate indices).  _suspend_write_group() and
_abort_write_group() only remove the indices again; the entry in
_packs_by_name (and self.packs) stays.  Pack names are the md5 of the content,
so they are stable.  Consequences on the unmodified tree:

 (a) suspend -> resume -> suspend -> resume through the same object fails with
     AssertionError("pack ... already in _packs_by_name") and leaves a dangling
     _new_pack (the object is not in a write group, but start_write_group() now
     fails with "already has a writable index").
 (b) resume -> abort, then redoing the *same* insertion in a fresh write group
     and committing it fails with the same AssertionError from allocate() --
     after the new pack has already been moved into packs/ and entered into
     _names.

The property says that suspending and later resuming and committing produces the
same repository content as committing directly; here the commit is impossible.

exit 1 + message when the violation is present, exit 0 otherwise.
Run as:  cd <worktree> && /venv/bin/python bf3_resumed_pack_left_in_memory.py
"""

import os
import sys
import tempfile

sys.path.insert(0, os.getcwd())
os.environ["BRZ_HOME"] = tempfile.mkdtemp(prefix="c06-home-")

import breezy  # noqa: E402

breezy.initialize()
import breezy.bzr  # noqa: E402,F401
from breezy import controldir  # noqa: E402


def new_repo(prefix):
    d = tempfile.mkdtemp(prefix=prefix)
    controldir.format_registry.make_controldir("2a").initialize(d).create_repository()
    return controldir.ControlDir.open(d).open_repository()


def scenario_a(problems):
    repo = new_repo("c06-bf3a-")
    repo.lock_write()
    repo.start_write_group()
    repo.texts.add_lines((b"f", b"r1"), (), [b"one\n"])
    tokens = repo.suspend_write_group()
    repo.resume_write_group(tokens)
    tokens = repo.suspend_write_group()
    try:
        repo.resume_write_group(tokens)
    except AssertionError as e:
        problems.append("(a) second resume on the same object failed: %s" % e)
        try:
            repo.start_write_group()
        except AssertionError as e2:
            problems.append(
                "(a) ... and the object is stuck: start_write_group: %s"
                % str(e2)[:80]
            )
        return
    repo.commit_write_group()
    if sorted(repo.texts.keys()) != [(b"f", b"r1")]:
        problems.append("(a) wrong content %r" % sorted(repo.texts.keys()))
    repo.unlock()


def scenario_b(problems):
    repo = new_repo("c06-bf3b-")
    repo.lock_write()
    repo.start_write_group()
    repo.texts.add_lines((b"f", b"r1"), (), [b"one\n"])
    tokens = repo.suspend_write_group()
    repo.resume_write_group(tokens)
    repo.abort_write_group()
    if sorted(repo.texts.keys()):
        problems.append("(b) content visible after abort")
    # retry the very same insertion
    repo.start_write_group()
    repo.texts.add_lines((b"f", b"r1"), (), [b"one\n"])
    try:
        repo.commit_write_group()
    except AssertionError as e:
        problems.append("(b) committing the retried insertion failed: %s" % e)
        return
    if sorted(repo.texts.keys()) != [(b"f", b"r1")]:
        problems.append("(b) wrong content %r" % sorted(repo.texts.keys()))
    repo.unlock()


def main():
    problems = []
    scenario_a(problems)
    scenario_b(problems)
    if problems:
        print("VIOLATION (baseline):")
        for p in problems:
            print("  -", p)
        return 1
    print("no violation")
    return 0


if __name__ == "__main__":
    sys.exit(main())
