"""Baseline finding: GitWorkingTree lock attempts that fail while reading the
index leave the tree locked and the physical index.lock on disk.

GitWorkingTree._lock_write_tree() creates index.lock (GitFile), records
mode 'w' / count 1 and then calls self._read_index().  If reading the index
fails (here: a corrupt .git/index), lock_write() only undoes the *branch*
lock; the tree object stays write-locked (is_locked() True) and index.lock is
never removed, so every later lock_write() - from this or any other process -
fails with LockContention.  lock_read() has the mirror problem: mode 'r' /
count 1 are recorded before _read_index(), so a failed lock_read() leaves the
tree "read-locked" with no branch lock behind it, and the next lock_write()
is refused with ReadOnlyError.

Run: cd <worktree> && /venv/bin/python git_workingtree_failed_lock_leaks.py
exit 0 = property holds, exit 1 = violation present.
"""
import os
import sys
import tempfile

sys.path.insert(0, os.getcwd())
os.environ["BRZ_EMAIL"] = "Tester <t@example.com>"
os.environ["BRZ_HOME"] = tempfile.mkdtemp(prefix="c28-home-")

import breezy
import breezy.bzr  # noqa: F401
import breezy.git  # noqa: F401
from breezy.controldir import ControlDir, format_registry
from breezy.workingtree import WorkingTree

breezy.initialize()
problems = []


def fresh():
    d = tempfile.mkdtemp(prefix="c28-gitwt-")
    tree = ControlDir.create_standalone_workingtree(
        d, format=format_registry.make_controldir("git"))
    with open(os.path.join(d, "a"), "w") as f:
        f.write("a\n")
    tree.add(["a"])
    tree.commit("one")
    index = os.path.join(d, ".git", "index")
    good = open(index, "rb").read()
    with open(index, "wb") as f:
        f.write(b"this is not a git index")
    return d, index, good


# --- write lock -----------------------------------------------------------
d, index, good = fresh()
tree = WorkingTree.open(d)
try:
    tree.lock_write()
except Exception as e:
    failed = type(e).__name__
else:
    failed = None
    tree.unlock()
if failed is None:
    print("could not provoke the failure; inconclusive")
    sys.exit(2)
if tree.is_locked():
    problems.append(
        f"lock_write() raised {failed} but the tree is left locked "
        f"(mode={tree._lock_mode!r}, count={tree._lock_count})")
if tree.branch.is_locked():
    problems.append("lock_write() raised but the branch is left locked")
if os.path.exists(index + ".lock"):
    problems.append("lock_write() raised but index.lock is still on disk")
    # repair the index: the repository is healthy again, but stays unusable
    with open(index, "wb") as f:
        f.write(good)
    try:
        t2 = WorkingTree.open(d)
        t2.lock_write()
    except Exception as e:
        problems.append(
            f"after repairing the index a fresh tree object cannot lock_write: "
            f"{type(e).__name__}")
    else:
        t2.unlock()

# --- read lock ------------------------------------------------------------
d, index, good = fresh()
tree = WorkingTree.open(d)
try:
    tree.lock_read()
except Exception as e:
    failed = type(e).__name__
    if tree.is_locked():
        problems.append(
            f"lock_read() raised {failed} but the tree is left locked "
            f"(mode={tree._lock_mode!r}, count={tree._lock_count}, "
            f"branch locked={tree.branch.is_locked()})")
        with open(index, "wb") as f:
            f.write(good)
        try:
            tree.lock_write()
        except Exception as e2:
            problems.append(
                f"same object, index repaired: lock_write refused with "
                f"{type(e2).__name__}")
        else:
            tree.unlock()
else:
    tree.unlock()

if problems:
    print("FAIL (violation present in unmodified code):")
    for p in problems:
        print("  -", p)
    sys.exit(1)
print("PASS")
