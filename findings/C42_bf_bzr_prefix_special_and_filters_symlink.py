"""Baseline findings (unmodified code), property C42.

(A) InventoryTree.is_special_path is `path.startswith(".bzr")`, so an export
    of a bzr revision tree silently drops every top-level entry whose name
    merely starts with ".bzr" (".bzrfoo", ".bzr-notes/..."), not only
    ".bzr"/".bzrignore"/".bzrrules"/".bzrtags".  (The git sibling,
    GitTree.is_special_path, matches whole first path components only.)
    No export option asked for these to be excluded.

(B) `brz export --filters` wraps the tree in ContentFilterTree, which does not
    forward get_symlink_target (nor is_special_path / get_file_mtime); every
    exporter then raises NotImplementedError as soon as the tree contains a
    symlink, so the export option makes exporting such a tree impossible.

Run: cd <worktree> && /venv/bin/python bzr_prefix_special_and_filters_symlink.py
Exits 1 when either violation is present.
"""

import io
import os
import shutil
import sys
import tarfile
import tempfile

sys.path.insert(0, os.getcwd())
tmp = tempfile.mkdtemp(prefix="c42-bf2-")
os.environ["HOME"] = tmp
os.environ["BRZ_HOME"] = tmp
os.environ["BRZ_EMAIL"] = "Tester <tester@example.com>"

import breezy

breezy.initialize()
import breezy.bzr  # noqa: E402,F401
from breezy import controldir, export  # noqa: E402
from breezy.filter_tree import ContentFilterTree  # noqa: E402

p = os.path.join(tmp, "t")
wt = controldir.ControlDir.create_standalone_workingtree(
    p, format=controldir.format_registry.make_controldir("2a")
)
with open(os.path.join(p, ".bzrfoo"), "wb") as f:
    f.write(b"user data\n")
os.mkdir(os.path.join(p, ".bzr-notes"))
with open(os.path.join(p, ".bzr-notes", "todo"), "wb") as f:
    f.write(b"user data\n")
with open(os.path.join(p, "plain"), "wb") as f:
    f.write(b"plain\n")
os.symlink("plain", os.path.join(p, "link"))
wt.add([".bzrfoo", ".bzr-notes", ".bzr-notes/todo", "plain", "link"])
wt.commit("one")
tree = wt.branch.basis_tree()

bad = False
buf = io.BytesIO()
export.export(tree, "x.tar", "tar", root="", fileobj=buf)
buf.seek(0)
with tarfile.open(fileobj=buf) as tf:
    names = sorted(m.name.rstrip("/") for m in tf)
with tree.lock_read():
    in_tree = sorted(pth for pth, _ in tree.iter_entries_by_dir() if pth)
print("tree paths:   ", in_tree)
print("tar members:  ", names)
missing = [n for n in in_tree if n not in names]
if missing:
    print("VIOLATION (A): versioned user files missing from export:", missing)
    bad = True

try:
    ftree = ContentFilterTree(tree, tree._content_filter_stack)
    buf = io.BytesIO()
    export.export(ftree, "x.tar", "tar", root="", fileobj=buf)
except NotImplementedError as e:
    print("VIOLATION (B): export with --filters of a tree with a symlink fails:", e)
    bad = True

shutil.rmtree(tmp, ignore_errors=True)
sys.exit(1 if bad else 0)
