"""BASELINE FINDING (C23): `update` cannot bring a checkout in step with a
master that has become empty.

BzrBranch.update() does self.pull(master, overwrite=True), which ends in
GenericInterBranch._update_revisions():

    if stop_revision is None:
        stop_revision = other_last_revision
        if _mod_revision.is_null(stop_revision):
            # if there are no commits, we're done.
            return

i.e. with an empty source nothing is done even when overwrite=True.  After the
only revision of the master is uncommitted, `update` in the checkout is a no-op
(local stays at revno 1, master is at 0), and every later commit is refused
with BoundBranchOutOfDate whose advice is to run `update`.

Run:  cd <worktree> && /venv/bin/python update_to_empty_master_is_noop.py
Exit 1 when the violation is present.
"""

import sys, os
sys.path.insert(0, os.path.dirname(os.path.abspath(__file__)))
from C23__prelude import scratch, make_tree, commit_file
from breezy import errors, uncommit
from breezy.branch import Branch
from breezy.workingtree import WorkingTree

scratch("c23-empty-")
mt = make_tree("m")
commit_file(mt, "m", "a", "one")
mt.branch.create_checkout("co")
uncommit.uncommit(mt.branch, tree=mt)      # the master is empty again
co = WorkingTree.open("co")
co.update()
local = co.branch.last_revision_info()
master = Branch.open("m").last_revision_info()
print("after update: local %r master %r" % (local, master))
rc = 0
if local != master:
    print("VIOLATION: update in a checkout left local != master")
    rc = 1
    with open("co/b", "w") as f:
        f.write("b\n")
    co.add(["b"])
    try:
        co.commit("two")
    except errors.BoundBranchOutOfDate as e:
        print("and commit stays refused:", e)
print("FAIL" if rc else "PASS")
sys.exit(rc)
