"""Baseline finding (bzr trees): the conflict list stores paths, and renaming
the *directory* that contains a text-conflicted file (`brz mv dir newdir`) does
not update them.  conflicts() still says 'dir/g', so smart_add's
`conflicts_related` set holds dir/g.BASE|OTHER|THIS while the helper files now
live at newdir/g.BASE|OTHER|THIS - and a recursive add versions all three.
Git trees are not affected (conflicts live in the index entry that moves).
C11 clause: descendants that are conflict helper files are not versioned.
"""
import os
import sys

sys.path.insert(0, os.path.dirname(os.path.abspath(__file__)))
from _common import make_tree, versioned, write  # noqa: E402
from breezy.workingtree import WorkingTree  # noqa: E402

bad = False
for fmt in ("2a", "git"):
    p, a = make_tree(fmt, "this-" + fmt)
    write(p + "/dir/g", "base\n")
    a.smart_add([p])
    a.commit("base")
    q = os.path.join(os.path.dirname(p), "other-" + fmt)
    b = a.controldir.sprout(q).open_workingtree()
    write(q + "/dir/g", "other\n")
    b.commit("other")
    write(p + "/dir/g", "this\n")
    a.commit("this")
    a.merge_from_branch(b.branch)
    WorkingTree.open(p).rename_one("dir", "newdir")
    t = WorkingTree.open(p)
    print(f"[{fmt}] conflicts after mv: {[(c.typestring, c.path) for c in t.conflicts()]}")
    before = versioned(p)
    t.smart_add([p])
    newly = sorted(versioned(p) - before)
    print(f"[{fmt}] newly versioned by add: {newly}")
    if newly:
        print(f"[{fmt}] VIOLATION: conflict helper files were versioned")
        bad = True
sys.exit(1 if bad else 0)
