"""Baseline finding (unmodified code).

Pack names are the md5 of the pack content and NewPack.finish() writes the
index files straight to their final names in indices/ (open_write_stream
truncates, then writes), relying on the name not being live yet.  When two
writers insert the *same* content (two pulls of the same revisions into one
shared repository at the same time) the second writer's pack gets the name
of a pack that the first writer has already published in pack-names, and
finish() truncates and rewrites the LIVE index files in place.  If the
second writer stops at that point the repository lists a pack whose indices
are empty/truncated: reopening fails.

This script runs writer B's fetch with a snapshot of the repository taken
before and after every file-system operation B performs, and opens every
snapshot as a crashed-and-reopened repository.

Run:  cd <worktree> && /venv/bin/python identical_concurrent_fetch_rewrites_live_indices.py
Exit 1 + message when the violation is present.
"""

import os
import shutil
import sys
import tempfile

sys.path.insert(0, os.getcwd())
os.environ["BRZ_EMAIL"] = "Tester <t@example.com>"
os.environ["BRZ_HOME"] = tempfile.mkdtemp(prefix="c04-home-")
os.environ["HOME"] = os.environ["BRZ_HOME"]

import breezy
import breezy.bzr  # noqa: F401
from breezy import controldir, trace
from breezy.repository import Repository

breezy.initialize().__enter__()
trace.be_quiet(True)

MUTATORS = {
    "put_file", "put_bytes", "move", "rename", "delete", "mkdir",
    "append_bytes", "append_file", "open_write_stream",
}


class Recorder:
    def __init__(self, repo_dir, snap_root):
        self.repo_dir = repo_dir
        self.snap_root = snap_root
        self.snaps = []

    def snap(self, label):
        dest = os.path.join(self.snap_root, "s%03d" % len(self.snaps))
        shutil.copytree(self.repo_dir, dest)
        self.snaps.append((label, dest))


class Proxy:
    def __init__(self, inner, rec, tag):
        self.__dict__.update(_inner=inner, _rec=rec, _tag=tag)

    def __getattr__(self, name):
        attr = getattr(self._inner, name)
        if name not in MUTATORS:
            return attr

        def wrapper(*args, **kwargs):
            desc = "%s.%s(%s)" % (self._tag, name, ", ".join(repr(a)[:50] for a in args[:2]))
            self._rec.snap("before " + desc)
            result = attr(*args, **kwargs)
            self._rec.snap("after " + desc)
            return result

        return wrapper


def instrument(repo, rec):
    coll = repo._pack_collection
    coll.transport = Proxy(coll.transport, rec, "repo")
    coll._index_transport._transport = Proxy(coll._index_transport._transport, rec, "indices")
    coll._upload_transport._transport = Proxy(coll._upload_transport._transport, rec, "upload")
    coll._pack_transport = Proxy(coll._pack_transport, rec, "packs")


def problem_with(path, allowed):
    try:
        repo = Repository.open(path)
        with repo.lock_read():
            revs = frozenset(repo.all_revision_ids())
            if revs not in allowed:
                return "revision set %r" % (sorted(revs),)
            for r in revs:
                repo.get_revision(r)
                t = repo.revision_tree(r)
                for p, ie in t.iter_entries_by_dir():
                    if ie.kind == "file":
                        t.get_file_text(p)
            repo.check(list(revs))
    except Exception as e:
        return "%s: %s" % (type(e).__name__, str(e)[:200])
    return None


def run(fmt):
    root = tempfile.mkdtemp(prefix="c04-base3-")
    make = controldir.format_registry.make_controldir
    src_tree = controldir.ControlDir.create_standalone_workingtree(
        os.path.join(root, "src"), format=make(fmt)
    )
    with open(os.path.join(root, "src", "f"), "w") as f:
        f.write("hello\n")
    src_tree.add(["f"])
    src_tree.commit("one", rev_id=b"rev-1")
    with open(os.path.join(root, "src", "f"), "a") as f:
        f.write("more\n")
    tip = src_tree.commit("two", rev_id=b"rev-2")
    source = src_tree.branch.repository

    target_path = os.path.join(root, "target")
    os.mkdir(target_path)
    make(fmt).initialize(target_path).create_repository(shared=True)

    writer_a = Repository.open(target_path)
    writer_b = Repository.open(target_path)
    # B starts first (has read the - empty - pack list) ...
    writer_b.lock_write()
    # ... A pulls and publishes the revisions ...
    writer_a.fetch(source, revision_id=tip)
    # ... and B, with its stale view, pulls the very same revisions.
    rec = Recorder(target_path, os.path.join(root, "snaps"))
    os.mkdir(rec.snap_root)
    instrument(writer_b, rec)
    try:
        writer_b.fetch(source, revision_id=tip)
    finally:
        writer_b.unlock()
    allowed = {frozenset([b"rev-1", b"rev-2"])}
    bad = []
    for label, path in rec.snaps:
        problem = problem_with(path, allowed)
        if problem:
            bad.append((label, problem))
    if bad:
        print("%s: VIOLATION: stopping writer B at %d of %d points leaves an "
              "unusable repository, e.g." % (fmt, len(bad), len(rec.snaps)))
        for label, problem in bad[:3]:
            print("   crash %s -> %s" % (label, problem))
        return False
    print("%s: ok (%d crash points)" % (fmt, len(rec.snaps)))
    return True


ok = True
for fmt in ("2a", "pack-0.92"):
    ok = run(fmt) and ok
if not ok:
    print("FAIL")
    sys.exit(1)
print("PASS")
