"""Baseline finding 1 (C06): abort after a partially failed commit leaves the
new pack visible and gets it published by the NEXT write group.

RepositoryPackCollection._commit_write_group() finishes and allocate()s the
packs of the write group one after the other (first the new pack, then each
resumed pack).  If a later step fails (here: ResumedPack.finish() raises an
injected IOError, think "disk full"/rename failure while moving the resumed pack
out of upload/), the packs that were already allocated stay in self._names and
in the aggregate indices.  The except-clause that forgets the allocated packs
only covers a failure of autopack()/_save_pack_names(), not a failure inside the
loop.  abort_write_group() then only deals with _new_pack (already None) and
_resumed_packs.

Observable result on the unmodified tree:
  * after abort, texts.keys() through the same object still contains the text
    that was added in the aborted write group, and names() lists its pack;
  * the next (unrelated) write group committed through the same object writes
    that pack into pack-names, so every other process sees the "aborted" text.

exit 1 + message when the violation is present, exit 0 otherwise.
Run as:  cd <worktree> && /venv/bin/python bf1_partial_commit_then_abort.py
"""

import os
import sys
import tempfile

sys.path.insert(0, os.getcwd())
os.environ["BRZ_HOME"] = tempfile.mkdtemp(prefix="c06-home-")

import breezy  # noqa: E402

breezy.initialize()
import breezy.bzr  # noqa: E402,F401
from breezy import controldir  # noqa: E402


def disk_state(path):
    r = controldir.ControlDir.open(path).open_repository()
    with r.lock_read():
        return sorted(r.texts.keys()), sorted(r._pack_collection.names())


def main():
    d = tempfile.mkdtemp(prefix="c06-bf1-")
    repo = controldir.format_registry.make_controldir("2a").initialize(d).create_repository()
    repo = controldir.ControlDir.open(d).open_repository()
    repo.lock_write()
    before = (sorted(repo.texts.keys()), sorted(repo._pack_collection.names()))

    repo.start_write_group()
    repo.texts.add_lines((b"f", b"r1"), (), [b"one\n"])
    tokens = repo.suspend_write_group()
    repo.resume_write_group(tokens)
    repo.texts.add_lines((b"f", b"r2"), (), [b"two\n"])

    # Fault: moving the resumed pack into place fails.  By then the new pack
    # (holding r2) has already been finished and allocated.
    resumed_cls = type(repo._pack_collection._resumed_packs[0])

    class Boom(IOError):
        pass

    def boom(self, *args, **kwargs):
        raise Boom("injected: disk full while finishing resumed pack")

    failed = []
    resumed_cls.finish = boom
    try:
        repo.commit_write_group()
    except Boom as e:
        failed.append(e)
        print("commit_write_group failed as injected:", e)
    finally:
        del resumed_cls.finish
    if not failed:
        print("fault was not hit; cannot evaluate")
        return 2
    repo.abort_write_group()
    after = (sorted(repo.texts.keys()), sorted(repo._pack_collection.names()))
    print("through the object, before:", before)
    print("through the object, after abort:", after)

    # an unrelated write group through the same object
    repo.start_write_group()
    repo.texts.add_lines((b"f", b"r3"), (), [b"three\n"])
    repo.commit_write_group()
    repo.unlock()
    disk = disk_state(d)
    print("on disk after an unrelated later commit:", disk)

    problems = []
    if after != before:
        problems.append("aborted content still visible through the object: %r" % (after,))
    if (b"f", b"r2") in disk[0]:
        problems.append("aborted text (f, r2) was published on disk by the next write group")
    if problems:
        print("VIOLATION (baseline):")
        for p in problems:
            print("  -", p)
        return 1
    print("no violation")
    return 0


if __name__ == "__main__":
    sys.exit(main())
