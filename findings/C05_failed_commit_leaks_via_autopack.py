"""Baseline finding (unmodified code; related to fix 4c96017 "a commit that
fails while publishing its pack no longer leaks the pack into the next
commit"): the fix forgets only the pack allocated for the commit.  When the
commit triggered an AUTOPACK and it is the autopack's final
_save_pack_names() that fails (here: LockContention on the pack-names mutex),
the commit's pack has already been folded into the autopack's new pack, which
stays allocated in memory.  The next write group committed through the same
repository object lists that pack: the revision of the commit that RAISED
becomes visible after all, and the ten source packs are dropped from
pack-names without being moved to obsolete_packs/ (they stay in packs/ as
garbage).  No successfully committed revision is lost (so this is not a C05
violation by itself); it is the state that seeded change 1 "cleans up" in an
unsafe way.

Run from the worktree root: /venv/bin/python failed_commit_leaks_via_autopack.py
Exit 1 + message when the leak is present, exit 0 otherwise.
"""

import os
import shutil
import sys
import tempfile

sys.path.insert(0, os.getcwd())
os.environ["BRZ_EMAIL"] = "Tester <tester@example.com>"
os.environ["BRZ_HOME"] = tempfile.mkdtemp(prefix="c05-home-")

import breezy  # noqa: E402

breezy.initialize()

import breezy.bzr  # noqa: E402,F401
from breezy import controldir, errors, lockdir, repository, trace  # noqa: E402

trace.be_quiet(True)


def fmt():
    return controldir.format_registry.make_controldir("2a")


def main():
    base = tempfile.mkdtemp(prefix="c05-demo1-")
    try:
        # A shared repository with one working branch, and an unrelated branch
        # somewhere else that we will fetch from later.
        cd = controldir.ControlDir.create(base + "/shared", format=fmt())
        cd.create_repository(shared=True)
        tree = controldir.ControlDir.create_branch_convenience(
            base + "/shared/work", force_new_tree=True, format=fmt()
        ).controldir.open_workingtree()
        other = controldir.ControlDir.create_standalone_workingtree(
            base + "/other", format=fmt()
        )
        with open(base + "/other/o", "w") as f:
            f.write("other\n")
        other.add(["o"])
        other_rev = other.commit("unrelated revision")

        # Nine successful commits -> nine packs.
        committed = []
        for i in range(9):
            with open(base + "/shared/work/f", "a") as f:
                f.write("line %d\n" % i)
            if i == 0:
                tree.add(["f"])
            committed.append(tree.commit("rev %d" % i))

        # The long-lived repository object of "process A".
        repo_a = tree.branch.repository

        # "Process B" grabs the pack-names mutex and keeps it for a long time
        # (think: a thorough reconcile, or a process that hangs).
        repo_b = repository.Repository.open(base + "/shared")
        repo_b.lock_write()
        repo_b._pack_collection.lock_names()

        # Process A makes its tenth commit.  That triggers an autopack, whose
        # final _save_pack_names() cannot get the mutex -> LockContention.
        saved_timeout = lockdir._DEFAULT_TIMEOUT_SECONDS
        lockdir._DEFAULT_TIMEOUT_SECONDS = 0
        with open(base + "/shared/work/f", "a") as f:
            f.write("tenth\n")
        try:
            tree.commit("rev 9 - the commit that cannot be published")
        except errors.LockContention:
            pass
        else:
            print("SETUP PROBLEM: the tenth commit was expected to fail")
            return 2
        finally:
            lockdir._DEFAULT_TIMEOUT_SECONDS = saved_timeout

        # Process B finishes and releases the mutex.
        repo_b._pack_collection._unlock_names()
        repo_b.unlock()

        # Process A carries on with the same repository object and performs a
        # completely unrelated, successful, write group: it fetches a revision
        # from somewhere else into the shared repository.
        repo_a.fetch(other.branch.repository, revision_id=other_rev)

        # A fresh process now looks at the repository.
        check = repository.Repository.open(base + "/shared")
        with check.lock_read():
            present = set(check.all_revision_ids())
            names = check._pack_collection.names()
            missing = [r for r in committed if r not in present]
            unreadable = []
            for r in committed:
                if r in missing:
                    continue
                try:
                    t = check.revision_tree(r)
                    t.get_file_text("f")
                except Exception as e:  # noqa: BLE001
                    unreadable.append((r, repr(e)))
        extra = present - set(committed) - {other_rev}
        pack_files = [
            f
            for f in os.listdir(base + "/shared/.bzr/repository/packs")
            if f.endswith(".pack")
        ]
        print("packs listed in pack-names: %d" % len(names))
        print("pack files in packs/      : %d" % len(pack_files))
        print("revisions of the commit that raised, now visible: %r" % sorted(extra))
        if missing:
            print("VIOLATION PRESENT: committed revisions lost")
            return 1
        if extra:
            print(
                "LEAK PRESENT: the revision of the failed commit is listed, and "
                "%d unlisted pack files were left in packs/"
                % (len(pack_files) - len(names))
            )
            return 1
        print("no leak")
        return 0
    finally:
        shutil.rmtree(base, ignore_errors=True)
        shutil.rmtree(os.environ["BRZ_HOME"], ignore_errors=True)


if __name__ == "__main__":
    sys.exit(main())
