"""BASELINE FINDING 4 (unmodified code): GitTreeTransform.apply() leaves a
partially applied tree when the index update fails -- reachable with plain
input, no fault injection.

find_raw_conflicts() accepts a new versioned file whose name is not
NFC-normalised.  apply() first moves all files into the tree and only then
calls ``self._tree._apply_index_changes(...)`` *outside* the try/rollback
block; ``_index_add_entry`` -> ``ensure_normalized_path`` raises
InvalidNormalization.  Result: the new files are in the working tree, the
deletions were not carried out (content parked in .git/pending-deletion),
the index was not updated and apply() reports an error.

Property C14: "... applies cleanly or a reported malformed-transform error,
never a partially applied tree".

Run: cd <worktree> && /venv/bin/python bf4_git_apply_not_atomic_when_index_update_fails.py
"""

import os
import sys

sys.path.insert(0, os.path.dirname(os.path.abspath(__file__)))
from C14__common import make_tree, reopen  # noqa: E402

from breezy.transform import MalformedTransform  # noqa: E402

wt, base = make_tree("git", {"keep": b"keep\n", "victim": b"precious\n"})
before = sorted(n for n in os.listdir(base) if n != ".git")
tt = wt.transform()
raised = None
try:
    tt.new_file("ok-file", tt.root, [b"fine\n"], b"ok-id")
    tt.new_file("é", tt.root, [b"decomposed name\n"], b"nfd-id")  # NFD
    tt.delete_versioned(tt.trans_id_tree_path("victim"))
    print("raw conflicts:", tt.find_raw_conflicts())
    try:
        tt.apply()
    except MalformedTransform as e:
        raised = e
        print("MalformedTransform reported (fine):", e)
    except Exception as e:  # noqa: BLE001
        raised = e
        print(f"apply() raised {type(e).__name__}: {e}")
finally:
    try:
        tt.finalize()
    except Exception as e:  # noqa: BLE001
        print(f"finalize() raised {type(e).__name__}")
after = sorted(n for n in os.listdir(base) if n != ".git")
print("tree before:", before)
print("tree after :", after)
wt2 = reopen(wt)
with wt2.lock_read():
    idx = sorted(p for p, e in wt2.iter_entries_by_dir() if e.kind == "file")
print("index after:", idx)
if raised is not None and not isinstance(raised, MalformedTransform) and after != before:
    print(
        "VIOLATION (C14): apply() failed but the working tree was modified "
        "(partially applied transform, no rollback)"
    )
    sys.exit(1)
if raised is None and set(after) != set(idx):
    print("VIOLATION (C14): apply() succeeded but tree and index disagree")
    sys.exit(1)
print("no violation observed")
