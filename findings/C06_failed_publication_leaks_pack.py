"""A commit whose pack-names write fails and which is then aborted: its revision becomes visible with the next commit made
through the same repository object."""
import os, tempfile
import breezy.bzr, breezy
from breezy import controldir, errors, tests
breezy.initialize()
os.chdir(tempfile.mkdtemp())
wt = controldir.ControlDir.create_standalone_workingtree("t", format=controldir.format_registry.make_controldir("2a"))
wt.commit("one", rev_id=b"r1")
repo = wt.branch.repository
coll = repo._pack_collection
orig = coll._save_pack_names
def failing(*a, **k):
    coll._save_pack_names = orig
    raise OSError(28, "No space left on device")
coll._save_pack_names = failing
open("t/f", "w").write("x\n"); wt.add(["f"])
try:
    wt.commit("two", rev_id=b"r2")
    print("commit two succeeded?!")
except OSError as e:
    print("commit two raised:", e)
fresh = wt.branch.repository.controldir.open_repository()
print("after the failed commit, a fresh repository object sees:", sorted(fresh.all_revision_ids()))
wt2 = wt.controldir.open_workingtree()   # same process, new objects: fine; the defect needs the SAME repository object
# next, unrelated commit through the same repository object
repo.lock_write()
try:
    repo.start_write_group()
    try:
        from breezy.revision import Revision
        inv = repo.get_inventory(b"r1") if hasattr(repo, "get_inventory") else None
        repo.texts.add_lines((b"other-file-id", b"r3"), (), [b"unrelated\n"])
        repo.commit_write_group()
    except BaseException:
        repo.abort_write_group(); raise
finally:
    repo.unlock()
fresh = wt.branch.repository.controldir.open_repository()
vis = sorted(fresh.all_revision_ids())
print("after an unrelated write group on the same object:", vis)
print("PASS" if b"r2" not in vis else "FAIL: the revision of the commit that raised (r2) is now visible")
