"""Demonstration for the two C41 known findings line-split-injective.

Run: BRZ_EMAIL="a <a@b>" BRZ_HOME=/tmp/h /venv/bin/python findings/C41_splitlines_collision.py
Prints the same testament sha1 for messages a\\nb, a\\x0cb and a\\u2028b (stored verbatim), another for a\\nc.
"""
import os, tempfile
import breezy.bzr, breezy
from breezy import controldir, tests
from breezy.bzr.testament import StrictTestament3
breezy.initialize()
out = {}
for name, msg in (("newline", "a\nb"), ("formfeed", "a\x0cb"), ("u2028", "a b"), ("different", "a\nc")):
    d = tempfile.mkdtemp(); os.chdir(d)
    wt = controldir.ControlDir.create_standalone_workingtree("t", format=controldir.format_registry.make_controldir("2a"))
    wt.set_root_id(b"root-id")
    wt.commit(msg, rev_id=b"rev-1", timestamp=1.0, timezone=0, committer="c <c@x>")
    rev = wt.branch.repository.get_revision(b"rev-1")
    assert rev.message == msg, (rev.message, msg)   # the stored message is the one given
    out[name] = StrictTestament3.from_revision(wt.branch.repository, b"rev-1").as_short_text()
    print(name, repr(rev.message), out[name].split(b"\n")[2])
print("newline == formfeed:", out["newline"] == out["formfeed"], " newline == u2028:", out["newline"] == out["u2028"], " newline == different:", out["newline"] == out["different"])
