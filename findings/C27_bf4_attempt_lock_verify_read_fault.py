"""Baseline finding (unmodified code), property C27.

LockDir._attempt_lock renames the pending directory to 'held' and then reads
held/info back ("we must check we really got the lock").  If that read-back
fails with a transport error (connection reset, permission problem, ...), the
exception propagates out of attempt_lock(): the acquisition FAILED from the
caller's point of view (is_held is False, unlock() raises LockNotHeld) but the
lock directory stays on disk, held by the failing process, until somebody
breaks it by hand.

Clause violated: "A failed acquisition never leaves the lock held by the
failing process."  (quantifier: transport error injected at one operation of
attempt_lock - the 4th: mkdir, put_bytes, rename, *get_bytes*).

Exit 1 + message when the violation is present, exit 0 otherwise.
Run: cd <worktree> && /venv/bin/python attempt_lock_verify_read_fault.py
"""

import os
import sys
import tempfile

sys.path.insert(0, os.getcwd())

import breezy  # noqa: E402
from breezy import errors, lockdir, ui  # noqa: E402
from breezy.transport import get_transport  # noqa: E402
from dromedary import errors as transport_errors  # noqa: E402


class FaultyTransport:
    """Forwarding wrapper that fails the Nth get_bytes of */held/info."""

    def __init__(self, real):
        self._real = real
        self.armed = True
        self.log = []

    def __getattr__(self, name):
        attr = getattr(self._real, name)
        if not callable(attr):
            return attr

        def wrapper(*args, **kwargs):
            self.log.append((name, args[:1]))
            if (
                name == "get_bytes"
                and self.armed
                and args
                and args[0].endswith("held/info")
            ):
                self.armed = False
                raise transport_errors.ConnectionError(
                    "injected fault reading %s" % args[0]
                )
            return attr(*args, **kwargs)

        return wrapper


def main():
    breezy.initialize()
    ui.ui_factory = ui.SilentUIFactory()
    tmp = tempfile.mkdtemp(prefix="c27-base-")
    os.environ["BRZ_HOME"] = tmp
    real = get_transport(tmp)
    t = FaultyTransport(real)
    ld = lockdir.LockDir(t, "lock")
    ld.create()
    try:
        ld.attempt_lock()
    except transport_errors.TransportError as e:
        print("attempt_lock failed: %s: %s" % (type(e).__name__, e))
    else:
        print("attempt_lock unexpectedly succeeded; fault was not injected")
        return 2
    print("operations:", [n for n, _ in t.log])
    print("failing LockDir.is_held =", ld.is_held)
    try:
        ld.unlock()
    except errors.LockNotHeld:
        print("failing LockDir.unlock() -> LockNotHeld (it cannot release it)")

    other = lockdir.LockDir(real, "lock")
    info = other.peek()
    if info is None:
        print("OK: lock is free after the failed acquisition")
        return 0
    print("VIOLATION: after a FAILED attempt_lock the lock is held on disk by")
    print("  the failing process: %s (nonce %r)" % (info, info.nonce))
    try:
        other.attempt_lock()
    except errors.LockContention:
        print("  another LockDir gets LockContention until somebody runs break-lock")
    else:
        other.unlock()
    return 1


if __name__ == "__main__":
    sys.exit(main())
