"""Baseline finding F6 (git working tree, filesystems without an executable
bit): snapshot_workingtree() computes the mode to use from the index
(`mode |= 0o111` / `mode &= ~0o111` when `not trust_executable`) but then
stores `cleanup_mode(live_entry.mode)` - the computed `mode` is never used.
On such a filesystem every executable file shows up as "executable bit
removed" and the next commit drops the bit.

The filesystem is simulated here by making the tree claim it cannot trust the
executable bit and by clearing the bit on disk (which is what FAT/NTFS mounts
present).
"""
import os

from _common import QUIET, finish, make_tree, pending, rev_state, write

problems = []
base, wt = make_tree("git")
write(base, "script.sh", b"#!/bin/sh\n", 0o755)
write(base, "other", b"other\n")
wt.add(["script.sh", "other"])
wt.commit("one", reporter=QUIET)

wt._supports_executable = lambda: False  # e.g. a checkout on a FAT volume
os.chmod(os.path.join(base, "script.sh"), 0o644)  # what such a volume shows
left = pending(wt)
if left:
    problems.append("tree on a no-exec filesystem reports changes although nothing was edited: %r" % left)
write(base, "other", b"other v2\n")
revid = wt.commit("two", reporter=QUIET)
state = rev_state(wt.branch.repository.revision_tree(revid))
if state["script.sh"][2] is not True:
    problems.append("the commit dropped the executable bit recorded in the index/basis")
finish(problems, "index executable bit honoured when the filesystem has none")
