import os, sys, tempfile
sys.path.insert(0, os.getcwd())
os.environ["BRZ_EMAIL"] = "T <t@example.com>"
os.environ["BRZ_HOME"] = tempfile.mkdtemp(prefix="c15home-")
import breezy
breezy.initialize()
import breezy.bzr  # noqa
from breezy import controldir, shelf, trace, workingtree  # noqa
from breezy.bzr import workingtree_4  # noqa
trace.be_quiet(True)


def make_tree(files, executable=()):
    d = tempfile.mkdtemp(prefix="c15-bf-")
    tree = controldir.ControlDir.create_standalone_workingtree(d)
    for name, content in files.items():
        with open(os.path.join(d, name), "wb") as f:
            f.write(content)
        if name in executable:
            os.chmod(os.path.join(d, name), 0o755)
    tree.add(sorted(files))
    tree.commit("base")
    return tree, d


def snapshot(tree):
    out = {}
    with tree.lock_read():
        for path, ie in tree.iter_entries_by_dir():
            abspath = tree.abspath(path)
            if not os.path.lexists(abspath):
                out[path] = (ie.file_id, "MISSING ON DISK")
                continue
            k = tree.kind(path)
            v = [ie.file_id, k]
            if k == "file":
                v += [tree.get_file_text(path), tree.is_executable(path)]
            elif k == "symlink":
                v += [tree.get_symlink_target(path)]
            out[path] = tuple(v)
    return out


def pending(tree):
    with tree.lock_read():
        return [
            (c.path, c.changed_content, c.versioned, c.kind, c.executable)
            for c in tree.iter_changes(tree.basis_tree())
        ]


def shelve_all(tree):
    with tree.lock_tree_write():
        creator = shelf.ShelfCreator(tree, tree.basis_tree())
        try:
            if not creator.shelve_all():
                return None
            return tree.get_shelf_manager().shelve_changes(creator)
        finally:
            creator.finalize()


def unshelve(tree, sid):
    with tree.lock_tree_write():
        m = tree.get_shelf_manager()
        u = m.get_unshelver(sid)
        try:
            u.make_merger().do_merge()
        finally:
            u.finalize()
        m.delete_shelf(sid)
