"""BASELINE FINDING 3 (unmodified code): resolve_conflicts() on a git tree dies
with a bare KeyError instead of resolving or reporting MalformedTransform.

A new directory with the same name as an existing tree directory gives a
("duplicate", ...) conflict.  For trees without versioned directories
resolve_duplicate (breezy/transform.py) merges the two directories through
``_reparent_transform_children(tt, existing_file, new_file)``, which indexes
``tt.by_parent()[existing_file]`` -- a KeyError when that directory has no
child registered in the transform (and ``tt.cancel_creation(existing_file)``
would raise KeyError next, because the existing directory has no new contents).

Property C14: "Automatic conflict resolution always terminates with either a
conflict-free transform that applies cleanly or a reported malformed-transform
error".

Run: cd <worktree> && /venv/bin/python bf3_git_resolve_duplicate_directory_keyerror.py
"""

import os
import sys

sys.path.insert(0, os.path.dirname(os.path.abspath(__file__)))
from C14__common import make_tree  # noqa: E402

from breezy.transform import MalformedTransform, resolve_conflicts  # noqa: E402

wt, base = make_tree("git", {"dir/x": b"hello\n"})
tt = wt.transform()
try:
    d = tt.new_directory("dir", tt.root, b"dir-id")
    tt.new_file("n", d, [b"n\n"], b"n-id")
    print("raw conflicts:", tt.find_raw_conflicts())
    try:
        resolve_conflicts(tt)
        left = tt.find_raw_conflicts()
        if left:
            print("VIOLATION: resolve_conflicts returned with conflicts left:", left)
            sys.exit(1)
        tt.apply()
        print("no violation observed (resolved and applied)")
    except MalformedTransform as e:
        print("no violation observed (MalformedTransform reported):", e)
    except Exception as e:  # noqa: BLE001
        print(
            "VIOLATION (C14): resolve_conflicts neither resolved nor reported "
            f"MalformedTransform, it raised {type(e).__name__}: {e!r}"
        )
        sys.exit(1)
finally:
    tt.finalize()
