"""Demonstration for the C16 defect repaired by /repo commit cb75bba.

Run: BRZ_EMAIL="a <a@b>" BRZ_HOME=/tmp/h /venv/bin/python findings/C16_uncommit_bound_tag.py
Before the fix uncommit() in the checkout raised (LockContention on the master, surfaced as a pyo3 PanicException) after
moving the tip; after it the tag is dropped in both branches and revno is 1.
"""
import os, sys, tempfile
import breezy.bzr, breezy
from breezy import controldir, tests
from breezy.uncommit import uncommit
breezy.initialize()
d = tempfile.mkdtemp()
os.chdir(d)
master = controldir.ControlDir.create_standalone_workingtree("master")
master.commit("one")
co = master.branch.create_checkout("co")
open("co/f","w").write("x"); co.add(["f"])
r2 = co.commit("two")
co.branch.tags.set_tag("t2", r2)
print("tags before: local", co.branch.tags.get_tag_dict(), "master", master.branch.tags.get_tag_dict())
try:
    uncommit(co.branch, tree=co)
    print("uncommit ok; tags after: local", co.branch.tags.get_tag_dict(), "master", master.branch.tags.get_tag_dict(), "revno", co.branch.revno())
except Exception as e:
    print("uncommit raised", type(e).__name__, str(e)[:100])
    print("state: revno", co.branch.revno(), "master revno", master.branch.revno())
