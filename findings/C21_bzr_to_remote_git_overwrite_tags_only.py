"""Baseline finding (unmodified code): ``brz push --overwrite-tags`` (i.e.
overwrite=["tags"], history NOT to be overwritten) from a bzr branch into a
REMOTE git branch replaces a diverged target tip.

InterToGitBranch.push hands the raw ``overwrite`` value (a list such as
["tags"]) to InterToRemoteGitRepository.fetch_refs, which tests
``if not overwrite:`` -- any non-empty list disables the divergence check.
(The other InterBranch implementations test ``"history" in overwrite``.)

Needs the ``git`` executable (same mechanism as
breezy/git/tests/test_remote.py PushToRemoteBase).

Run:  cd <worktree> && /venv/bin/python <this file>
exit 1 + message when the violation is present.
"""

import os
import sys
import unittest

sys.path.insert(0, os.getcwd())

from dulwich.repo import Repo as GitRepo  # noqa: E402

import breezy  # noqa: E402
import breezy.bzr  # noqa: E402, F401
import breezy.git  # noqa: E402, F401
from breezy import errors  # noqa: E402
from breezy.controldir import ControlDir  # noqa: E402
from breezy.tests import TestCaseWithTransport  # noqa: E402

VIOLATIONS = []


class Repro(TestCaseWithTransport):
    def setUp(self):
        super().setUp()
        self.remote_real = GitRepo.init("remote", mkdir=True)
        self.remote_url = f"git://{os.path.abspath(self.remote_real.path)}/"
        self.permit_url(self.remote_url)

    def _diverged(self):
        c1 = self.remote_real.get_worktree().commit(
            message=b"message",
            committer=b"committer <committer@example.com>",
            author=b"author <author@example.com>",
            ref=b"refs/heads/newbranch",
        )
        remote = ControlDir.open(self.remote_url)
        wt = self.make_branch_and_tree("local", format="2a")
        self.build_tree(["local/blah"])
        wt.add(["blah"])
        wt.commit("blah")
        return c1, wt, remote.open_branch("newbranch")

    def test_control_no_overwrite(self):
        c1, wt, newbranch = self._diverged()
        self.assertRaises(
            errors.DivergedBranches, wt.branch.push, newbranch, lossy=True
        )
        self.assertEqual({b"refs/heads/newbranch": c1}, self.remote_real.get_refs())

    def test_overwrite_tags_only(self):
        c1, wt, newbranch = self._diverged()
        raised = None
        try:
            wt.branch.push(newbranch, lossy=True, overwrite=["tags"])
        except errors.DivergedBranches as e:
            raised = e
        after = self.remote_real.get_refs().get(b"refs/heads/newbranch")
        if raised is None or after != c1:
            VIOLATIONS.append(
                "push bzr -> remote git with overwrite=['tags'] (history not "
                f"to be overwritten): diverged tip {c1!r} replaced by {after!r} "
                f"(raised={raised!r})"
            )


if __name__ == "__main__":
    breezy.initialize()
    suite = unittest.defaultTestLoader.loadTestsFromTestCase(Repro)
    res = unittest.TextTestRunner(verbosity=1).run(suite)
    if VIOLATIONS:
        for v in VIOLATIONS:
            print("VIOLATION:", v)
        sys.exit(1)
    if not res.wasSuccessful():
        print("script error (not a finding)")
        sys.exit(2)
    print("PASS: no violation")
