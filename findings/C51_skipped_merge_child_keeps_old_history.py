"""Baseline finding (UNMODIFIED code) for property C51.

Run as:  cd <worktree> && /venv/bin/python skipped_merge_child_keeps_old_history.py

Scenario (the ordinary "feature branch merged trunk half way"):

    trunk  : base -- U -- V
    feature: base -- X -- M(X, U) -- Y

`brz rebase ../trunk` in feature with default options (skip_full_merged=True).

1. Plan level.  generate_simple_plan drops M from the plan (everything it
   merged is already in the new base) but then plans its child Y as

       Y -> (Y', (V, M))

   The new parents of the rewritten revision Y' are the new base *and the old,
   un-rewritten merge M*: M is neither the new base nor a revision rewritten
   earlier ("every rewritten revision's new parents are the new base or
   revisions rewritten earlier" is violated).  Y' is also not stacked on X'.

2. Execution level.  rebase() orders the work with
   graph.iter_topo_order(replace_map.keys()); with M missing from the keys, X
   and Y are unrelated in that restricted graph, so their relative order is
   arbitrary.  When Y is replayed first and X last, the branch ends at X'
   (V -- X') and the replayed Y' is left dangling outside the branch: the
   change made by Y (y.txt) silently disappears from the rebased branch.
   When the order happens to be X, Y the branch ends at Y' = merge(V, M) and
   still carries the complete old history X, M, with X' dangling.

Exits 0 (prints PASS) if the property holds, 1 (prints FAIL + details)
otherwise.  On the unmodified tree this prints FAIL.
"""

import os
import shutil
import sys
import tempfile

sys.path.insert(0, os.getcwd())
_home = tempfile.mkdtemp(prefix="c51-home-")
os.environ["HOME"] = _home
os.environ["BRZ_HOME"] = _home
os.environ["BRZ_EMAIL"] = "Tester <tester@example.com>"

import breezy
import breezy.bzr  # noqa: F401
from breezy import trace, ui
from breezy.controldir import ControlDir
from breezy.plugin import load_plugins

breezy.initialize()
load_plugins()
ui.ui_factory = ui.SilentUIFactory()
trace.be_quiet(True)

from vcsgraph.graph import DictParentsProvider, Graph

from breezy.plugins.rewrite.commands import cmd_rebase
from breezy.plugins.rewrite.rebase import generate_simple_plan

problems = []

# 1. pure plan level ---------------------------------------------------------
pm = {
    b"base": (),
    b"U": (b"base",),
    b"V": (b"U",),
    b"X": (b"base",),
    b"M": (b"X", b"U"),
    b"Y": (b"M",),
}
graph = Graph(DictParentsProvider(pm))
our_new, _ = graph.find_difference(b"Y", b"V")
plan = generate_simple_plan(
    our_new, None, b"Y", b"V", graph, lambda r, ps: r + b"'", skip_full_merged=True
)
print("plan:", plan)
allowed = {b"V"}
for old, (new, parents) in plan.items():
    for p in parents:
        if p not in allowed:
            problems.append(
                f"plan: {old!r} -> {new!r} has new parent {p!r}, which is neither "
                "the new base nor a revision rewritten earlier"
            )
    allowed.add(new)

# 2. end to end through `brz rebase` ------------------------------------------
tmp = tempfile.mkdtemp(prefix="c51-baseline-")
cwd = os.getcwd()
try:
    os.chdir(tmp)
    trunk = ControlDir.create_standalone_workingtree("trunk")

    def commit(tree, name, revid):
        with open(os.path.join(tree.basedir, name), "w") as f:
            f.write(name + "\n")
        tree.add([name])
        tree.commit(revid.decode(), rev_id=revid)

    commit(trunk, "base.txt", b"base")
    feature = trunk.controldir.sprout("feature").open_workingtree()
    commit(trunk, "u.txt", b"U")
    commit(feature, "x.txt", b"X")
    feature.merge_from_branch(trunk.branch)
    feature.commit("M", rev_id=b"M")
    commit(feature, "y.txt", b"Y")
    commit(trunk, "v.txt", b"V")

    cmd = cmd_rebase()
    cmd.outf = open(os.devnull, "w")
    cmd.run(upstream_location="trunk", directory="feature")

    feature = feature.controldir.open_workingtree()
    repo = feature.branch.repository
    with repo.lock_read():
        g = repo.get_graph()
        tip = feature.branch.last_revision()
        tip_rev = repo.get_revision(tip)
        tip_parents = g.get_parent_map([tip])[tip]
        ancestry = {r for r, ps in g.iter_ancestry([tip])}
        print(
            "tip:", tip, "rebase-of:", tip_rev.properties.get("rebase-of"),
            "parents:", tip_parents,
        )
        old_in_history = sorted(ancestry & {b"X", b"M", b"Y"})
        if old_in_history:
            problems.append(
                "after the rebase the branch history still contains the old "
                f"revisions {old_in_history}"
            )
        rebased_of = {
            repo.get_revision(r).properties.get("rebase-of")
            for r in ancestry
            if r not in (b"null:",)
        }
        for old in ("X", "Y"):
            if old not in rebased_of:
                problems.append(
                    f"the rewritten copy of {old} is not part of the rebased branch "
                    f"(tip is the copy of {tip_rev.properties.get('rebase-of')})"
                )
        tree = repo.revision_tree(tip)
        for name in ("x.txt", "y.txt", "u.txt", "v.txt"):
            if not tree.is_versioned(name):
                problems.append(f"{name} is missing from the rebased branch tip")
finally:
    os.chdir(cwd)
    shutil.rmtree(tmp, ignore_errors=True)
    shutil.rmtree(_home, ignore_errors=True)

if problems:
    print("FAIL")
    for p in problems:
        print(" -", p)
    sys.exit(1)
print("PASS")
