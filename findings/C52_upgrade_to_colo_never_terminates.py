"""Baseline (liveness, not data loss): `brz upgrade --format=development-colo`
on a branch whose components are older than 2a never terminates.

BzrDirMetaFormat1Colo subclasses BzrDirMetaFormat1, so once branch-format has
been rewritten BzrDirMetaFormat1.get_converter() keeps returning
ConvertMetaToColo (which only rewrites branch-format) while
needs_format_conversion() stays True because repository/branch/tree were never
converted.  Convert.convert() loops forever.

Run: cd <worktree> && /venv/bin/python upgrade_to_colo_never_terminates.py
"""

import os
import subprocess
import sys
import tempfile

WT = os.getcwd()
env = dict(os.environ)
env["BRZ_EMAIL"] = "Tester <t@example.com>"
env["BRZ_HOME"] = tempfile.mkdtemp()
env["PYTHONPATH"] = WT

d = tempfile.mkdtemp()
os.chdir(d)
run = lambda *a, **kw: subprocess.run(  # noqa: E731
    [sys.executable, "-m", "breezy", *a], env=env, capture_output=True, text=True, **kw
)
run("init", "--format=pack-0.92", "b")
open("b/f", "w").write("x\n")
run("add", cwd="b")
run("commit", "-m", "one", cwd="b")
try:
    r = run("upgrade", "--format=development-colo", cwd="b", timeout=60)
except subprocess.TimeoutExpired:
    print("FAIL: upgrade --format=development-colo still running after 60s (infinite loop)")
    sys.exit(1)
print(r.stdout, r.stderr)
print("PASS" if r.returncode == 0 else "FAIL rc=%d" % r.returncode)
sys.exit(r.returncode)
