"""Baseline finding F2 (git): after a commit, a file that (re)occupies a path
vacated in the same working tree state is dropped from the index.

MutableGitIndexTree.update_basis_by_delta walks the delta and, for every item
with an old path, deletes index[old_path] - even when a different entry has
been added at that path.

 A. rename old -> new, add a NEW unrelated file 'old', commit only 'new':
    the pending, unselected add of 'old' is lost (file becomes unknown).
 B. 'x' was a symlink; `remove x`, create a regular file 'x', `add x`, commit
    everything: the revision is right but afterwards 'x' is unversioned and
    the tree reports it as removed.
"""
import os

from _common import QUIET, finish, make_tree, pending, write

problems = []

# A
base, wt = make_tree("git")
write(base, "old", b"tracked file, enough content to be detected as renamed\nl2\nl3\n")
wt.add(["old"])
wt.commit("one", reporter=QUIET)
wt.rename_one("old", "new")
write(base, "old", b"brand new unrelated file, not selected\n")
wt.add(["old"])
before = pending(wt)
wt.commit("two", specific_files=["new"], reporter=QUIET)
with wt.lock_read():
    if not wt.is_versioned("old"):
        problems.append(
            "A: the unselected, added file 'old' is no longer versioned after committing 'new' "
            "(pending before: %r, after: %r)" % (before, pending(wt))
        )

# B
base, wt = make_tree("git")
os.symlink("target", os.path.join(base, "x"))
wt.add(["x"])
wt.commit("one", reporter=QUIET)
wt.remove(["x"], keep_files=False, force=True)
write(base, "x", b"now a regular file\n")
wt.add(["x"])
wt.commit("two", reporter=QUIET)
left = pending(wt)
if left:
    problems.append("B: after a full commit the working tree still reports %r" % left)
with wt.lock_read():
    if not wt.is_versioned("x"):
        problems.append("B: 'x' is no longer versioned after the commit that added it")

finish(problems, "re-added paths stay versioned")
