"""C16 baseline finding 1.

`uncommit` back to the origin (brz uncommit -r 0, or uncommit(revno=1)) of a
history that contains a merge does not put the branch/tree at null: with no
left-hand parent left, uncommit builds parents = [] + pending merges, so the
first *merged* revision becomes the tree's left-most parent (its basis).

 * bzr (2a): branch tip is null: but tree.get_parent_ids() == [x1]: the merged
   revision is now the basis of the tree instead of a pending merge, and the
   tree is out of step with its branch.
 * git: set_parent_ids([x1]) moves the branch head too, so the branch ends up
   at x1 (revno 2) instead of at null - the tip is NOT moved to the requested
   left-hand ancestor.

Run: cd <worktree> && /venv/bin/python <this file>;  exit 1 = violation present.
"""

import os
import tempfile

from _common import finish, make_tree, write

from breezy.branch import Branch
from breezy.uncommit import uncommit
from breezy.workingtree import WorkingTree

problems = []
for fmt in ("2a", "git"):
    base = tempfile.mkdtemp(prefix="c16-f1-")
    a = os.path.join(base, "a")
    wt = make_tree(a, fmt)
    write(os.path.join(a, "f"), "1\n")
    wt.add(["f"])
    wt.commit("one")
    other = wt.controldir.sprout(os.path.join(base, "b")).open_workingtree()
    write(os.path.join(base, "b", "g"), "g\n")
    other.add(["g"])
    x1 = other.commit("x1")
    write(os.path.join(a, "f"), "2\n")
    wt.commit("two")
    wt.merge_from_branch(other.branch)
    wt.commit("merge x1")

    wt = WorkingTree.open(a)
    uncommit(wt.branch, tree=wt, revno=1)  # what `brz uncommit -r 0` does

    b = Branch.open(a)
    wt = WorkingTree.open(a)
    info = b.last_revision_info()
    parents = wt.get_parent_ids()
    if info != (0, b"null:"):
        problems.append(
            f"[{fmt}] branch tip after uncommit to the origin is {info!r}, "
            f"expected (0, b'null:') (x1={x1!r})"
        )
    if parents[:1] == [x1]:
        problems.append(
            f"[{fmt}] the merged revision x1 became the tree's LEFT-MOST parent "
            f"(basis) rather than a pending merge: parents={parents!r}, "
            f"branch tip={info!r}"
        )
finish(problems)
