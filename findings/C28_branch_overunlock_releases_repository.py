"""BzrBranch.unlock() on a branch that is not locked: refused, but the repository's independent lock is released."""
import os, tempfile
import breezy.bzr, breezy
from breezy import controldir, errors, tests
breezy.initialize()
os.chdir(tempfile.mkdtemp())
b = controldir.ControlDir.create_branch_convenience("b", format=controldir.format_registry.make_controldir("knit"))
repo = b.repository
repo.lock_write()          # somebody holds the repository (e.g. a fetch in progress on the shared object)
print("repository locked:", repo.is_locked(), "physical lock present:", repo.control_files._lock.peek() is not None)
try:
    b.unlock()             # unmatched unlock on the branch
    print("branch.unlock() did not raise")
except errors.LockNotHeld:
    print("branch.unlock() refused with LockNotHeld")
still = repo.is_locked()
print("repository still locked afterwards:", still, "physical lock present:", repo.control_files._lock.peek() is not None)
print("PASS" if still else "FAIL: an unmatched (refused) branch unlock released the repository's lock")
if still: repo.unlock()
