"""Baseline finding (unmodified code): text conflict on a file that the
filesystem-conflict pass renames to "<name>.moved".

THIS renames f -> h and edits it; OTHER edits f and adds a brand-new h.
The text merge of f(=h) conflicts, helper files are created next to the name
the file had at that moment (h.BASE / h.THIS / h.OTHER); afterwards the
"duplicate" resolution renames the conflicted file to h.moved.  The recorded
conflict is "Text conflict in h.moved" whose associated helper names are
h.moved.BASE/.THIS/.OTHER -- files that do not exist.  `resolve --take-this`
on that conflict therefore cannot work and the real helper files are never
cleaned up.

Run: cd <worktree> && /venv/bin/python duplicate_moved_helpers.py
Exit 1 when the violation is present.
"""
import os
import shutil
import sys
import tempfile

sys.path.insert(0, os.path.dirname(os.path.abspath(__file__)))
from _common import *  # noqa: E402,F403
from _common import _mod_conflicts  # noqa: E402


def main():
    tmp = tempfile.mkdtemp(prefix="c19-dup-")
    try:
        wt = make_tree(tmp + "/this")
        write(tmp + "/this/f", b"a\nb\nc\n")
        wt.add(["f"])
        wt.commit("base")
        other = wt.controldir.sprout(tmp + "/other").open_workingtree()
        wt.rename_one("f", "h")
        write(tmp + "/this/h", b"a\nB\nc\n")
        wt.commit("this: rename f->h, edit")
        write(tmp + "/other/f", b"a\nX\nc\n")
        write(tmp + "/other/h", b"new h\n")
        other.add(["h"])
        other.commit("other: edit f, add h")
        do_merge(wt, other)
        wt = wt.controldir.open_workingtree()
        files = listing(tmp + "/this")
        text_conflicts = [c for c in wt.conflicts() if c.typestring == "text conflict"]
        print("files:", sorted(files))
        print("conflicts:", [str(c) for c in wt.conflicts()])
        bad = []
        for c in text_conflicts:
            for name in c.associated_filenames():
                if name not in files:
                    bad.append(f"helper {name} of {c!r} does not exist")
        stray = [n for n in files if n.rsplit(".", 1)[-1] in ("BASE", "THIS", "OTHER")
                 and n.rsplit(".", 1)[0] not in [c.path for c in text_conflicts]]
        for n in stray:
            bad.append(f"helper file {n} belongs to no recorded text conflict")
        # try to resolve just the text conflict
        for c in text_conflicts:
            try:
                with wt.lock_tree_write():
                    c.do("take_this", wt)
                    c.cleanup(wt)
            except Exception as e:  # noqa: BLE001
                bad.append(f"take-this on {c!r} failed: {e.__class__.__name__}: {e}")
        for b in bad:
            print("VIOLATION:", b)
        print("FAIL" if bad else "PASS")
        return 1 if bad else 0
    finally:
        shutil.rmtree(tmp, ignore_errors=True)


if __name__ == "__main__":
    sys.exit(main())
