"""Demonstration for the C28 defect repaired by /repo commit 45d6aee (run with /venv/bin/python).
Before the fix: `b.is_locked() after the refusal: True  mode/count: w 1` and FAIL.
"""
import os, subprocess, tempfile
import breezy.bzr, breezy.git, breezy
from breezy import errors, tests
from breezy.workingtree import WorkingTree
breezy.initialize()
base = tempfile.mkdtemp(); os.chdir(base)
subprocess.check_call(["git", "-c", "init.defaultBranch=master", "init", "-q", "t"])
a, b = WorkingTree.open("t"), WorkingTree.open("t")
a.lock_tree_write()
try:
    try:
        b.lock_tree_write(); print("b acquired?!")
    except errors.LockContention:
        print("b refused (LockContention) as expected")
    print("b.is_locked() after the refusal:", b.is_locked(), " mode/count:", b._lock_mode, b._lock_count)
finally:
    a.unlock()
ok = not b.is_locked()
print("PASS" if ok else "FAIL: the refused tree object still thinks it holds a write lock")
