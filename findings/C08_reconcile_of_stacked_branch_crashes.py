"""Baseline finding (code shared with C08's repacking of stacked repositories;
an availability failure, the repository is left untouched).

`brz reconcile` in a stacked 2a branch crashes with a KeyError in
GCCHKReconcilePacker._copy_text_texts.  PackReconciler passes
repo.all_revision_ids() -- which includes the fallback's revisions -- so the
"ideal" text index knows text keys introduced by trunk revisions, while the
packer only has the stacked repository's own text index to look their parents
up in:

    source_parents = file_id_parent_map[key]   -> KeyError

(The same packer would also drop every parent inventory the stacked
repository keeps for revisions of its fallback, since it copies only the
inventories of self.revision_keys; the crash happens first.)

Run as:  cd <worktree> && /venv/bin/python reconcile_of_stacked_branch_crashes.py
Exit 1 when reconcile of the stacked branch fails.
"""

import os
import shutil
import sys
import tempfile

sys.path.insert(0, os.getcwd())
os.environ["BRZ_EMAIL"] = "Demo <demo@example.com>"
_home = tempfile.mkdtemp(prefix="c08-bf-home-")
os.environ["BRZ_HOME"] = _home
os.environ["HOME"] = _home

import breezy  # noqa: E402
import breezy.bzr  # noqa: E402, F401
from breezy import branch as _mod_branch  # noqa: E402
from breezy import controldir, trace, ui  # noqa: E402
from breezy.reconcile import reconcile  # noqa: E402

breezy.initialize()
ui.ui_factory = ui.SilentUIFactory()
trace.be_quiet(True)

FMT = controldir.format_registry.make_controldir("2a")


def main():
    tmp = tempfile.mkdtemp(prefix="c08-bf-")
    os.chdir(tmp)
    rc = 0
    try:
        trunk = controldir.ControlDir.create_standalone_workingtree("trunk", format=FMT)
        for n in ("a", "b", "c"):
            with open("trunk/" + n, "w") as f:
                f.write("content of %s\n" % n)
        trunk.add(["a", "b", "c"])
        trunk.commit("one")
        feature = trunk.branch.controldir.sprout(
            "feature", stacked=True
        ).open_workingtree()
        with open("feature/a", "w") as f:
            f.write("changed in feature\n")
        feature.commit("feature one")
        try:
            reconcile(_mod_branch.Branch.open("feature").controldir)
        except Exception as e:
            print("VIOLATION: reconcile of a stacked branch failed: %s: %s"
                  % (e.__class__.__name__, str(e)[:300]))
            rc = 1
        else:
            print("ok: reconcile completed")
    finally:
        os.chdir("/")
        shutil.rmtree(tmp, ignore_errors=True)
        shutil.rmtree(_home, ignore_errors=True)
    return rc


if __name__ == "__main__":
    sys.exit(main())
