"""Shared setup for the C16 baseline repro scripts (run from the worktree root)."""

import os
import sys
import tempfile

sys.path.insert(0, os.getcwd())
os.environ.setdefault("BRZ_EMAIL", "Demo <demo@example.com>")
_home = tempfile.mkdtemp(prefix="c16-home-")
os.environ["BRZ_HOME"] = _home
os.environ["HOME"] = _home

import breezy  # noqa: E402

breezy.initialize()
import breezy.bzr  # noqa: E402,F401
import breezy.git  # noqa: E402,F401
from breezy import controldir, trace, ui  # noqa: E402

ui.ui_factory = ui.SilentUIFactory()
trace.be_quiet(True)


def make_tree(path, fmt):
    return controldir.ControlDir.create_standalone_workingtree(
        path, format=controldir.format_registry.make_controldir(fmt)
    )


def write(path, text):
    with open(path, "w") as f:
        f.write(text)


def finish(problems):
    if problems:
        print("VIOLATION PRESENT")
        for p in problems:
            print("  -", p)
        sys.stdout.flush()
        os._exit(1)
    print("OK (violation not present)")
    sys.stdout.flush()
    os._exit(0)
