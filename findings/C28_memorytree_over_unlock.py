"""Baseline finding: MemoryTree.unlock() on an unlocked tree is not refused.

All three MemoryTree implementations (breezy/memorytree.py,
breezy/bzr/memorytree.py, breezy/git/memorytree.py) implement unlock() as

    if self._locks == 1: ...release...
    else: self._locks -= 1

so unlocking an unlocked tree silently drives the counter to -1 instead of
raising LockNotHeld.  The next lock_write() then bumps it to 0, does NOT take
the branch lock (the `_locks == 1` test fails) and still hands back a lock
result: the caller believes it holds a write lock while nothing is locked.

Run: cd <worktree> && /venv/bin/python memorytree_over_unlock.py
exit 0 = property holds, exit 1 = violation present.
"""
import os
import sys
import tempfile

sys.path.insert(0, os.getcwd())
os.environ["BRZ_EMAIL"] = "Tester <t@example.com>"
os.environ["BRZ_HOME"] = tempfile.mkdtemp(prefix="c28-home-")

import breezy
import breezy.bzr  # noqa: F401
import breezy.git  # noqa: F401
from breezy import errors
from breezy.controldir import ControlDir, format_registry

breezy.initialize()

problems = []
for fmt in ("2a", "git"):
    d = tempfile.mkdtemp(prefix=f"c28-mt-{fmt}-")
    branch = ControlDir.create_branch_convenience(
        d, format=format_registry.make_controldir(fmt))
    tree = branch.create_memorytree()
    name = f"{type(tree).__module__}.{type(tree).__name__}"
    # balanced use first
    tree.lock_write()
    tree.unlock()
    assert not branch.is_locked()
    # one unlock too many
    try:
        tree.unlock()
    except (errors.LockNotHeld, errors.LockError):
        continue
    problems.append(f"{name}: extra unlock() was not refused (_locks={tree._locks})")
    # consequence: the next "lock" takes nothing
    tree.lock_write()
    if not branch.is_locked():
        problems.append(
            f"{name}: lock_write() after the extra unlock returned normally "
            f"but the branch is not locked (_locks={tree._locks})")
    else:
        tree.unlock()

if problems:
    print("FAIL (violation present in unmodified code):")
    for p in problems:
        print("  -", p)
    sys.exit(1)
print("PASS")
