"""Shared setup for the baseline repro scripts (run from the worktree root)."""
import os, sys, tempfile
sys.path.insert(0, os.getcwd())
os.environ["BRZ_EMAIL"] = "Repro <repro@example.com>"
_home = tempfile.mkdtemp(prefix="c40-base-home-")
os.environ["BRZ_HOME"] = _home
os.environ["HOME"] = _home
import breezy
breezy.initialize()
import breezy.bzr  # noqa: F401
from io import BytesIO  # noqa: F401
from breezy import controldir, trace
from breezy.bzr.bundle.serializer import read_bundle, write_bundle  # noqa: F401
from breezy.bzr.testament import StrictTestament3
trace.be_quiet(True)
os.chdir(tempfile.mkdtemp(prefix="c40-base-"))


def mkfmt(name):
    return controldir.format_registry.make_controldir(name)


def mktree(path, fmt="2a"):
    return controldir.ControlDir.create_standalone_workingtree(path, format=mkfmt(fmt))


def mkrepo(path, fmt="2a"):
    os.mkdir(path)
    return mkfmt(fmt).initialize(path).create_repository()


def same_testament(r1, r2, revid):
    with r1.lock_read(), r2.lock_read():
        return (StrictTestament3.from_revision(r1, revid).as_text()
                == StrictTestament3.from_revision(r2, revid).as_text())


def roundtrip(tree, base, target, bundle_format, dst_fmt="2a", name="dst"):
    """Write base..target, install in a repo holding base, compare testaments."""
    src = tree.branch.repository
    repo = mkrepo(name, dst_fmt)
    if base != b"null:":
        repo.fetch(src, base)
    out = BytesIO()
    revs = write_bundle(src, target, base, out, format=bundle_format)
    out.seek(0)
    read_bundle(out).install_revisions(repo)
    return all(same_testament(src, repo, r) for r in revs)
