"""Baseline finding (C15): executable-bit changes are neither shelved nor preserved.

(a) A chmod-only change is not offered by iter_shelvable at all ("shelve --all"
    says there is nothing to shelve).
(b) content change + chmod +x: "shelve all" leaves the +x in the tree (fine, it
    was not offered), but unshelving onto the unchanged result DROPS the +x:
    the tree ends up with the new content and executable=False, which is
    neither the pre-shelve state nor anything the user asked for.
(c) same with chmod -x on a file that is executable in the basis: after the
    shelve/unshelve round trip the file is executable again.
(d) file(+x in basis) replaced by a symlink: after "shelve all" the file is
    back but without its executable bit, so the tree still differs from the
    basis although every offered change was shelved.
Run: cd <worktree> && /venv/bin/python exec_bit_not_roundtripped.py ; exits 1 when present.
"""
import os, sys
sys.path.insert(0, os.path.dirname(os.path.abspath(__file__)))
from _common import *

problems = []

tree, d = make_tree({"f": b"a\n"})
os.chmod(d + "/f", 0o755)
if shelve_all(tree) is None and pending(tree):
    problems.append("(a) chmod-only change is pending %r but nothing is shelvable" % (pending(tree),))

tree, d = make_tree({"f": b"a\n"})
os.chmod(d + "/f", 0o755)
open(d + "/f", "wb").write(b"a\nb\n")
before = snapshot(tree)
sid = shelve_all(tree)
unshelve(tree, sid)
if snapshot(tree) != before:
    problems.append("(b) +x and content: before %r, after shelve+unshelve %r" % (before, snapshot(tree)))

tree, d = make_tree({"f": b"a\n"}, executable=("f",))
os.chmod(d + "/f", 0o644)
open(d + "/f", "wb").write(b"zzz\n")
before = snapshot(tree)
sid = shelve_all(tree)
unshelve(tree, sid)
if snapshot(tree) != before:
    problems.append("(c) -x and content: before %r, after shelve+unshelve %r" % (before, snapshot(tree)))

tree, d = make_tree({"f": b"a\n"}, executable=("f",))
os.unlink(d + "/f")
os.symlink("target", d + "/f")
sid = shelve_all(tree)
if pending(tree):
    problems.append("(d) exec file -> symlink, all changes shelved, but tree still differs from basis: %r" % (pending(tree),))

if problems:
    print("VIOLATION PRESENT: executable bit handling in shelve/unshelve")
    for p in problems:
        print("  " + p)
    sys.exit(1)
print("ok: not reproduced")
