"""C17 clause 4 (disjoint files => union, no conflicts), git trees.

THIS adds file 'na', OTHER adds file 'nb' with the same content.  _entries3
asks find_previous_path(OTHER, THIS, 'nb'); git's rename detector (run on the
THIS->OTHER diff) pairs THIS's 'na' with OTHER's 'nb', so the merge treats
them as one renamed file: 'na' disappears (moved to 'nb') and a
"Text conflict in na" is reported.  Expected: both na and nb, no conflict.
"""
import sys, os
sys.path.insert(0, os.path.dirname(os.path.abspath(__file__)))
from C17__c17lib import make_tree, sprout, merge, versioned, write

bad = []
for fmt in ("bzr", "git"):
    tmp, base = make_tree(fmt, {"a": b"a\n"})
    this = sprout(base, tmp, "this"); other = sprout(base, tmp, "other")
    body = b"same new content\nline two\nline three\n"
    write(this, "na", body); this.add(["na"]); this.commit("add na")
    write(other, "nb", body); other.add(["nb"]); other.commit("add nb")
    conflicts = merge(this, other)
    got, extras = versioned(this)
    print(fmt, "conflicts:", conflicts, "tree:", got, "extras:", extras)
    if conflicts or got != {"a": "file", "na": "file", "nb": "file"}:
        bad.append(fmt)
if bad:
    print("VIOLATION: union of two disjoint additions not produced for:", bad)
    sys.exit(1)
print("ok")
