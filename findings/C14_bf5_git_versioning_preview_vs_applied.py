"""BASELINE FINDING 5 (unmodified code): versioning shown by the git preview
tree disagrees with the index after apply() in three situations.

 (a) version_file() on an existing *unversioned* file, nothing else changed:
     GitPreviewTree.is_versioned() -> True, but _generate_index_changes only
     walks _new_name/_new_parent/_new_executability/_new_contents, so the file
     is never added to the index.
 (b) unversion_file() followed by version_file() on the same trans_id:
     preview -> versioned (``_versioned`` wins), apply -> removed from the
     index (``removed_id`` is emitted, no re-add).
 (c) a new versioned file whose name contains "\n": preview -> versioned,
     _index_add_entry silently ignores it.

Property C14: "the preview tree shows exactly the ... versioning that the
working tree has after the transform is applied".

Run: cd <worktree> && /venv/bin/python bf5_git_versioning_preview_vs_applied.py
"""

import os
import sys

sys.path.insert(0, os.path.dirname(os.path.abspath(__file__)))
from C14__common import make_tree, reopen  # noqa: E402

problems = []


def check(label, prepare, ops, path):
    wt, base = make_tree("git", {"tracked": b"t\n"})
    prepare(base)
    tt = wt.transform()
    try:
        ops(tt)
        assert tt.find_raw_conflicts() == [], tt.find_raw_conflicts()
        pv = tt.get_preview_tree().is_versioned(path)
        tt.apply()
    finally:
        tt.finalize()
    wt2 = reopen(wt)
    with wt2.lock_read():
        ap = wt2.is_versioned(path)
    exists = os.path.lexists(os.path.join(base, path))
    print(f"{label}: preview.is_versioned={pv} applied.is_versioned={ap} on_disk={exists}")
    if pv != ap:
        problems.append(label)


def prep_unversioned(base):
    with open(os.path.join(base, "loose"), "wb") as f:
        f.write(b"loose\n")


check(
    "(a) version existing unversioned file",
    prep_unversioned,
    lambda tt: tt.version_file(tt.trans_id_tree_path("loose"), file_id=b"loose-id"),
    "loose",
)


def unversion_then_version(tt):
    t = tt.trans_id_tree_path("tracked")
    tt.unversion_file(t)
    tt.version_file(t, file_id=b"tracked-again")


check("(b) unversion + version same entry", lambda base: None, unversion_then_version, "tracked")
check(
    "(c) new versioned file with newline in name",
    lambda base: None,
    lambda tt: tt.new_file("a\nb", tt.root, [b"x\n"], b"nl-id"),
    "a\nb",
)

if problems:
    print("VIOLATION (C14): preview/applied versioning differs for:", problems)
    sys.exit(1)
print("no violation observed")
