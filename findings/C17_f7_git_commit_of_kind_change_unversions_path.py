"""Side finding hit while building C17 triples (commit, not merge).

In a git working tree replace a versioned symlink by a regular file (or the
reverse) and commit.  The committed tree contains the new entry, but the
working tree's index no longer lists the path: it shows up as unversioned
right after the commit (iter_changes reports the kind change as add+delete
of the same path and the delete is applied to the index last).
"""
import sys, os
sys.path.insert(0, os.path.dirname(os.path.abspath(__file__)))
from C17__c17lib import make_tree, write

tmp, wt = make_tree("git", {"a": b"a\n"})
os.symlink("a", os.path.join(wt.basedir, "l")); wt.add(["l"]); wt.commit("add link")
os.unlink(os.path.join(wt.basedir, "l")); write(wt, "l", b"now a file\n")
wt.commit("kind change")
with wt.lock_read():
    in_wt = wt.is_versioned("l")
    bt = wt.basis_tree()
    with bt.lock_read():
        in_basis = bt.is_versioned("l")
print("versioned in working tree:", in_wt, "in committed tree:", in_basis)
if in_basis and not in_wt:
    print("VIOLATION: path dropped from the index by committing its kind change")
    sys.exit(1)
print("ok")
