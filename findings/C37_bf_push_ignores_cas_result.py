"""Baseline finding for C37 on UNMODIFIED code.

InterToLocalGitRepository.fetch_refs() calls set_if_equals()/add_if_new() but
throws their return value away.  When the conditional update is refused
(somebody moved the ref after the push took its snapshot) the ref is rightly
left alone, but the failure is not reported: fetch_refs() lists the ref in its
result with the value it *wanted* to store, and `brz push` / `dpush` finishes
normally and reports new_revid as pushed.

Exit 1 when the violation is present.
"""
import os
import sys
import tempfile

os.environ["BRZ_EMAIL"] = "Demo <demo@example.com>"
os.environ["BRZ_HOME"] = tempfile.mkdtemp(prefix="c37-home-")
sys.path.insert(0, os.getcwd())
import breezy  # noqa: E402
import breezy.bzr  # noqa: E402,F401
import breezy.git  # noqa: E402,F401
from breezy.controldir import ControlDir, format_registry  # noqa: E402
from breezy.git.interrepo import InterToLocalGitRepository  # noqa: E402
from breezy.git.transportgit import TransportRefsContainer  # noqa: E402

MASTER = b"refs/heads/master"
OTHER = b"d" * 40  # value stored by the racing updater

with breezy.initialize():
    d = tempfile.mkdtemp(prefix="c37-base-")
    wt = ControlDir.create_standalone_workingtree(
        os.path.join(d, "src"), format=format_registry.make_controldir("2a"))
    wt.commit("one")
    tgt = ControlDir.create_branch_convenience(
        os.path.join(d, "tgt"), format=format_registry.make_controldir("git-bare"))
    wt.branch.push(tgt, lossy=True)
    commontransport = tgt.repository._git._commontransport
    sha1 = TransportRefsContainer(commontransport)[MASTER]
    wt.commit("two")

    orig = InterToLocalGitRepository.fetch_revs
    raced = []

    def fetch_revs_then_race(self, *a, **kw):
        ret = orig(self, *a, **kw)
        if not raced:
            raced.append(TransportRefsContainer(commontransport).set_if_equals(MASTER, sha1, OTHER))
        return ret

    InterToLocalGitRepository.fetch_revs = fetch_revs_then_race
    try:
        try:
            result = wt.branch.push(tgt, lossy=True)
        except Exception as e:  # a reported failure would be fine
            print("push reported a failure:", type(e).__name__, e)
            print("no violation")
            sys.exit(0)
    finally:
        InterToLocalGitRepository.fetch_revs = orig
    assert raced == [True]
    final = TransportRefsContainer(commontransport)[MASTER]
    claimed = tgt.repository.lookup_bzr_revision_id(result.new_revid)[0] if result.new_revid else None
    print("ref after push :", final)
    print("push claims    :", result.new_revid, "->", claimed)
    if final == OTHER and claimed != OTHER:
        print("VIOLATION: the conditional ref update was refused (ref unchanged) but the push "
              "completed without error and reports the new revision as pushed")
        sys.exit(1)
    print("no violation")
