"""Baseline finding (UNMODIFIED code): a diff applied to a text that does not
match is never reported as patches.PatchConflict.

 * a mismatching context/removed line: PatchConflict.__init__ calls
   orig_line.rstrip("\n") on *bytes*, so constructing the exception raises
   TypeError("a bytes-like object is required, not 'str'") instead.
 * an old text that is too short: the bare next(orig_lines) inside the
   generator iter_patched_from_hunks leaks StopIteration, which PEP 479 turns
   into RuntimeError("generator raised StopIteration").

Either way no wrong output is produced, but callers that catch PatchConflict
(or BzrError) never see it.

Run: cd <worktree> && /venv/bin/python conflict_is_not_reported_as_PatchConflict.py
Exits 1 (prints FINDING) while the behaviour is present.
"""
import os
import sys
from io import BytesIO

sys.path.insert(0, os.getcwd())
from breezy import diff, patches

old = [b"a\n", b"b\n", b"c\n"]
new = [b"a\n", b"x\n", b"c\n"]
out = BytesIO()
diff.internal_diff("old", old, "new", new, out)
patch_lines = BytesIO(out.getvalue()).readlines()

bad = 0
for label, text in [("changed line", [b"a\n", b"q\n", b"c\n"]), ("short text", [b"a\n"])]:
    try:
        list(patches.iter_patched(text, patch_lines))
        print("%s: no error at all" % label)
        bad += 1
    except patches.PatchConflict as e:
        print("%s: PatchConflict (as documented): %s" % (label, e))
    except Exception as e:
        print("%s: %s: %s" % (label, type(e).__name__, e))
        bad += 1
print("FINDING" if bad else "OK")
sys.exit(1 if bad else 0)
