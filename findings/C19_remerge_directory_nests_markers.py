"""Baseline finding (unmodified code): `brz remerge DIR` on a directory that
contains a text-conflicted file merges the *conflict-marker text* as THIS.

cmd_remerge relies on conflicts.restore() to put f.THIS back over f before
re-running the merge (merge.transform_tree(tree, tree.basis_tree(), ...) is
effectively a no-op there: merge_inner caches the basis tree under the tree's
last_revision and then uses that cached tree as BASE, so BASE == OTHER).  With
a directory argument restore() is only called for the directory itself, so
dir/f still holds the markers of the first merge when it is merged again.
Result: nested conflict markers in dir/f, dir/f.THIS holding marker text
instead of the THIS text, and the first merge's helpers renamed to *.moved
with three extra "duplicate" conflicts.

Run: cd <worktree> && /venv/bin/python remerge_directory_nests_markers.py
Exit 1 when the violation is present.
"""
import os
import shutil
import sys
import tempfile

sys.path.insert(0, os.path.dirname(os.path.abspath(__file__)))
from _common import *  # noqa: E402,F403

BASE, THIS, OTHER = b"a\nb\nc\n", b"a\nB\nc\n", b"a\nX\nc\n"


def main():
    from breezy.builtins import cmd_remerge

    tmp = tempfile.mkdtemp(prefix="c19-remerge-")
    cwd = os.getcwd()
    try:
        wt = make_tree(tmp + "/this")
        os.mkdir(tmp + "/this/dir")
        write(tmp + "/this/dir/f", BASE)
        wt.add(["dir", "dir/f"])
        wt.commit("base")
        other = wt.controldir.sprout(tmp + "/other").open_workingtree()
        write(tmp + "/this/dir/f", THIS)
        wt.commit("this")
        write(tmp + "/other/dir/f", OTHER)
        other.commit("other")
        do_merge(wt, other)
        os.chdir(tmp + "/this")
        cmd_remerge().run_argv_aliases(["dir"])
        os.chdir(cwd)
        wt = wt.controldir.open_workingtree()
        files = listing(tmp + "/this")
        bad = []
        expected = b"a\n<<<<<<< TREE\nB\n=======\nX\n>>>>>>> MERGE-SOURCE\nc\n"
        if files["dir/f"] != expected:
            bad.append(f"dir/f holds {files['dir/f']!r}")
        if files.get("dir/f.THIS") != THIS:
            bad.append(f"dir/f.THIS holds {files.get('dir/f.THIS')!r}")
        extra = sorted(n for n in files if n.endswith(".moved"))
        if extra:
            bad.append(f"stray files {extra}")
        confl = [str(c) for c in wt.conflicts()]
        if confl != ["Text conflict in dir/f"]:
            bad.append(f"conflicts: {confl}")
        for b in bad:
            print("VIOLATION:", b)
        print("FAIL" if bad else "PASS")
        return 1 if bad else 0
    finally:
        os.chdir(cwd)
        shutil.rmtree(tmp, ignore_errors=True)


if __name__ == "__main__":
    sys.exit(main())
