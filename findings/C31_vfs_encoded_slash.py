"""Probe for a candidate C31 defect (not part of any check): does a VFS verb with the client
path '..%2Fsecret' read a file outside the served directory through the full
`brz serve` backing-transport stack (chroot included)?

Run:  cd /repo && /venv/bin/python /verif/findings/C31_vfs_encoded_slash.py
Exit 1 + DEFECT when the outside file is returned.
"""
import os, shutil, sys, tempfile
sys.path.insert(0, os.getcwd())
import breezy
breezy.initialize(setup_ui=False)
import breezy.bzr  # noqa
from breezy import transport as _mod_transport
from breezy.bzr.smart import request, vfs
from breezy.bzr.smart.server import BzrServerFactory

d = tempfile.mkdtemp(prefix="c31-")
rc = 0
try:
    os.mkdir(d + "/served")
    open(d + "/secret", "wb").write(b"TOP-SECRET\n")
    open(d + "/served/inside", "wb").write(b"fine\n")
    f = BzrServerFactory()
    f._make_backing_transport(_mod_transport.get_transport_from_path(d + "/served"))
    backing = f.transport
    try:
        for client_path in (b"inside", b"../secret", b"..%2Fsecret", b"%2e%2e%2fsecret", b"%2E%2E/secret"):
            req = vfs.GetRequest(backing, root_client_path="/")
            try:
                resp = req.execute(client_path)
                body = getattr(resp, "body", None)
                out = (resp.args, body)
            except Exception as e:
                out = ("raised", type(e).__name__)
            print(client_path, "->", out)
            if client_path != b"inside" and isinstance(out[1], bytes) and b"TOP-SECRET" in out[1]:
                print("DEFECT: client path", client_path, "read a file outside the served directory")
                rc = 1
    finally:
        for c in reversed(f.cleanups):
            c()
finally:
    shutil.rmtree(d, ignore_errors=True)
print("OK" if rc == 0 else "DEFECT")
sys.exit(rc)
