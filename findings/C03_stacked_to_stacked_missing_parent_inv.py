"""Baseline probe: fetch from a stacked branch served over bzr:// into a
local stacked target, when a parent inventory that the target needs lives in
the *source's fallback* repository.

Layout (all 2a):

    b1 <- b2 <- a3

  repo B   holds b1, b2
  repo A   stacked on B, holds a3 (+ the parent inventory of b2)
  repo T0  holds b1
  repo T   stacked on T0, empty

T fetches a3 from bzr://.../A.  It needs revisions a3 and b2, plus (being
stacked) the inventory of b1, the parent of b2.  That inventory is only in B.
RemoteStreamSource.get_stream_for_missing_keys asks the server for it with
the Repository.get_stream_for_missing_keys verb, which opens A *without* its
fallbacks, so the inventory of b1 is never sent.

Exit 0 / PASS: fetch succeeds, T (with fallbacks) has a3, b2, b1 with
identical testaments, T passes check.
Exit 1 / FAIL otherwise.

Observed on the unmodified tree (cd <worktree> && /venv/bin/python <this>):
  (no args)            FAIL - fetch raises BzrCheckError "Cannot add
                       revision(s) to repository: missing text keys: [...b1]"
                       from commit_write_group; nothing is fetched.
  --local              PASS - same repositories, source opened as file://.
  --vfs-missing-keys   PASS - bzr:// source, but get_stream_for_missing_keys
                       answered by the VFS repository (fallbacks attached),
                       which pins the failure on the smart verb.
"""

import os
import shutil
import sys
import tempfile
import traceback

sys.path.insert(0, os.getcwd())

import breezy  # noqa: E402

breezy.initialize()

import breezy.bzr  # noqa: E402,F401
from breezy import controldir, trace, ui  # noqa: E402
from breezy.branch import Branch  # noqa: E402
from breezy.bzr.testament import Testament  # noqa: E402
from breezy.tests import test_server  # noqa: E402

ui.ui_factory = ui.SilentUIFactory()
trace.be_quiet(True)

USE_SMART = "--local" not in sys.argv

if "--vfs-missing-keys" in sys.argv:
    # Diagnosis aid: answer get_stream_for_missing_keys through the VFS
    # repository (which has the fallbacks attached) instead of the RPC.
    from breezy.bzr import remote as _remote

    _remote.RemoteStreamSource.get_stream_for_missing_keys = (
        _remote.RemoteStreamSource._get_real_stream_for_missing_keys
    )


def fmt():
    return controldir.format_registry.make_controldir("2a")


def commit(tree, name, revid):
    with open(os.path.join(tree.basedir, name), "w") as f:
        f.write("content of %s\n" % name)
    tree.add([name])
    tree.commit(
        "add " + name,
        rev_id=revid,
        committer="x <x@example.com>",
        timestamp=1000000000,
        timezone=0,
    )


def make_stacked(name, on_branch, on_relurl, pull=True):
    tree = controldir.ControlDir.create_standalone_workingtree(name, format=fmt())
    tree.branch.set_stacked_on_url(on_relurl)
    tree = tree.controldir.open_workingtree()
    if pull:
        tree.pull(on_branch)
    return tree


def main():
    failures = []
    orig_cwd = os.getcwd()
    tmp = tempfile.mkdtemp(prefix="c03-base-")
    os.chdir(tmp)
    server = None
    try:
        tree_b = controldir.ControlDir.create_standalone_workingtree("B", format=fmt())
        commit(tree_b, "b1.txt", b"b1")
        tree_b.controldir.sprout("T0", revision_id=b"b1")
        commit(tree_b, "b2.txt", b"b2")
        tree_a = make_stacked("A", tree_b.branch, "../B")
        commit(tree_a, "a3.txt", b"a3")
        make_stacked("T", None, "../T0", pull=False)

        if USE_SMART:
            server = test_server.SmartTCPServer_for_testing()
            server.start_server()
            source = Branch.open(server.get_url() + "A")
        else:
            source = Branch.open("A")
        target = Branch.open("T")

        wanted = [b"a3", b"b2", b"b1"]
        with source.lock_read():
            expected = {
                r: Testament.from_revision(source.repository, r).as_short_text()
                for r in wanted
            }
            try:
                target.repository.fetch(source.repository, revision_id=b"a3")
            except Exception as e:  # noqa: BLE001
                traceback.print_exc()
                failures.append("fetch raised %s: %s" % (type(e).__name__, e))
        if USE_SMART:
            source.controldir.transport.disconnect()

        if not failures:
            repo = Branch.open("T").repository
            with repo.lock_read():
                for r in wanted:
                    try:
                        got = Testament.from_revision(repo, r).as_short_text()
                    except Exception as e:  # noqa: BLE001
                        failures.append("no testament for %r: %r" % (r, e))
                        continue
                    if got != expected[r]:
                        failures.append("testament of %r differs" % r)
                own = repo.inventories.without_fallbacks().get_parent_map(
                    [(b"b1",), (b"b2",), (b"a3",)]
                )
                print("inventories held by T itself:", sorted(own))
            try:
                repo.check([b"a3"])
            except Exception as e:  # noqa: BLE001
                failures.append("check raised %r" % (e,))
    finally:
        if server is not None:
            server.stop_server()
        os.chdir(orig_cwd)
        shutil.rmtree(tmp, ignore_errors=True)

    if failures:
        print("FAIL")
        for f in failures:
            print("  " + f)
        return 1
    print("PASS")
    return 0


if __name__ == "__main__":
    sys.exit(main())
