"""BASELINE FINDING 2 (unmodified code): renaming a versioned directory with a
GitTreeTransform leaves the git index describing the *old* paths.

GitTreeTransform._generate_index_changes (breezy/git/transform.py) only emits
entries for the trans_ids that were touched (the directory itself);
GitWorkingTree._apply_index_changes then tries ``del index[b"dir"]`` (KeyError,
ignored) and never moves the ``dir/*`` entries.  The files are moved on disk,
so afterwards ``dir/x`` is "versioned but missing" and ``dir2/x`` is unknown,
while the preview tree showed ``dir2/x`` as a versioned file.

Run: cd <worktree> && /venv/bin/python bf2_git_directory_rename_leaves_index_at_old_paths.py
"""

import os
import sys

sys.path.insert(0, os.path.dirname(os.path.abspath(__file__)))
from C14__common import make_tree, reopen  # noqa: E402


def versioned_files(tree):
    with tree.lock_read():
        return sorted(
            p for p, e in tree.iter_entries_by_dir() if e.kind != "directory"
        )


wt, base = make_tree("git", {"dir/x": b"hello\n", "other": b"o\n"})
tt = wt.transform()
try:
    d = tt.trans_id_tree_path("dir")
    tt.adjust_path("dir2", tt.root, d)
    assert tt.find_raw_conflicts() == []
    preview = versioned_files(tt.get_preview_tree())
    tt.apply()
finally:
    tt.finalize()
wt2 = reopen(wt)
applied = versioned_files(wt2)
print("preview versioned files:", preview)
print("applied versioned files:", applied)
print("on disk               :", sorted(os.listdir(base)))
with wt2.lock_read():
    v_new = wt2.is_versioned("dir2/x")
    v_old = wt2.is_versioned("dir/x")
if preview != applied or not v_new or v_old:
    print(
        "VIOLATION (C14): preview says dir2/x is versioned; after apply the index "
        f"still has dir/x (is_versioned('dir/x')={v_old}, is_versioned('dir2/x')={v_new})"
    )
    sys.exit(1)
print("no violation observed")
