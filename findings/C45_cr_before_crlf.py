"""C45 (fixed in /repo by 44a15cd; exit 0 = behaviour absent). Before the fix: with eol = lf-with-crlf-in-repo (or native-with-crlf-in-repo on Unix) repository text that
contains CR CR LF does not survive checkout + read-back: the writer turns CR CR LF into CR LF, the reader leaves CR LF
alone, so a fresh checkout reports the file as modified.  Exit 1 / DEFECT when the behaviour is present."""
import os, shutil, sys, tempfile
home = tempfile.mkdtemp(prefix="c45-")
os.environ["BRZ_HOME"] = home
os.environ["HOME"] = home
os.environ["BRZ_EMAIL"] = "Demo <demo@example.com>"
import breezy
breezy.initialize()
import breezy.bzr  # noqa
from breezy import rules, workingtree
from breezy.controldir import ControlDir
from breezy.filters.eol import _to_crlf_converter, _to_lf_converter

text = b"one\r\r\ntwo\r\n"
# 1. function level
assert _to_crlf_converter([text]) == [text], "text is canonical for a CRLF-in-repo setting"
back = _to_crlf_converter(_to_lf_converter([text]))
print("reader(writer(text)) =", back, "text =", text)
# 2. tree level
os.chdir(home)
from breezy.controldir import format_registry
wt = ControlDir.create_standalone_workingtree("src", format=format_registry.make_controldir("2a"))
with open("src/f.txt", "wb") as f:
    f.write(text)
with open("src/control.txt", "wb") as f:
    f.write(b"one\r\ntwo\r\n")       # ordinary CRLF text: must round-trip
wt.add(["f.txt", "control.txt"])
wt.commit("add", committer="a <a@b>")                     # no rules yet: stored exactly
os.makedirs(os.path.dirname(rules.rules_path()), exist_ok=True)
with open(rules.rules_path(), "w") as f:
    f.write("[name *.txt]\neol = lf-with-crlf-in-repo\n")
rules.reset_rules()
co = wt.branch.controldir.sprout("co").open_workingtree()
on_disk = open("co/f.txt", "rb").read()
print("fresh checkout has", on_disk)
with co.lock_read():
    changes = [c.path for c in co.iter_changes(co.basis_tree())]
print("changes reported by the fresh checkout:", changes)
shutil.rmtree(home, ignore_errors=True)
assert ("control.txt", "control.txt") not in changes, "control file must be unchanged"
if back != [text] or changes:
    print("DEFECT")
    sys.exit(1)
print("OK")
