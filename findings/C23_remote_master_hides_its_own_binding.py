"""BASELINE FINDING (C23): over the smart server a branch never looks bound, so
(a) a commit through a checkout of a branch that is itself bound is accepted
    (over file:// it is refused with CommitToDoubleBoundBranch) and leaves the
    middle branch ahead of ITS master, and
(b) `push` to a bound branch over bzr:// does not update that branch's master
    (over file:// it does).

RemoteBranch (breezy/bzr/remote.py) does not implement get_bound_location /
get_master_branch; it inherits Branch.get_bound_location(), which returns None.
Commit._check_bound_branch asks the master `get_bound_location()` to refuse
double binding, and GenericInterBranch.push asks the target the same question
to find the master that has to be updated first.

Run:  cd <worktree> && /venv/bin/python remote_master_hides_its_own_binding.py
Exit 1 when the violation is present.
"""

import os
import sys
import unittest

sys.path.insert(0, os.getcwd())
import breezy
import breezy.bzr  # noqa: F401
import breezy.git  # noqa: F401
from breezy import errors, tests
from breezy.branch import Branch
from breezy.tests import test_server

problems = []


class T(tests.TestCaseWithTransport):
    def setUp(self):
        super().setUp()
        self.transport_server = test_server.SmartTCPServer_for_testing

    def _chain(self, prefix):
        mm = self.make_branch_and_tree(prefix + "-mm")
        self.build_tree([prefix + "-mm/a"])
        mm.add(["a"])
        mm.commit("one")
        mm.branch.create_checkout(prefix + "-m")  # m is bound to mm
        return mm

    def test_commit(self):
        for how in ("local", "remote"):
            self._chain(how)
            url = self.get_url(how + "-m") if how == "remote" else how + "-m"
            m = Branch.open(url)
            co = m.create_checkout(how + "-co")
            self.build_tree([how + "-co/b"])
            co.add(["b"])
            try:
                co.commit("two")
                outcome = "accepted"
            except errors.CommitToDoubleBoundBranch:
                outcome = "refused"
            tips = [
                Branch.open(how + s).last_revision_info()[0] for s in ("-co", "-m", "-mm")
            ]
            print("commit via %-6s master (%s): %s; revnos co/m/mm = %r" % (
                how, type(m).__name__, outcome, tips))
            if outcome == "accepted" and tips[1] != tips[2]:
                problems.append(
                    "commit through a checkout of a bound branch was accepted over "
                    "%s and left that branch ahead of its own master" % how)

    def test_push(self):
        for how in ("local", "remote"):
            mm = self._chain("p" + how)
            src = mm.branch.controldir.sprout("p" + how + "-src").open_workingtree()
            self.build_tree(["p" + how + "-src/b"])
            src.add(["b"])
            src.commit("two")
            url = self.get_url("p" + how + "-m") if how == "remote" else "p" + how + "-m"
            src.branch.push(Branch.open(url))
            tips = [
                Branch.open("p" + how + s).last_revision_info()[0] for s in ("-m", "-mm")
            ]
            print("push to bound branch via %-6s: revnos m/mm = %r" % (how, tips))
            if tips[0] != tips[1]:
                problems.append(
                    "push to a bound branch over %s did not update its master" % how)


if __name__ == "__main__":
    result = unittest.TextTestRunner(verbosity=0).run(
        unittest.defaultTestLoader.loadTestsFromTestCase(T))
    for p in problems:
        print("VIOLATION:", p)
    bad = bool(problems) or not result.wasSuccessful()
    print("FAIL" if bad else "PASS")
    sys.exit(1 if bad else 0)
