"""Baseline finding (unmodified code): FetchSpecFactory.make_fetch_spec() with a
limit and target_repo_kind == EMPTY passes a *list* slice to
Repository.revision_ids_to_search_result(), which needs a set
(`result_set.intersection`), so no search description can be produced at all
(AttributeError).  (Branch.fetch(limit=...) only uses PREEXISTING today, so
this is reachable through the FetchSpecFactory API only.)

Exit 1 when the problem is present.
"""
import os
import sys
import unittest

sys.path.insert(0, os.getcwd())

import breezy
import breezy.bzr  # noqa: F401
from breezy import tests
from breezy.bzr.fetch import FetchSpecFactory, TargetRepoKinds

problems = []


class Demo(tests.TestCaseWithTransport):
    def test_it(self):
        tree = self.make_branch_and_tree("s", format="2a")
        r1 = tree.commit("one")
        tree.commit("two")
        tree.commit("three")
        target = self.make_repository("t", format="2a")
        with tree.branch.lock_read():
            f = FetchSpecFactory()
            f.source_branch = tree.branch
            f.source_repo = tree.branch.repository
            f.target_repo = target
            f.target_repo_kind = TargetRepoKinds.EMPTY
            f.limit = 1
            try:
                spec = f.make_fetch_spec()
            except AttributeError as e:
                problems.append("make_fetch_spec(limit=1, EMPTY) raised %r" % (e,))
                return
            print(spec.get_recipe())
            if set(spec.get_keys()) != {r1}:
                problems.append("unexpected keys %r" % (spec.get_keys(),))


if __name__ == "__main__":
    res = unittest.TextTestRunner(verbosity=1).run(
        unittest.TestLoader().loadTestsFromTestCase(Demo))
    if not res.wasSuccessful():
        print("ERROR running repro")
        sys.exit(2)
    if problems:
        for p in problems:
            print("VIOLATION:", p)
        sys.exit(1)
    print("no violation")
