"""Baseline C34 violations seen on the UNMODIFIED tree.
 (a) author "A <a@x>, B <b@x>" (two addresses separated by a comma) is
     truncated to "A <a@x>" by export_commit's multi-author hack.
 (b) a recognised extra header (HG:rename-source) whose value contains a
     character that str.splitlines() treats as a line break (\\x0c, \\x1c,
     \\x85 ...) is split into several extras / raises on export, because
     import joins extras with "\\n" while export uses splitlines()."""
import os
import sys

sys.path.insert(0, os.getcwd())
from dulwich.objects import Commit

from breezy.git.mapping import BzrGitMappingv1


def roundtrip(author=b"A U Thor <a@x>", extra=()):
    c = Commit()
    c.tree = b"a" * 40
    c.parents = []
    c.author = author
    c.committer = b"C O Mitter <c@x>"
    c.commit_time = c.author_time = 1000
    c.commit_timezone = c.author_timezone = 0
    c.message = b"msg\n"
    for e in extra:
        c._extra.append(e)
    raw = c.as_raw_string()
    c = Commit.from_string(raw)
    m = BzrGitMappingv1()
    rev, _rr, _v = m.import_commit(c, m.revision_id_foreign_to_bzr, strict=True)
    c2 = m.export_commit(
        rev, c.tree, lambda r: m.revision_id_bzr_to_foreign(r)[0], True, {}
    )
    return raw, c2.as_raw_string()


bad = 0
for name, kw in [
    ("two-address author", dict(author=b"A <a@x>, B <b@x>")),
    ("extra value with form feed", dict(extra=[(b"HG:rename-source", b"hg\x0cfoo bar")])),
    ("extra value with \\x1c", dict(extra=[(b"HG:rename-source", b"hg\x1cfoo")])),
]:
    try:
        a, b = roundtrip(**kw)
    except Exception as e:
        bad += 1
        print("VIOLATION (%s): round trip raised %s: %s" % (name, type(e).__name__, e))
        continue
    if a != b:
        bad += 1
        print("VIOLATION (%s):\n  in : %r\n  out: %r" % (name, a, b))
sys.exit(1 if bad else 0)
