"""UNMODIFIED code: a v4 bundle written from an XML-inventory repository (knit,
pack-0.92, rich-root-pack, ...) cannot be installed into a 2a repository that
already holds the bundle's base: RevisionInstaller._get_parent_inventory_texts
hands the target's CHKInventory to the source (XML) inventory serializer, which
raises TypeError("'CHKInventory' object is not an instance of 'Inventory'").
(With base null: it works, because no parent inventory is read from the target.)

Run: cd <worktree> && /venv/bin/python 1_v4_xml_source_into_2a_with_base.py
Exits 1 (prints VIOLATION) when the install fails.
"""
import os, sys
sys.path.insert(0, os.path.dirname(os.path.abspath(__file__)))
from C40__common import *  # noqa

bad = 0
for i, src_fmt in enumerate(("knit", "pack-0.92", "rich-root-pack")):
    tree = mktree("src%d" % i, src_fmt)
    with open("src%d/a" % i, "wb") as f:
        f.write(b"one\n")
    tree.add(["a"], ids=[b"a-id"])
    tree.commit("one", rev_id=b"r1")
    with open("src%d/a" % i, "wb") as f:
        f.write(b"one\ntwo\n")
    tree.commit("two", rev_id=b"r2")
    try:
        ok = roundtrip(tree, b"r1", b"r2", "4", "2a", "dst%d" % i)
        print(src_fmt, "-> 2a : testaments equal =", ok)
        bad += not ok
    except Exception as e:
        print(src_fmt, "-> 2a : VIOLATION, install failed:", type(e).__name__, e)
        bad += 1
sys.exit(1 if bad else 0)
