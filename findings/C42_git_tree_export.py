"""Baseline findings (unmodified code) for exports of Git trees.

 (a) GitTree.is_special_path() is `path.startswith(".git")`, and
     export._export_iter_entries() skips "special" paths.  Exporting a Git
     revision tree therefore silently drops `.gitignore`, `.gitattributes`,
     `.gitmodules` *and the whole `.github/` directory* (and anything else whose
     top-level name merely starts with ".git") from dir / tar / zip exports,
     although no export option asks for that and `git archive` keeps them.
 (b) GitRemoteRevisionTree.archive() (git:// / ssh remotes, served through
     git-upload-archive) cannot export a sub-directory at all: it hands a str
     to dulwich, which raises TypeError("can't concat str to bytes").

Run as: cd <worktree> && /venv/bin/python git_tree_export.py
Exits 1 (prints FINDING lines) when the behaviour is present.
"""

import io
import os
import sys
import tarfile
import tempfile

sys.path.insert(0, os.getcwd())
_home = tempfile.mkdtemp(prefix="c42-home-")
os.environ.update(BRZ_HOME=_home, HOME=_home, BRZ_EMAIL="D <d@example.com>", BRZ_LOG=os.devnull)

import breezy  # noqa: E402

breezy.initialize()
import breezy.bzr  # noqa: E402, F401
import breezy.bzr.bzrdir  # noqa: E402, F401
import breezy.git  # noqa: E402, F401
import breezy.git.dir  # noqa: E402, F401
from breezy import branch as _mod_branch  # noqa: E402
from breezy import controldir, export, trace  # noqa: E402

trace.be_quiet(True)
os.chdir(tempfile.mkdtemp(prefix="c42-bf-"))
found = 0

gwt = controldir.ControlDir.create_standalone_workingtree(
    "g", format=controldir.format_registry.make_controldir("git")
)
os.makedirs("g/.github/workflows")
open("g/.github/workflows/ci.yml", "w").write("on: push\n")
open("g/.gitignore", "w").write("*.o\n")
open("g/.gitattributes", "w").write("* text=auto\n")
os.mkdir("g/sub")
open("g/sub/f", "w").write("f\n")
open("g/a", "w").write("a\n")
gwt.smart_add(["g"])
gwt.commit("1")
rt = gwt.branch.basis_tree()
with rt.lock_read():
    in_tree = sorted(p for p, e in rt.iter_entries_by_dir() if p)
export.export(rt, "g.tar", "tar", root="")
exported = sorted(tarfile.open("g.tar").getnames())
print("tree paths    :", in_tree)
print("tar export    :", exported)
missing = sorted(set(in_tree) - set(exported))
if missing:
    print("FINDING (a): versioned paths silently left out of the export:", missing)
    found += 1

remote = _mod_branch.Branch.open("git://%s/" % os.path.abspath("g")).basis_tree()
data = b"".join(remote.archive("tar", "x.tar", root="r"))
print("remote archive, whole tree:", sorted(tarfile.open(fileobj=io.BytesIO(data)).getnames()))
try:
    b"".join(remote.archive("tar", "x.tar", root="r", subdir="sub"))
except TypeError as e:
    print("FINDING (b): remote git archive with subdir='sub' ->", type(e).__name__, e)
    found += 1

sys.exit(1 if found else 0)
