"""C16 baseline finding 4.

uncommit never checks that the working tree is up to date with its branch
(commit does: OutOfDateTree).  In a lightweight checkout that is BEHIND the
branch tip, `brz uncommit` sets the tree's basis to the new branch tip although
the tree's files still correspond to the older revision.  The working files are
untouched but the tree's parent list changes from [r1] to [r2] and a clean tree
suddenly reports modifications (the reverse of r2).

Run: cd <worktree> && /venv/bin/python <this file>;  exit 1 = violation present.
"""

import os
import tempfile

from _common import finish, make_tree, write

from breezy.uncommit import uncommit
from breezy.workingtree import WorkingTree


def changes(wt):
    with wt.lock_read():
        return sorted(repr(c.path) for c in wt.iter_changes(wt.basis_tree()))


problems = []
base = tempfile.mkdtemp(prefix="c16-f4-")
t = os.path.join(base, "trunk")
wt = make_tree(t, "2a")
write(os.path.join(t, "f"), "1\n")
wt.add(["f"])
r1 = wt.commit("one")
lw = os.path.join(base, "lw")
wt.branch.create_checkout(lw, lightweight=True)
write(os.path.join(t, "f"), "2\n")
r2 = wt.commit("two")
write(os.path.join(t, "f"), "3\n")
wt.commit("three")

b = WorkingTree.open(lw)  # still at r1, two revisions behind
before = (b.get_parent_ids(), changes(b))
uncommit(b.branch, tree=b)  # removes r3 from the shared branch
b = WorkingTree.open(lw)
after = (b.get_parent_ids(), changes(b))
if before != after:
    problems.append(
        "uncommit in an out-of-date lightweight checkout moved the tree's basis "
        f"without touching its files: parents/changes {before!r} -> {after!r} "
        f"(r1={r1!r}, r2={r2!r})"
    )
finish(problems)
