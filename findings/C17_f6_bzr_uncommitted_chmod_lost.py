"""Adjacent to C17 (executable bits; not one of the four laws verbatim).

THIS (bzr working tree) has an *uncommitted* chmod +x on file a; OTHER
changes a's content.  Merge3Merger._entries3 takes THIS's executable bit from
the bulk-fetched inventory entry (dirstate value, stale) instead of the
disk, so _merge_executable re-applies "not executable" to the merged file:
the user's chmod is silently lost.  git trees (which stat the disk) keep it.
"""
import sys, os
sys.path.insert(0, os.path.dirname(os.path.abspath(__file__)))
from C17__c17lib import make_tree, sprout, merge, write

bad = []
for fmt in ("bzr", "git"):
    tmp, base = make_tree(fmt, {"a": b"a1\na2\na3\n"})
    this = sprout(base, tmp, "this"); other = sprout(base, tmp, "other")
    write(other, "a", b"a1\na2\na3\nmore\n"); other.commit("modify a")
    os.chmod(os.path.join(this.basedir, "a"), 0o755)
    conflicts = merge(this, other)
    mode = os.stat(os.path.join(this.basedir, "a")).st_mode
    print(fmt, "conflicts:", conflicts, "mode: %o" % (mode & 0o777))
    if not mode & 0o100:
        bad.append(fmt)
if bad:
    print("VIOLATION: THIS's executable bit was dropped by a content-only change from OTHER:", bad)
    sys.exit(1)
print("ok")
