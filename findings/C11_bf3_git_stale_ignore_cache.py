"""Baseline finding: GitWorkingTree caches its dulwich IgnoreFilterManager
(`_ignoremanager`) for the life of the tree object; GitWorkingTree._cleanup()
is a no-op and nothing outside the tests ever calls _flush_ignore_list_cache().
(The bzr tree drops its ignore cache on the last unlock.)  So when the same
tree object is used for two adds and .gitignore is written in between (by the
user, or by `tree_ignores_add_patterns`/`brz ignore`), the second recursive add
uses the stale rules and versions files that are ignored.  A freshly opened
tree object gives the right answer.
"""
import sys, os

sys.path.insert(0, os.path.dirname(os.path.abspath(__file__)))
from _common import make_tree, versioned, write  # noqa: E402
from breezy.workingtree import WorkingTree  # noqa: E402

results = {}
for label in ("same-object", "fresh-object"):
    p, wt = make_tree("git", "t-" + label)
    write(p + "/a.txt")
    write(p + "/sub/k.txt")
    wt.smart_add([p])  # first add: populates the ignore manager cache
    write(p + "/.gitignore", "*.tmp\n")
    write(p + "/sub/y.tmp")
    if label == "fresh-object":
        wt = WorkingTree.open(p)
    added, ignored = wt.smart_add([p])
    results[label] = "sub/y.tmp" in versioned(p)
    print(f"[{label}] added={added} ignored={dict(ignored)} "
          f"sub/y.tmp versioned={results[label]}")
if results["fresh-object"]:
    print("unexpected: even a fresh tree object versions the ignored file")
    sys.exit(1)
if results["same-object"]:
    print("VIOLATION: ignored file sub/y.tmp versioned because of the stale "
          "ignore cache on the tree object")
    sys.exit(1)
sys.exit(0)
