"""C17 clause 3 (identical changes => conflict-free), git trees.

THIS and OTHER both rename directory d -> d2 (nothing else).  Merging OTHER
into THIS reports "Text conflict in d2" (a raw 'path conflict' on the
directory entry: find_previous_path() cannot trace a directory through a
rename in git trees, so names3 == ('d', 'd2', None) -> _three_way says
'conflict').  The same scenario on a bzr tree is clean.
"""
import sys, os
sys.path.insert(0, os.path.dirname(os.path.abspath(__file__)))
from C17__c17lib import make_tree, sprout, merge, versioned

bad = []
for fmt in ("bzr", "git"):
    tmp, base = make_tree(fmt, {"d": None, "d/e": b"e1\ne2\n", "d/f": b"f1\n", "a": b"a\n"})
    this = sprout(base, tmp, "this"); other = sprout(base, tmp, "other")
    for name, t in (("this", this), ("other", other)):
        # distinct messages: identical git commits would share one sha
        t.rename_one("d", "d2"); t.commit("rename d in " + name)
    conflicts = merge(this, other)
    print(fmt, "conflicts:", conflicts, "tree:", versioned(this))
    if conflicts:
        bad.append((fmt, conflicts))
if bad:
    print("VIOLATION: identical directory rename on both sides is not conflict-free:", bad)
    sys.exit(1)
print("ok")
