"""Baseline finding (unmodified code): InterFromGitRepository.search_missing_revision_ids
with revision_ids only reports the requested heads themselves, not their
missing ancestry, so the resulting search (start, exclude, count) describes
fewer revisions than are actually missing from the target.

Exit 1 when the violation is present.
"""
import os
import sys
import unittest

sys.path.insert(0, os.getcwd())

import breezy
import breezy.bzr  # noqa: F401
import breezy.git  # noqa: F401
from breezy import tests
from breezy.repository import InterRepository

problems = []


class Demo(tests.TestCaseWithTransport):
    def test_it(self):
        tree = self.make_branch_and_tree("g", format="git")
        r1 = tree.commit("one")
        r2 = tree.commit("two")
        r3 = tree.commit("three")
        source = tree.branch.repository
        target = self.make_repository("b", format="2a")
        with source.lock_read(), target.lock_read():
            inter = InterRepository.get(source, target)
            print("inter:", type(inter).__name__)
            everything = inter.search_missing_revision_ids()
            print("no revision_ids:", sorted(everything.get_keys()), everything.get_recipe())
            result = inter.search_missing_revision_ids(revision_ids=[r3])
            keys = set(result.get_keys())
            print("revision_ids=[tip]:", sorted(keys), result.get_recipe())
            if keys != {r1, r2, r3}:
                problems.append(
                    "search for tip into an empty target describes %r, "
                    "but %r are missing from the target"
                    % (sorted(keys), sorted({r1, r2, r3})))


if __name__ == "__main__":
    res = unittest.TextTestRunner(verbosity=1).run(
        unittest.TestLoader().loadTestsFromTestCase(Demo))
    if not res.wasSuccessful():
        print("ERROR running repro")
        sys.exit(2)
    if problems:
        for p in problems:
            print("VIOLATION:", p)
        sys.exit(1)
    print("no violation")
