"""Baseline (unmodified code) violations of C46 "never deletes ... a nested branch".

Run: cd <worktree> && /venv/bin/python nested_branch_deleted.py
Exit 1 if any of the violations is present.

 A. git tree containing a nested *bzr* branch: GitWorkingTree.extras() only
    prunes directories holding ".git", and yields individual files, so
    clean_tree._filter_out_nested_controldirs (which only probes directories)
    never sees the nested branch: its working files AND the files inside its
    .bzr control directory are deleted.
 B. git tree containing a nested *bare git* repository (no ".git" entry):
    same path, HEAD/config/... of the bare repository are deleted.
 C. bzr tree with a nested branch one level below an unknown plain directory
    (unk/nested/.bzr): the unknown directory is rmtree'd as a whole (this one is
    acknowledged by a FIXME comment in _filter_out_nested_controldirs).
"""
import os
import sys
import tempfile

sys.path.insert(0, os.getcwd())
base = tempfile.mkdtemp(prefix="c46-base-")
os.environ["HOME"] = base
os.environ["BRZ_HOME"] = base
os.environ["BRZ_EMAIL"] = "Demo <demo@example.com>"

import breezy

breezy.initialize()
from breezy import ui
from breezy.plugin import load_plugins

load_plugins()
import breezy.bzr  # noqa
import breezy.git  # noqa
from breezy.clean_tree import clean_tree
from breezy.controldir import ControlDir, format_registry

ui.ui_factory = ui.SilentUIFactory()


def fmt(name):
    return format_registry.make_controldir(name)


def snapshot(root):
    out = set()
    for dp, dn, fn in os.walk(root):
        for n in dn + fn:
            out.add(os.path.relpath(os.path.join(dp, n), root))
    return out


def write(path, content="x"):
    os.makedirs(os.path.dirname(path), exist_ok=True)
    with open(path, "w") as f:
        f.write(content)


def make_outer(name, format):
    tdir = os.path.join(base, name)
    os.mkdir(tdir)
    tree = ControlDir.create_standalone_workingtree(tdir, format=fmt(format))
    write(os.path.join(tdir, "a"))
    tree.add(["a"])
    tree.commit("one")
    return tdir


failures = []


def check(label, tdir, nested_prefix):
    before = snapshot(tdir)
    clean_tree(tdir, unknown=True, no_prompt=True)
    lost = sorted(p for p in before - snapshot(tdir) if p.startswith(nested_prefix))
    if lost:
        failures.append(label)
        print("VIOLATION %s: clean-tree deleted %d paths of the nested branch, e.g. %r"
              % (label, len(lost), lost[:4]))
    else:
        print("ok %s" % label)


# A
tdir = make_outer("A", "git")
ControlDir.create_standalone_workingtree(os.path.join(tdir, "nested"), format=fmt("bzr"))
write(os.path.join(tdir, "nested", "work.txt"))
check("A git tree / nested bzr branch", tdir, "nested")

# B
tdir = make_outer("B", "git")
ControlDir.create(os.path.join(tdir, "bare"), format=fmt("git-bare")).create_repository()
check("B git tree / nested bare git repository", tdir, "bare")

# C
tdir = make_outer("C", "bzr")
os.makedirs(os.path.join(tdir, "unk"))
ControlDir.create_standalone_workingtree(os.path.join(tdir, "unk", "nested"), format=fmt("bzr"))
write(os.path.join(tdir, "unk", "nested", "work.txt"))
check("C bzr tree / nested branch below an unknown directory", tdir, "unk/nested")

if failures:
    sys.exit(1)
print("no violation")
