"""C36: GitBranch.set_parent stores the branch/ref part of the parent URL as branch.<branch name>.merge, but
_get_related_merge_branch reads branch.<remote name>.merge: the `,branch=` / `,ref=` part of a parent URL is dropped when
it is read back.   Run from a checkout root: /venv/bin/python /verif/findings/C36_parent_ref_readback.py  (exit 0 = ok)"""
import os
import shutil
import sys
import tempfile

sys.path.insert(0, os.getcwd())
import breezy.bzr  # noqa: E402,F401
import breezy.git  # noqa: E402,F401
from breezy.controldir import ControlDir  # noqa: E402

bad = 0
tmp = tempfile.mkdtemp()
try:
    for i, url in enumerate(["https://example.com/repo.git,branch=feature", "https://example.com/repo.git,ref=refs%2Ftags%2Fv1", "https://example.com/repo.git"]):
        d = os.path.join(tmp, f"r{i}")
        os.mkdir(d)
        from breezy.controldir import format_registry

        cd = ControlDir.create(d, format=format_registry.make_controldir("git"))
        cd.create_repository()
        b = cd.create_branch()
        b.set_parent(url)
        got = ControlDir.open(d).open_branch().get_parent()
        ok = got is not None and got.rstrip("/") == url.rstrip("/")
        print(("ok  " if ok else "FAIL"), "set", url, "-> got", got)
        bad += not ok
finally:
    shutil.rmtree(tmp)
print("PASS" if not bad else f"{bad} failures")
sys.exit(1 if bad else 0)
