"""C16 baseline finding 2.

`uncommit --local` in a bound branch removes the revision only from the local
branch - the master keeps it - yet the tags pointing at it are deleted from the
MASTER as well (BasicTags.delete_tag always propagates to the master).  So the
master loses a tag that points at a revision which is still its tip.

Run: cd <worktree> && /venv/bin/python <this file>;  exit 1 = violation present.
"""

import os
import tempfile

from _common import finish, make_tree, write

from breezy.branch import Branch
from breezy.uncommit import uncommit
from breezy.workingtree import WorkingTree

problems = []
base = tempfile.mkdtemp(prefix="c16-f2-")
m = os.path.join(base, "master")
c = os.path.join(base, "co")
mwt = make_tree(m, "2a")
write(os.path.join(m, "f"), "1\n")
mwt.add(["f"])
mwt.commit("one")
co = mwt.branch.create_checkout(c)
write(os.path.join(c, "f"), "2\n")
r2 = co.commit("two")
co.branch.tags.set_tag("release", r2)
assert Branch.open(m).tags.get_tag_dict() == {"release": r2}

co = WorkingTree.open(c)
uncommit(co.branch, tree=co, local=True)

master = Branch.open(m)
if master.last_revision() != r2:
    problems.append("master tip changed by a --local uncommit")
if master.tags.get_tag_dict() != {"release": r2}:
    problems.append(
        "uncommit(local=True) left the master at r2 but deleted its tag on r2: "
        f"master tags = {master.tags.get_tag_dict()!r}"
    )
finish(problems)
