"""C42 known finding (bzr sibling of the repaired git defect): a versioned file whose name merely starts with .bzr is left out of exports."""
import os, shutil, sys, tarfile, tempfile
sys.path.insert(0, os.getcwd())
import breezy
breezy.initialize(setup_ui=False)
import breezy.bzr  # noqa
from breezy.controldir import ControlDir, format_registry
from breezy.export import export
d = tempfile.mkdtemp(); rc = 0
try:
    wt = ControlDir.create_standalone_workingtree(d + "/t", format=format_registry.make_controldir("2a"))
    for n in (".bzrfoo", "plain"):
        open(d + "/t/" + n, "w").write("x\n")
    wt.add([".bzrfoo", "plain"]); wt.commit("c", committer="a <a@b>")
    export(wt.basis_tree(), d + "/out.tar", format="tar", root="")
    names = sorted(tarfile.open(d + "/out.tar").getnames())
    print("exported:", names)
    rc = 1 if ".bzrfoo" not in names else 0
finally:
    shutil.rmtree(d)
print("DEFECT" if rc else "OK"); sys.exit(rc)
