"""BASELINE FINDING (C23): pulling a colocated sibling branch into a checkout
does not update the master.

GenericInterBranch.pull (breezy/branch.py) and InterFromGitBranch.pull
(breezy/git/branch.py) decide "the source IS my master" with

    relpath = self.source.user_transport.relpath(normalized_bound_location)
    source_is_master = relpath == ""

Transport.relpath() ignores URL segment parameters, so for ANY two branches of
the same control directory ("file:///x/" and "file:///x/,branch=feature") the
relpath is "" and the source is taken to be the master.  The master is then not
pulled into; only the local branch of the checkout moves, so after a successful
`pull` the checkout is ahead of its master.

Run:  cd <worktree> && /venv/bin/python pull_from_colocated_sibling_skips_master.py [development-colo|git]
Exit 1 when the violation is present.
"""

import sys, os
sys.path.insert(0, os.path.dirname(os.path.abspath(__file__)))
from C23__prelude import scratch, make_tree, commit_file
from breezy.branch import Branch

rc = 0
for fmt in sys.argv[1:] or ["development-colo", "git"]:
    scratch("c23-colo-")
    mt = make_tree("m", fmt)
    r1 = commit_file(mt, "m", "a", "one")
    master = mt.branch
    feature = mt.controldir.create_branch(name="feature")
    feature.generate_revision_history(r1)
    co = master.create_checkout("co", lightweight=False)
    ft = feature.create_checkout("ft", lightweight=True)
    r2 = commit_file(ft, "ft", "b", "feature work")
    feature = Branch.open(feature.user_url)
    assert feature.last_revision() == r2
    co.pull(feature)          # succeeds
    local = co.branch.last_revision_info()
    mast = Branch.open(master.user_url).last_revision_info()
    print("[%s] bound to %s, pulled from %s" % (fmt, co.branch.get_bound_location(), feature.user_url))
    print("[%s] local %r\n[%s] master %r" % (fmt, local, fmt, mast))
    if local != mast:
        print("[%s] VIOLATION: successful pull in a checkout left local != master" % fmt)
        rc = 1
print("FAIL" if rc else "PASS")
sys.exit(rc)
