"""Baseline: an upgrade whose repository copy fails part-way, followed by a
plain retry of `brz upgrade`, "finishes" successfully with an (almost) empty
repository.

CopyConverter moves .bzr/repository to .bzr/repository.backup, creates the new
repository and copies into it.  If the copy raises, the half-filled new-format
repository stays in place.  On the retry the control dir already has a
repository of the target format, so it is not converted again; the branch and
tree are converted and the upgrade reports success.  The branch tip then names
a revision the repository does not have.  (The data survives only in
.bzr/repository.backup and backup.bzr.~N~.)

Fault injection: InterDifferingSerializer._fetch_batch raises once.

Run: cd <worktree> && /venv/bin/python failed_upgrade_then_retry.py
"""

import os
import sys
import tempfile

sys.path.insert(0, os.getcwd())
os.environ["BRZ_EMAIL"] = "Tester <t@example.com>"
os.environ["BRZ_HOME"] = tempfile.mkdtemp()

import breezy

breezy.initialize()
import breezy.bzr.bzrdir  # noqa
from breezy import branch as _b
from breezy import controldir, upgrade
from breezy.bzr import vf_repository
from breezy.plugin import load_plugins

load_plugins()

d = tempfile.mkdtemp()
os.chdir(d)
t = controldir.ControlDir.create_standalone_workingtree(
    "a", format=controldir.format_registry.make_controldir("pack-0.92")
)
with open("a/f", "w") as f:
    f.write("1\n")
t.add(["f"])
t.commit("one")
tip = t.commit("two")

orig = vf_repository.InterDifferingSerializer._fetch_batch
state = {"failed": False}


def flaky(self, *a, **kw):
    if not state["failed"]:
        state["failed"] = True
        raise OSError("simulated I/O error while copying")
    return orig(self, *a, **kw)


vf_repository.InterDifferingSerializer._fetch_batch = flaky
target = controldir.format_registry.make_controldir("2a")
print("first attempt :", upgrade.upgrade("a", target))
print("second attempt:", upgrade.upgrade("a", target))
vf_repository.InterDifferingSerializer._fetch_batch = orig

b = _b.Branch.open("a")
print("branch tip:", b.last_revision(), "format:", b.repository._format.__class__.__name__)
if b.repository.has_revision(tip):
    print("PASS")
else:
    print("FAIL: retry reported success but the tip revision is not in the repository")
    sys.exit(1)
