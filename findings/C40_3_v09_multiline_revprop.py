"""UNMODIFIED code: a 0.9 bundle cannot carry a revision property whose value
contains a newline (e.g. the "bugs" property written by `commit --fixes A --fixes
B`): the writer emits the second line without the "#" prefix, and reading the
bundle back fails (TestamentMismatch / MalformedHeader).  Format 4 is fine.

Run: cd <worktree> && /venv/bin/python 3_v09_multiline_revprop.py
"""
import os, sys
sys.path.insert(0, os.path.dirname(os.path.abspath(__file__)))
from C40__common import *  # noqa

tree = mktree("src")
with open("src/a", "wb") as f:
    f.write(b"one\n")
tree.add(["a"])
tree.commit("one", rev_id=b"r1",
            revprops={"bugs": "http://bugs/1 fixed\nhttp://bugs/2 fixed"})
print("format 4  :", roundtrip(tree, b"null:", b"r1", "4", name="d4"))
try:
    ok = roundtrip(tree, b"null:", b"r1", "0.9", name="d09")
    print("format 0.9:", ok)
    sys.exit(0 if ok else 1)
except Exception as e:
    print("format 0.9: VIOLATION:", type(e).__name__, str(e).split("\n")[0])
    sys.exit(1)
