"""C17 clause 4 (disjoint files => union, no conflicts), git trees.

THIS adds a new file d/new; OTHER renames directory d -> d2 (touching only
d/e, d/f).  After the merge the file sits on disk as d2/new but the index
still lists d/new (reported missing) and d2/new is unversioned.  No conflict
is reported.  bzr trees give the expected union (d2/e, d2/f, d2/new).
"""
import sys, os
sys.path.insert(0, os.path.dirname(os.path.abspath(__file__)))
from C17__c17lib import make_tree, sprout, merge, versioned, write

bad = []
for fmt in ("bzr", "git"):
    tmp, base = make_tree(fmt, {"d": None, "d/e": b"e1\ne2\n", "d/f": b"f1\n", "a": b"a\n"})
    this = sprout(base, tmp, "this"); other = sprout(base, tmp, "other")
    write(this, "d/new", b"new in this\n"); this.add(["d/new"]); this.commit("add d/new")
    other.rename_one("d", "d2"); other.commit("rename d")
    conflicts = merge(this, other)
    got, extras = versioned(this)
    print(fmt, "conflicts:", conflicts, "tree:", got, "extras:", extras)
    files = {p: k for p, k in got.items() if k != "directory"}
    if conflicts or extras or files != {"a": "file", "d2/e": "file", "d2/f": "file", "d2/new": "file"}:
        bad.append(fmt)
if bad:
    print("VIOLATION: union of disjoint changes not produced for:", bad)
    sys.exit(1)
print("ok")
