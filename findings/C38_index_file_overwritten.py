"""Demonstration for the C38 defect repaired by /repo commit c272ce9 (run with /venv/bin/python).

Before the fix the second write group (same revision offered again) rewrote the only .rix file with an empty index:
`reopened revids: []` and KeyError for rev-1.  After it the first file is kept and the re-opened map still answers.
"""
import breezy.bzr, breezy.git
from breezy.git.cache import IndexGitShaMap, IndexCacheUpdater, BzrGitCache
from breezy.transport import get_transport
from dulwich.objects import Commit, Tree
t = get_transport("memory:///")
t.mkdir("git"); 
def mkcommit():
    c = Commit(); c.tree = Tree().id; c.author = c.committer = b"a <a@b>"; c.author_time = c.commit_time = 0; c.author_timezone = c.commit_timezone = 0; c.message = b"m"
    return c
class R: revision_id = b"rev-1"; parent_ids = ()
m = IndexGitShaMap(t.clone("git"))
cache = BzrGitCache(m, IndexCacheUpdater)
for round_ in (1, 2):
    m.start_write_group()
    u = cache.get_updater(R())
    u.add_object(mkcommit(), {"testament3-sha1": b"x"*40}, None)
    u.finish()
    m.commit_write_group()
    print("round", round_, "files:", sorted(t.clone("git").list_dir(".")), "revids:", list(m.revids()))
m2 = IndexGitShaMap(t.clone("git"))
print("reopened revids:", list(m2.revids()))
try: print(m2.lookup_commit(b"rev-1"))
except KeyError: print("reopened: KeyError for rev-1")
