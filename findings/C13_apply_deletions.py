"""Demonstration for C13/R4 (not part of any check; the checks are static).

A failure while discarding replaced content (mover.apply_deletions) must never
leave the versioning metadata describing the old layout.

Run:  cd <tree> && /venv/bin/python /verif/findings/C13_apply_deletions.py [bzr|git]
Exit 1 + DEFECT when metadata and disk disagree after the failure, else 0 + OK.
"""
import os, shutil, sys, tempfile

sys.path.insert(0, os.getcwd())  # analyse the tree we are run from
import breezy
breezy.initialize(setup_ui=False)
import breezy.bzr, breezy.git  # noqa
from breezy.controldir import ControlDir
from breezy.transform import _FileMover
from breezy.workingtree import WorkingTree


class FailingDeletions(_FileMover):
    def apply_deletions(self):
        raise OSError(13, "injected: cannot discard replaced content")


def main(fmt):
    d = tempfile.mkdtemp(prefix="c13-")
    try:
        from breezy.controldir import format_registry
        wt = ControlDir.create_standalone_workingtree(d, format=format_registry.make_controldir("git" if fmt == "git" else "2a"))
        with open(os.path.join(d, "a"), "w") as f:
            f.write("old\n")
        wt.add(["a"])
        wt.commit("one", committer="t <t@example.com>")
        with wt.lock_tree_write():
            tt = wt.transform()
            try:
                tid = tt.trans_id_tree_path("a")
                tt.delete_contents(tid)
                tt.unversion_file(tid)
                cid = tt.new_file("c", tt.root, [b"new\n"], b"c-id" if fmt != "git" else None)
                if fmt == "git":
                    tt.version_file(cid)
                try:
                    tt.apply(_mover=FailingDeletions())
                    print("apply returned (injection did not fire)")
                    return 2
                except OSError:
                    pass
            finally:
                try:
                    tt.finalize()
                except Exception:
                    pass
        wt2 = WorkingTree.open(d)
        with wt2.lock_read():
            versioned = sorted(p for p, e in wt2.iter_entries_by_dir() if p)
        on_disk = sorted(n for n in os.listdir(d) if not n.startswith("."))
        print("versioned:", versioned, "on disk:", on_disk)
        if versioned != on_disk:
            print("DEFECT: metadata describes", versioned, "but the files are", on_disk)
            return 1
        print("OK")
        return 0
    finally:
        shutil.rmtree(d, ignore_errors=True)


sys.exit(main(sys.argv[1] if len(sys.argv) > 1 else "bzr"))
