"""Demonstration of known finding C26/R4b (not part of any check; checks are static).

Schedule: B examines holder H1 (peek), decides to break it.  Between B's
pre-rename comparison and B's rename(held -> broken.*.tmp), H1 unlocks and H2
acquires.  B's rename therefore moves H2's *live* lock away; B notices the
mismatch and raises LockBreakMismatch — but leaves H2's lock under the tmp
name.  The lock now looks free, H2 still believes it holds it, and a third
locker acquires: two holders, although nobody approved breaking H2's lock.

Run:  cd /repo && /venv/bin/python /verif/findings/C26_force_break_race.py
Exit 1 (prints DEFECT) while the defect is present, 0 (prints OK) otherwise.
"""
import sys

import breezy
breezy.initialize(setup_ui=False)
from breezy.lockdir import LockDir
from breezy.errors import LockBreakMismatch
from breezy.transport import get_transport
from dromedary.memory import MemoryTransport


def main(corrupt=False):
    t = MemoryTransport()
    t.mkdir("lock") if False else None
    h1 = LockDir(t, "lock"); h1.create(); h1.attempt_lock()
    breaker = LockDir(t, "lock")
    examined = breaker.peek()
    h2 = LockDir(t, "lock")
    real_rename = t.rename
    state = {"done": False}

    def racing_rename(a, b):
        if not state["done"] and a.endswith("/held") and "broken." in b:
            state["done"] = True
            t.rename = real_rename
            h1.unlock()          # H1 releases ...
            h2.attempt_lock()    # ... and H2 acquires, just before B's rename
            t.rename = racing_rename
        return real_rename(a, b)

    t.rename = racing_rename
    try:
        breaker.force_break(examined)
        print("force_break returned (unexpected)")
    except LockBreakMismatch:
        pass
    t.rename = real_rename
    h3 = LockDir(t, "lock")
    try:
        h3.attempt_lock()
    except Exception as e:
        print("OK: third locker refused while H2 holds:", type(e).__name__)
        return 0
    print("DEFECT: H2._lock_held =", h2._lock_held, "and a third locker also acquired; peek() =", h3.peek() is not None)
    return 1


sys.exit(main())
