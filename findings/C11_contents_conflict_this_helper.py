"""C11 known finding: after a contents conflict in which both sides still have the file (this side edits it, the other side
replaces it by a symlink) the merger writes foo.BASE, foo.OTHER (versioned) and foo.THIS (unversioned helper).
ContentsConflict.associated_filenames() lists only .BASE and .OTHER, so the recursive add versions foo.THIS - a conflict
helper file.  Found by a third-round seeding agent on the unmodified tree; decided by C11 conflict-helpers-listed.
Run from a checkout root: /venv/bin/python /verif/findings/C11_contents_conflict_this_helper.py  (exit 1 / DEFECT)"""
import os, sys, tempfile, shutil
sys.path.insert(0, os.getcwd())
import breezy
breezy.initialize(setup_ui=False)
import breezy.bzr
from breezy.controldir import ControlDir, format_registry
d = tempfile.mkdtemp()
try:
    wt = ControlDir.create_standalone_workingtree(d + "/a", format=format_registry.make_controldir("2a"))
    open(d + "/a/foo", "w").write("base\n")
    wt.add(["foo"]); wt.commit("base", committer="a <a@b>")
    other = wt.controldir.sprout(d + "/b").open_workingtree()
    # this side: modify; other side: delete
    open(d + "/a/foo", "w").write("this change\n"); wt.commit("modify", committer="a <a@b>")
    os.unlink(d + "/b/foo"); os.symlink("target", d + "/b/foo"); other.commit("kind change", committer="a <a@b>")
    wt.merge_from_branch(other.branch)
    print("conflicts:", [(c.typestring, c.path) for c in wt.conflicts()])
    print("files on disk:", sorted(f for f in os.listdir(d + "/a") if f != ".bzr"))
    with wt.lock_read():
        print("versioned before add:", sorted(wt.all_versioned_paths()))
        helpers = set()
        for c in wt.conflicts():
            helpers.update(c.associated_filenames())
        print("associated_filenames:", sorted(helpers))
    added, ignored = wt.smart_add([d + "/a"])
    print("smart_add('.') added:", added)
    rc = 1 if any(p.endswith((".THIS", ".BASE", ".OTHER")) for p in added) else 0
finally:
    shutil.rmtree(d)
print("DEFECT" if rc else "OK")
sys.exit(rc)
