"""BASELINE FINDING 7 (unmodified code): GitPreviewTree.iter_child_entries()
yields the *directory's own* entry once per child instead of the children.

breezy/git/transform.py, GitPreviewTree.iter_child_entries:
    for _child_trans_id in self._all_children(trans_id):
        entry, is_versioned = self._transform.final_entry(trans_id)   # <- parent id
The working tree after apply() lists the real children.

Run: cd <worktree> && /venv/bin/python bf7_git_preview_iter_child_entries_yields_parent.py
"""

import os
import sys

sys.path.insert(0, os.path.dirname(os.path.abspath(__file__)))
from C14__common import make_tree, reopen  # noqa: E402

wt, base = make_tree("git", {"dir/x": b"x\n", "dir/y": b"y\n"})
tt = wt.transform()
try:
    d = tt.trans_id_tree_path("dir")
    tt.new_file("z", d, [b"z\n"], b"z-id")
    assert tt.find_raw_conflicts() == []
    preview = sorted((e.name, e.kind) for e in tt.get_preview_tree().iter_child_entries("dir"))
    tt.apply()
finally:
    tt.finalize()
wt2 = reopen(wt)
with wt2.lock_read():
    applied = sorted((e.name, e.kind) for e in wt2.iter_child_entries("dir"))
print("preview children of 'dir':", preview)
print("applied children of 'dir':", applied)
if preview != applied:
    print("VIOLATION (C14): preview tree lists different children than the applied tree")
    sys.exit(1)
print("no violation observed")
