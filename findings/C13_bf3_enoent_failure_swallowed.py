"""Baseline finding 3 (unmodified code): a rename that fails with ENOENT during
apply() is silently ignored, so apply() "succeeds", the metadata describes the
transformed layout, but the file never arrived.

_apply_removals() and _apply_insertions() (bzr and git) swallow
TransformRenameFailed when errno == ENOENT ("we may be renaming a dangling
inventory id").  rename(2) also returns ENOENT when a *directory component of
the destination* has disappeared -- e.g. another program removes an (empty)
directory of the tree between the conflict check and the insertion phase, or
a network file system loses a path.  That real failure is then treated like
the harmless dangling-id case: no rollback, the inventory / index is updated,
and the content stays behind in .bzr/checkout/limbo (ImmortalLimbo).

The script lets a concurrent actor remove the empty versioned directory
``sub`` right before the transform moves a new file into it.

Run:  cd <worktree> && /venv/bin/python bf3_enoent_failure_swallowed.py
Exit 1 + message when the violation is present, 0 otherwise.
"""

import os
import shutil
import sys
import tempfile

sys.path.insert(0, os.getcwd())

import breezy

breezy.initialize()
import breezy.bzr  # noqa: E402,F401
import breezy.git  # noqa: E402,F401
from breezy import trace, ui  # noqa: E402
from breezy.controldir import ControlDir, format_registry  # noqa: E402
from breezy.workingtree import WorkingTree  # noqa: E402

ui.ui_factory = ui.SilentUIFactory()
trace.be_quiet(True)
os.environ.setdefault("BRZ_EMAIL", "Tester <tester@example.com>")


def run(fmt):
    base = tempfile.mkdtemp(prefix="c13-bf3-")
    try:
        root = os.path.join(base, "t")
        wt = ControlDir.create_standalone_workingtree(
            root, format=format_registry.make_controldir(fmt)
        )
        os.mkdir(os.path.join(root, "sub"))
        with open(os.path.join(root, "sub", "keep"), "w") as f:
            f.write("keep\n")
        with open(os.path.join(root, "old"), "w") as f:
            f.write("precious content\n")
        wt.add(["sub", "sub/keep", "old"])
        wt.commit("one")

        wt = WorkingTree.open(root)
        real_rename = os.rename

        def racing_rename(src, dst, *a, **kw):
            if dst == os.path.join(root, "sub", "moved"):
                # a concurrent actor removes the directory just now
                shutil.rmtree(os.path.join(root, "sub"))
            return real_rename(src, dst, *a, **kw)

        os.rename = racing_rename
        err = None
        try:
            with wt.transform() as tt:
                sub = tt.trans_id_tree_path("sub")
                tt.adjust_path("moved", sub, tt.trans_id_tree_path("old"))
                tt.apply()
        except BaseException as e:  # noqa: BLE001
            err = type(e).__name__
        finally:
            os.rename = real_rename

        wt = WorkingTree.open(root)
        with wt.lock_read():
            is_versioned = wt.is_versioned("sub/moved")
            old_versioned = wt.is_versioned("old")
        on_disk_new = os.path.exists(os.path.join(root, "sub", "moved"))
        on_disk_old = os.path.exists(os.path.join(root, "old"))
        print(
            "%s: apply outcome: %s; 'old' on disk: %s versioned: %s; "
            "'sub/moved' on disk: %s versioned: %s"
            % (fmt, err or "no error from apply()", on_disk_old, old_versioned,
               on_disk_new, is_versioned)
        )
        # neither the old state (old present + versioned) nor the new one
        return is_versioned and not on_disk_new and not on_disk_old
    finally:
        shutil.rmtree(base, ignore_errors=True)


if __name__ == "__main__":
    bad = [fmt for fmt in ("2a", "git") if run(fmt)]
    if bad:
        print(
            "VIOLATION: the rename into the tree failed (ENOENT) but was ignored: "
            "metadata says 'sub/moved' exists, the file is in neither place "
            "(formats: %s)" % ", ".join(bad)
        )
        sys.exit(1)
    print("no violation")
    sys.exit(0)
