"""Baseline finding (unmodified code): SearchResult.refine() only adds the *heads*
that were satisfied to the exclude set.  When the first (stacked) repository
satisfies a revision that is not a head of the search and whose child is NOT
satisfied (repo1 holds tip, feat and base but not mid; tip -> (mid, feat),
mid -> base, feat -> base), the refined recipe sent to the fallback
repository starts at mid, is not told to stop at base, so the server walks
base again: count check would fail (3 found, count 2) and base is transferred
twice.  Get_stream uses discard_excess=True so nothing complains.

Exit 1 when the violation is present.
"""
import os
import sys

sys.path.insert(0, os.getcwd())

import breezy
import breezy.bzr  # noqa: F401
from vcsgraph.graph import DictParentsProvider, Graph
from breezy.bzr import remote, vf_search
from breezy.revision import NULL_REVISION

FULL = {
    b"tip": (b"mid", b"feat"),
    b"mid": (b"base",),
    b"feat": (b"base",),
    b"base": (b"root",),
    b"root": (NULL_REVISION,),
}


class FakeRevision:
    def __init__(self, parent_ids):
        self.parent_ids = [p for p in parent_ids if p != NULL_REVISION]


class FakeSerializer:
    def read_revision_from_string(self, data):
        return FakeRevision(FULL[data])


class FakeFormat:
    _revision_serializer = FakeSerializer()


class FakeRepo:
    def __init__(self, name, revs):
        self.name = name
        self.parent_map = {r: FULL[r] for r in revs}
        self._format = FakeFormat()


class FakeContent:
    def __init__(self, revid):
        self.key = (revid,)

    def get_bytes_as(self, kind):
        return self.key[-1]


def server_walk(repo, recipe):
    """What SmartServerRepositoryRequest.recreate_search_from_recipe does."""
    _, start, exclude, count = recipe
    g = Graph(DictParentsProvider(repo.parent_map))
    s = g._make_breadth_first_searcher(set(start))
    while True:
        try:
            next_revs = next(s)
        except StopIteration:
            break
        s.stop_searching_any(set(exclude).intersection(next_revs))
    return set(s.get_state()[2])


requests = []
problems = []


class Source(remote.RemoteStreamSource):
    def _get_stream(self, repo, search):
        kind_, start_, exclude_, count_ = search.get_recipe()
        recipe = (kind_, set(start_), set(exclude_), count_)
        walked = server_walk(repo, recipe)
        requests.append((repo.name, recipe, walked))
        yield "revisions", iter([FakeContent(r) for r in sorted(walked)])


def main():
    repo1 = FakeRepo("repo1", [b"tip", b"feat", b"base"])
    repo2 = FakeRepo("repo2", [b"mid", b"base", b"root"])
    src = Source(repo1, None)
    search = vf_search.SearchResult(
        {b"tip"}, {NULL_REVISION}, 5, set(FULL)
    )
    received = []
    for kind, substream in src.missing_parents_chain(search, [repo1, repo2]):
        for content in substream:
            received.append(content.key[-1])
    for name, recipe, walked in requests:
        print("%s: start=%r exclude=%r count=%r -> server walks %r" % (
            name, sorted(recipe[1]), sorted(recipe[2]), recipe[3], sorted(walked)))
    print("received:", received)
    # Each refined request is for what is still outstanding: the server of
    # the LAST repository in the chain must find exactly `count` keys.
    name, recipe, walked = requests[-1]
    if len(walked) != recipe[3]:
        problems.append(
            "%s: server walk finds %d keys %r but recipe count is %d"
            % (name, len(walked), sorted(walked), recipe[3]))
    dups = sorted({r for r in received if received.count(r) > 1})
    if dups:
        problems.append("revisions transferred more than once: %r" % dups)
    if set(received) != set(FULL):
        problems.append("missing revisions: %r" % sorted(set(FULL) - set(received)))
    if problems:
        for p in problems:
            print("VIOLATION:", p)
        print("FAIL")
        return 1
    print("PASS")
    return 0


if __name__ == "__main__":
    sys.exit(main())
