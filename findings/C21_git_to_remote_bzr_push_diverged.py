"""Baseline finding (unmodified code): pushing from a git branch into a bzr
branch that is accessed over the smart server (RemoteBranch) WITHOUT
--overwrite silently replaces a diverged target tip.

InterFromGitBranch._update_revisions -> git.branch._update_tip(overwrite=False)
relies on target.generate_revision_history(revid, last_rev, other_branch) to
raise DivergedBranches when last_rev is not an ancestor of revid.
RemoteBranch.generate_revision_history ignores last_rev on >=1.6 servers: it
calls Branch.set_last_revision_ex with allow_diverged=1,
allow_overwrite_descendant=1.

Run:  cd <worktree> && /venv/bin/python <this file>
exit 1 + message when the violation is present.
"""

import os
import sys
import unittest

sys.path.insert(0, os.getcwd())

import breezy  # noqa: E402
import breezy.bzr  # noqa: E402, F401
import breezy.git  # noqa: E402, F401
from breezy import branch as _mod_branch  # noqa: E402
from breezy import errors  # noqa: E402
from breezy.tests import TestCaseWithTransport, test_server  # noqa: E402

VIOLATIONS = []


class Repro(TestCaseWithTransport):
    def _run_case(self, open_target):
        # common history in git
        gtree = self.make_branch_and_tree("git", format="git")
        self.build_tree_contents([("git/a", b"1\n")])
        gtree.add(["a"])
        gtree.commit("base")
        # bzr copy of it
        btree = self.make_branch_and_tree("bzr-" + open_target.__name__, format="2a")
        btree.pull(gtree.branch)
        self.assertEqual(btree.branch._format.network_name()[:6], b"Bazaar")
        self.assertEqual(btree.last_revision(), gtree.last_revision())
        base = btree.last_revision()
        # diverge
        # (a new file rather than a modification: importing a git commit
        # that modifies a file currently trips an unrelated TypeError in
        # breezy/git/fetch.py:import_git_blob)
        self.build_tree_contents([("git/gitside", b"git side\n")])
        gtree.add(["gitside"])
        git_tip = gtree.commit("git side")
        self.build_tree_contents([(btree.basedir + "/a", b"bzr side\n")])
        bzr_tip = btree.commit("bzr side")
        self.assertNotEqual(base, bzr_tip)
        target = open_target(btree)
        before = target.last_revision_info()
        raised = None
        try:
            gtree.branch.push(target)
        except errors.DivergedBranches as e:
            raised = e
        after = _mod_branch.Branch.open(btree.branch.base).last_revision_info()
        return before, after, raised, git_tip

    def test_local_target(self):
        def local(btree):
            return _mod_branch.Branch.open(btree.branch.base)

        before, after, raised, _ = self._run_case(local)
        self.assertIsNotNone(raised)
        self.assertEqual(before, after)

    def test_remote_target(self):
        def remote(btree):
            server = test_server.SmartTCPServer_for_testing()
            self.start_server(server, self.get_vfs_only_server())
            url = server.get_url() + os.path.basename(btree.basedir)
            b = _mod_branch.Branch.open(url)
            self.assertEqual(type(b).__name__, "RemoteBranch")
            return b

        before, after, raised, git_tip = self._run_case(remote)
        if raised is None or before != after:
            VIOLATIONS.append(
                "push git -> bzr smart-server branch without overwrite: "
                f"diverged target tip {before} was replaced by {after} "
                f"(raised={raised!r})"
            )


if __name__ == "__main__":
    breezy.initialize()
    suite = unittest.defaultTestLoader.loadTestsFromTestCase(Repro)
    res = unittest.TextTestRunner(verbosity=1).run(suite)
    if VIOLATIONS:
        for v in VIOLATIONS:
            print("VIOLATION:", v)
        sys.exit(1)
    if not res.wasSuccessful():
        print("script error (not a finding)")
        sys.exit(2)
    print("PASS: no violation")
