"""C42: the zip exporter ignores the executable bit (dir and tar exporters honour it).
Run from a checkout root: /venv/bin/python /verif/findings/C42_zip_executable_bit.py  (exit 0 = bit preserved)"""
import io
import os
import shutil
import sys
import tarfile
import tempfile
import zipfile

sys.path.insert(0, os.getcwd())
import breezy  # noqa: E402

breezy.initialize(setup_ui=False)
import breezy.bzr  # noqa: E402,F401
from breezy.controldir import ControlDir  # noqa: E402
from breezy.export import export  # noqa: E402

tmp = tempfile.mkdtemp()
bad = 0
try:
    from breezy.controldir import format_registry

    wt = ControlDir.create_standalone_workingtree(os.path.join(tmp, "t"), format=format_registry.make_controldir("2a"))
    for name, mode in (("run.sh", 0o755), ("data.txt", 0o644)):
        p = os.path.join(tmp, "t", name)
        with open(p, "w") as f:
            f.write("x\n")
        os.chmod(p, mode)
    wt.add(["run.sh", "data.txt"])
    wt.commit("c", committer="Demo <demo@example.com>")
    tree = wt.basis_tree()
    z = os.path.join(tmp, "o.zip")
    t = os.path.join(tmp, "o.tar")
    export(tree, z, format="zip", root="r")
    export(tree, t, format="tar", root="r")
    zi = {i.filename: (i.external_attr >> 16) & 0o777 for i in zipfile.ZipFile(z).infolist()}
    ti = {m.name: m.mode for m in tarfile.open(t).getmembers()}
    print("zip:", {k: oct(v) for k, v in zi.items()})
    print("tar:", {k: oct(v) for k, v in ti.items()})
    for arch, modes in (("zip", zi), ("tar", ti)):
        if not modes["r/run.sh"] & 0o100:
            print(f"FAIL {arch}: executable file exported without the executable bit")
            bad += 1
        if modes["r/data.txt"] & 0o100:
            print(f"FAIL {arch}: plain file exported executable")
            bad += 1
finally:
    shutil.rmtree(tmp)
print("PASS" if not bad else f"{bad} failures")
sys.exit(1 if bad else 0)
