"""Demonstration for known findings C38/missing-override (not part of any check).

The same cache update (one revision with a commit, a tree and a blob) is fed to
every SHA-map backend; lookup_tree_id must give the same answer everywhere.

Run:  cd /repo && /venv/bin/python /verif/findings/C38_lookup_tree_id.py
"""
import os, sys
sys.path.insert(0, os.getcwd())
import breezy
breezy.initialize(setup_ui=False)
from dulwich.objects import Blob, Commit, Tree
from breezy.git import cache as C
from breezy.revision import Revision


def objs():
    b = Blob.from_string(b"hello\n")
    t = Tree(); t.add(b"f", 0o100644, b.id)
    c = Commit(); c.tree = t.id; c.author = c.committer = b"a <a@b>"; c.commit_time = c.author_time = 0
    c.commit_timezone = c.author_timezone = 0; c.message = b"m"
    return b, t, c


class Rev:
    revision_id = b"rev-1"; parent_ids = []


answers = {}
from dromedary.memory import MemoryTransport
_t = MemoryTransport(); _t.mkdir("index")
backends = {"dict": C.DictBzrGitCache(), "index": C.IndexBzrGitCache(_t)}
try:
    import sqlite3  # noqa
    backends["sqlite"] = C.SqliteBzrGitCache(":memory:")
except Exception as e:  # pragma: no cover
    print("sqlite backend unavailable:", e)
for name, cache in backends.items():
    b, t, c = objs()
    cache.idmap.start_write_group()
    u = cache.get_updater(Rev())
    u.add_object(b, (b"file-id", b"rev-1"), b"f")
    u.add_object(t, (b"root-id", b"rev-1"), b"")
    u.add_object(c, {"testament3-sha1": b"0" * 40}, None)
    u.finish()
    cache.idmap.commit_write_group()
    try:
        answers[name] = ("value", cache.idmap.lookup_tree_id(b"root-id", b"rev-1"))
    except NotImplementedError:
        answers[name] = ("NotImplementedError",)
    except KeyError:
        answers[name] = ("KeyError",)
print(answers)
if len(set(answers.values())) > 1:
    print("DEFECT: backends disagree on lookup_tree_id for the same update history")
    sys.exit(1)
print("OK")
