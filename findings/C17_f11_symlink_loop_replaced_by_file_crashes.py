"""C17 clause 2 (kind changes), bzr and git trees, unusual input.

The tree contains a symlink that cannot be resolved because it loops
(l -> l; a chain a -> b -> a behaves the same).  OTHER replaces it by a
regular file, THIS is unchanged.  DiskTreeTransform.create_file() calls
_set_mode(), which os.stat()s the *old* path following symlinks and only
tolerates FileNotFoundError/NotADirectoryError, so the merge dies with
OSError(ELOOP, 'Too many levels of symbolic links').  A dangling link is fine.
"""
import sys, os, traceback
sys.path.insert(0, os.path.dirname(os.path.abspath(__file__)))
from C17__c17lib import make_tree, sprout, merge, versioned, write

bad = []
for fmt in ("bzr", "git"):
    tmp, base = make_tree(fmt, {"a": b"a\n"})
    os.symlink("l", base.abspath("l")); base.add(["l"]); base.commit("add looping link")
    this = sprout(base, tmp, "this"); other = sprout(base, tmp, "other")
    os.unlink(other.abspath("l")); write(other, "l", b"now a regular file\n")
    if fmt == "git":
        other.unversion(["l"]); other.add(["l"])
    other.commit("link becomes file")
    try:
        conflicts = merge(this, other)
    except Exception as e:
        print(fmt, "merge raised", repr(e))
        bad.append(fmt)
        continue
    got, extras = versioned(this)
    print(fmt, "conflicts:", conflicts, "tree:", got, "extras:", extras)
    if conflicts or got.get("l") != "file":
        bad.append(fmt)
if bad:
    print("VIOLATION: merging a link->file kind change crashed/failed for:", bad)
    sys.exit(1)
print("ok")
