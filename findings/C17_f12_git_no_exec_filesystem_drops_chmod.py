"""C17 clause 2 (executable bits), git trees on a filesystem without x bits.

Simulated by making THIS._supports_executable() return False (vfat, or
core.filemode=false style checkouts).  OTHER flips the x bit of two files,
THIS == BASE.  GitTreeTransform skips the chmod (correct) but
_apply_index_changes() ignores the executability it is handed and
_index_add_entry() rebuilds the mode from os.stat(), so the index keeps the
old modes: is_executable() still reports the BASE values.  bzr trees record
the bit in the inventory and get it right.
"""
import sys, os
sys.path.insert(0, os.path.dirname(os.path.abspath(__file__)))
from C17__c17lib import make_tree, sprout, merge

bad = []
for fmt in ("bzr", "git"):
    tmp, base = make_tree(fmt, {"a": b"a\n", "b": ("x", b"b\n")})
    this = sprout(base, tmp, "this"); other = sprout(base, tmp, "other")
    os.chmod(other.abspath("a"), 0o755); os.chmod(other.abspath("b"), 0o644); other.commit("chmod")
    this._supports_executable = lambda: False
    conflicts = merge(this, other)
    with this.lock_read():
        a, b = this.is_executable("a"), this.is_executable("b")
    print(fmt, "conflicts:", conflicts, "a executable:", a, "b executable:", b)
    if conflicts or a is not True or b is not False:
        bad.append(fmt)
if bad:
    print("VIOLATION: OTHER's executable-bit changes were not merged for:", bad)
    sys.exit(1)
print("ok")
