"""WorkingTree.unlock() on a tree that is not locked: refused, but the branch's independent lock is released."""
import os, tempfile
import breezy.bzr, breezy
from breezy import controldir, errors, tests
breezy.initialize()
res = []
for fmt in ("2a", "knit"):
    os.chdir(tempfile.mkdtemp())
    wt = controldir.ControlDir.create_standalone_workingtree("t", format=controldir.format_registry.make_controldir(fmt))
    br = wt.branch
    br.lock_write()
    try:
        wt.unlock(); r = "not refused"
    except errors.LockNotHeld:
        r = "refused"
    still = br.is_locked()
    print(type(wt).__name__, "unmatched unlock", r, "; branch still locked:", still)
    res.append(still)
    if still: br.unlock()
print("PASS" if all(res) else "FAIL: an unmatched (refused) tree unlock released the branch's lock")
