"""Baseline finding (C15): "shelve all" of {delete a; rename b -> a} corrupts the tree.

Working tree change: versioned file 'a' is removed and 'b' is renamed to 'a'.
ShelfCreator.shelve_deletion() sees that *a* file exists at path 'a' in the
working tree and assumes it is the (unversioned-but-kept) deleted file, so it
reuses that path's transform id -- which really belongs to file-id b.  After
"shelve all" the tree should equal the basis; instead file-id b is versioned at
'a' with no file on disk, file-id a sits at 'b' holding b's text, and a's
content is gone.
Run: cd <worktree> && /venv/bin/python delete_and_rename_over_corrupts_tree.py ; exits 1 when present.
"""
import os, sys
sys.path.insert(0, os.path.dirname(os.path.abspath(__file__)))
from _common import *

tree, d = make_tree({"a": b"content of a\n", "b": b"content of b\n"})
basis_state = snapshot(tree)
tree.remove(["a"], keep_files=False)
tree.rename_one("b", "a")
before = snapshot(tree)
try:
    sid = shelve_all(tree)
except Exception as e:  # noqa: BLE001
    print("VIOLATION PRESENT: shelve all raised %r" % (e,))
    sys.exit(1)
tree = workingtree.WorkingTree.open(d)
after = snapshot(tree)
if after != basis_state:
    print("VIOLATION PRESENT: after shelving every change the tree is not the basis tree")
    print("  basis       : %r" % (basis_state,))
    print("  after shelve: %r" % (after,))
    print("  pending     : %r" % (pending(tree),))
    sys.exit(1)
unshelve(tree, sid)
if snapshot(tree) != before:
    print("VIOLATION PRESENT: round trip differs: %r != %r" % (snapshot(tree), before))
    sys.exit(1)
print("ok: not reproduced")
