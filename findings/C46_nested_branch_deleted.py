"""Baseline finding (unmodified code): clean-tree deletes nested branches.

Case A (git tree, nested bzr branch): GitWorkingTree.extras() walks into every
  unversioned directory and returns the files it finds; only directories that
  contain ``.git`` are pruned.  A nested *bzr* branch (top level, inside a
  versioned directory, or inside an unknown directory) is therefore returned
  file by file -- including everything below its ``.bzr`` -- and since
  clean_tree._filter_out_nested_controldirs only looks at *directories*, all of
  it is deleted.
Case B (bzr tree, nested branch below an unknown directory): only the unknown
  top directory is probed for a control dir, so ``unk/nested/.bzr`` (or .git)
  is removed together with ``unk``.  (Acknowledged by a FIXME comment in
  clean_tree._filter_out_nested_controldirs.)

Exits 1 and prints the lost paths when the violation is observed.
Run as: cd <worktree> && /venv/bin/python nested_branch_deleted.py
"""
import os, shutil, sys, tempfile

sys.path.insert(0, os.getcwd())
base = tempfile.mkdtemp(prefix="c46-base-")
os.environ["BRZ_HOME"] = os.environ["HOME"] = os.path.join(base, "home")
os.environ["BRZ_EMAIL"] = "Demo <demo@example.com>"
os.mkdir(os.environ["BRZ_HOME"])
import breezy
breezy.initialize()
import breezy.bzr, breezy.git  # noqa
from breezy import clean_tree, trace
from breezy.controldir import ControlDir, format_registry
trace.be_quiet(True)
F = lambda n: format_registry.make_controldir({"bzr": "2a", "git": "git"}[n])


def snap(root):
    out = set()
    for d, dn, fn in os.walk(root):
        for n in dn + fn:
            out.add(os.path.relpath(os.path.join(d, n), root))
    return out


bad = []
try:
    for outer, inner, places in [
        ("git", "bzr", ["nested", "vdir/nested", "unk/nested"]),
        ("bzr", "bzr", ["unk/nested"]),
        ("bzr", "git", ["unk/nested"]),
    ]:
        work = os.path.join(base, outer + "-" + inner)
        t = ControlDir.create_standalone_workingtree(work, format=F(outer))
        root = t.basedir.rstrip("/")
        os.mkdir(root + "/vdir")
        open(root + "/vdir/f", "w").write("x")
        t.add(["vdir", "vdir/f"])
        t.commit("c")
        for p in places:
            os.makedirs(root + "/" + p)
            nt = ControlDir.create_standalone_workingtree(root + "/" + p, format=F(inner))
            open(root + "/" + p + "/nf", "w").write("y")
            nt.add(["nf"])
            nt.commit("n")
        before = snap(root)
        clean_tree.clean_tree(root, unknown=True, no_prompt=True)
        lost = sorted(before - snap(root))
        for p in places:
            gone = [l for l in lost if l == p or l.startswith(p + "/")]
            if gone:
                bad.append("%s tree, nested %s branch at %s: %d paths deleted, e.g. %s"
                           % (outer, inner, p, len(gone), gone[:4]))
finally:
    shutil.rmtree(base, ignore_errors=True)
if bad:
    print("VIOLATION (unmodified code):")
    for b in bad:
        print("  " + b)
    sys.exit(1)
print("no violation observed")
