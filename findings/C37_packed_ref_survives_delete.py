"""Demonstration for the C37 defect repaired by /repo commit 9dc1c40 (run with /venv/bin/python).

Before the fix: `remove_if_equals -> True` followed by `after: ref still resolves to aaaa…` (the stale packed value).
"""
import breezy.bzr, breezy.git
from breezy.git.transportgit import TransportRefsContainer
from breezy.transport import get_transport
t = get_transport("memory:///")
A, B = b"a" * 40, b"b" * 40
t.put_bytes("packed-refs", b"# pack-refs with: peeled fully-peeled sorted \n" + A + b" refs/heads/x\n")
t.mkdir("refs"); t.mkdir("refs/heads")
t.put_bytes("refs/heads/x", B + b"\n")
refs = TransportRefsContainer(t)
print("before:", refs.read_loose_ref(b"refs/heads/x"), "packed:", TransportRefsContainer(t).get_packed_refs())
ok = refs.remove_if_equals(b"refs/heads/x", B)
print("remove_if_equals ->", ok)
fresh = TransportRefsContainer(t)
try:
    print("after: ref still resolves to", fresh[b"refs/heads/x"])
except KeyError:
    print("after: ref is gone")
