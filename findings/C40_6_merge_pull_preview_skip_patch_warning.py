"""UNMODIFIED code: `brz merge DIRECTIVE` warns "Preview patch does not match
changes" when the directive's preview was tampered with, but only on the plain
merge path (cmd_merge._do_merge).  With --preview, or with --pull when the merge
is a fast-forward, the 'failed' verification status is dropped silently.

Run: cd <worktree> && /venv/bin/python 6_merge_pull_preview_skip_patch_warning.py
"""
import os, subprocess, sys
sys.path.insert(0, os.path.dirname(os.path.abspath(__file__)))
worktree = os.getcwd()
from C40__common import *  # noqa
from breezy import merge_directive

target = mktree("target")
with open("target/a", "wb") as f:
    f.write(b"one\n")
target.add(["a"])
target.commit("base", rev_id=b"base")
source = target.controldir.sprout("source").open_workingtree()
with open("source/a", "wb") as f:
    f.write(b"one\ntwo\n")
source.commit("change", rev_id=b"change")
md = merge_directive.MergeDirective2.from_objects(
    repository=source.branch.repository, revision_id=b"change", time=0, timezone=0,
    target_branch=target.branch.base, local_target_branch=target.branch)
md.patch = b"asdf\n"
with open("directive", "wb") as f:
    f.writelines(md.to_lines())
env = dict(os.environ, PYTHONPATH=worktree)
bad = 0
for opts in ([], ["--preview"], ["--pull"]):
    wt = "t" + "".join(opts).replace("-", "")
    target.controldir.sprout(wt)
    p = subprocess.run([sys.executable, "-m", "breezy", "merge", "-d", wt, "directive"] + opts,
                       env=env, capture_output=True, text=True)
    warned = "Preview patch does not match changes" in p.stderr
    print("merge %-10s warned=%s" % (" ".join(opts), warned))
    bad += not warned
sys.exit(1 if bad else 0)
