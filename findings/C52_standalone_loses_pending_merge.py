"""Baseline: `reconfigure --standalone` on a tree (in a shared repository) that
has an uncommitted pending merge only fetches the branch tip into the new
standalone repository.  The pending-merge revision (a parent of the working
tree) and revisions only reachable from tags are left behind, so the tree's
pending merge turns into a ghost: the merged revision's testament can no longer
be produced from the reconfigured location.

Run: cd <worktree> && /venv/bin/python standalone_loses_pending_merge.py
"""
import os
import sys
import tempfile

os.environ["BRZ_EMAIL"] = "Tester <t@example.com>"
os.environ["BRZ_HOME"] = tempfile.mkdtemp()
sys.path.insert(0, os.getcwd())
import breezy

breezy.initialize()
import breezy.bzr.bzrdir  # noqa
from breezy import controldir, reconfigure, workingtree
from breezy.plugin import load_plugins

load_plugins()

d = tempfile.mkdtemp()
os.chdir(d)
fmt = controldir.format_registry.make_controldir("2a")
repo = controldir.ControlDir.create("repo", format=fmt).create_repository(shared=True)
repo.set_make_working_trees(True)
a = controldir.ControlDir.create_branch_convenience("repo/a", format=fmt).controldir.open_workingtree()
with open("repo/a/f", "w") as f:
    f.write("1\n")
a.add(["f"])
a.commit("base")
b = a.controldir.sprout("repo/b").open_workingtree()
with open("repo/b/g", "w") as f:
    f.write("g\n")
b.add(["g"])
merged = b.commit("side")
a.merge_from_branch(b.branch)
assert a.get_parent_ids()[1] == merged

reconfigure.Reconfigure.to_standalone(a.controldir).apply()

t = workingtree.WorkingTree.open("repo/a")
parents = t.get_parent_ids()
ok = True
if parents[1:] != [merged]:
    print("pending merge list changed:", parents)
    ok = False
if not t.branch.repository.has_revision(merged):
    print("FAIL: pending merge revision %r is no longer available after "
          "reconfigure --standalone" % merged)
    ok = False
print("PASS" if ok else "FAIL")
sys.exit(0 if ok else 1)
