"""Baseline finding (C08 mechanism "missing parent inventory" over the smart
server; an availability failure, not silent damage).

Fetching into a stacked 2a branch asks the source for the inventories of the
parents at the edge of what was fetched (StreamSink -> missing keys ->
StreamSource.get_stream_for_missing_keys).  When the source is a RemoteRepository
that request goes out as the `Repository.get_stream_for_missing_keys` verb, and
the server answers it from a repository object opened WITHOUT its fallback
repositories.  If the source branch is itself stacked and the wanted parent
inventory lives in the source's fallback, the server silently treats it as a
ghost and sends nothing.  The target then refuses the whole fetch:

    BzrCheckError: Cannot add revision(s) to repository: missing referenced
    chk root keys: [...]

Scenario:
  server/trunk    r1 -- r2 -- r3
  server/feature  stacked on ../trunk, one revision c1 on top of r3
  client/lbase    mirror of trunk at r1
  client/local    stacked on client/lbase (empty)
  `brz pull bzr://.../server/feature` in client/local has to fetch r2, r3, c1;
  the edge parent is r1, whose inventory the source has only in trunk.

The same pull works when the missing keys are streamed through the VFS
(RemoteStreamSource._get_real_stream_for_missing_keys), where the real
repository has its fallbacks attached; set FORCE_VFS=1 to see that.

Run as:  cd <worktree> && /venv/bin/python pull_into_stacked_from_stacked_smart_source_fails.py
Exit 1 when the pull fails (or leaves an incomplete stacked repository).
"""

import os
import shutil
import sys
import tempfile

sys.path.insert(0, os.getcwd())
os.environ["BRZ_EMAIL"] = "Demo <demo@example.com>"
_home = tempfile.mkdtemp(prefix="c08-bf-home-")
os.environ["BRZ_HOME"] = _home
os.environ["HOME"] = _home

import breezy  # noqa: E402
import breezy.bzr  # noqa: E402, F401
from breezy import branch as _mod_branch  # noqa: E402
from breezy import controldir, trace, ui  # noqa: E402
from breezy.bzr import remote  # noqa: E402
from breezy.tests import test_server  # noqa: E402

breezy.initialize()
ui.ui_factory = ui.SilentUIFactory()
trace.be_quiet(True)

if os.environ.get("FORCE_VFS"):
    remote.RemoteStreamSource.get_stream_for_missing_keys = (
        remote.RemoteStreamSource._get_real_stream_for_missing_keys
    )

FMT = controldir.format_registry.make_controldir("2a")


def write(path, text):
    with open(path, "w") as f:
        f.write(text)


def main():
    tmp = tempfile.mkdtemp(prefix="c08-bf-")
    os.chdir(tmp)
    server = test_server.SmartTCPServer_for_testing()
    rc = 0
    try:
        os.mkdir("server")
        os.mkdir("client")
        trunk = controldir.ControlDir.create_standalone_workingtree(
            "server/trunk", format=FMT
        )
        names = ["f%03d" % i for i in range(50)]
        for n in names:
            write("server/trunk/" + n, ("content of %s\n" % n) * 5)
        trunk.add(names)
        r1 = trunk.commit("one")
        lbase = trunk.branch.controldir.sprout(
            "client/lbase", revision_id=r1
        ).open_branch()
        write("server/trunk/f001", "changed\n" * 40)
        trunk.commit("two")
        write("server/trunk/f002", "changed again\n" * 40)
        trunk.commit("three")
        fdir = trunk.branch.controldir.sprout("server/feature", stacked=True)
        fdir.open_branch().set_stacked_on_url("../trunk")
        ftree = fdir.open_workingtree()
        write("server/feature/f003", "feature change\n" * 30)
        c1 = ftree.commit("feature one")

        local = lbase.controldir.sprout(
            "client/local", stacked=True, create_tree_if_local=False
        ).open_branch()

        server.start_server()
        source = _mod_branch.Branch.open(server.get_url() + "server/feature")
        try:
            local.pull(source)
        except Exception as e:
            print("VIOLATION: pull into the stacked branch failed: %s: %s"
                  % (e.__class__.__name__, str(e)[:400]))
            rc = 1
        else:
            local = _mod_branch.Branch.open("client/local")
            with local.lock_read():
                tree = local.basis_tree()
                n = 0
                for path, ie in tree.iter_entries_by_dir():
                    if ie.kind == "file":
                        tree.get_file_text(path)
                        n += 1
                if local.last_revision() != c1 or n != len(names):
                    print("VIOLATION: pulled tip is wrong or unreadable")
                    rc = 1
                else:
                    print("ok: pulled and read %d files at the new tip" % n)
    finally:
        server.stop_server()
        os.chdir("/")
        shutil.rmtree(tmp, ignore_errors=True)
        shutil.rmtree(_home, ignore_errors=True)
    return rc


if __name__ == "__main__":
    sys.exit(main())
