"""Aside (unmodified code, NOT a C05 violation): the smart server verb
Repository.pack does nothing for a plain `brz pack bzr://...`.

SmartServerRepositoryPack.do_body() does
    hint = None if body_bytes == "" else body_bytes.splitlines()
body_bytes is bytes, so the comparison with "" is always False: an empty body
(= no hint = pack everything) becomes hint=[] (= pack nothing).  A non-empty
hint becomes a list of bytes that never matches the str pack names either.

Exit 1 when present.
"""
import sys, os, tempfile, shutil
sys.path.insert(0, os.getcwd())
os.environ["BRZ_EMAIL"]="T <t@e.com>"; os.environ["BRZ_HOME"]=tempfile.mkdtemp(); import breezy
breezy.initialize()
from breezy import controldir, repository, trace, transport
import breezy.bzr
from breezy.bzr.smart import repository as sr
trace.be_quiet(True)
d = tempfile.mkdtemp()
tree = controldir.ControlDir.create_standalone_workingtree(d + "/t", format=controldir.format_registry.make_controldir("2a"))
for i in range(3):
    with open(d + "/t/f", "a") as f: f.write("x\n")
    if i == 0: tree.add(["f"])
    tree.commit("r%d" % i)
t = transport.get_transport(d)
req = sr.SmartServerRepositoryPack(t)
print(req.execute(b"t", b"", b"False"))
print(req.do_body(b""))
r = repository.Repository.open(d + "/t")
with r.lock_read():
    print("packs after smart Repository.pack with empty hint body:", len(r._pack_collection.names()))
    n = len(r._pack_collection.names())
shutil.rmtree(d)
sys.exit(1 if n != 1 else 0)
