"""Demonstration for C36 (URL <-> git URL with ref parameter), not part of any check.

Run:  cd <tree> && /venv/bin/python /verif/findings/C36_url_ref_roundtrip.py
Exit 1 + DEFECT if a URL written with ref= does not come back with its ref.
"""
import os, sys
sys.path.insert(0, os.getcwd())
import breezy
breezy.initialize(setup_ui=False)
from breezy.git.urls import git_url_to_bzr_url, bzr_url_to_git_url
u = git_url_to_bzr_url("https://example.com/repo", ref=b"refs/notes/x")
back = bzr_url_to_git_url(u)
print(u, "->", back)
if back[2] is None:
    print("DEFECT: the ref parameter written by git_url_to_bzr_url is not read back by bzr_url_to_git_url")
    sys.exit(1)
print("OK")
