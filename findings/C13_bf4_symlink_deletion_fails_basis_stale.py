"""Baseline finding 4 (unmodified code, NO fault injection): deleting a symlink
that points at an existing directory by absolute path always fails in the
"discard replaced content" phase, and the callers of apply() then skip their
own metadata updates.

(a) osutils.delete_any() (crates/osutils/src/file.rs) decides between rmdir
    and unlink with Path::is_dir(), which FOLLOWS symlinks.  For a symlink
    whose target is a directory it calls remove_dir() on the link and gets
    ENOTDIR.  _FileMover.apply_deletions() therefore raises for such an
    entry (the relative-target case usually escapes because the link dangles
    once it sits in pending-deletion).  apply() has already committed: files
    and inventory are in the new state, pending-deletion keeps the entry,
    finalize() raises ImmortalPendingDeletion and every later transform on
    the tree dies with ExistingPendingDeletion.  (The same helper makes
    ``brz rm link`` fail.)

(b) Because apply() raises *after* the commit point, WorkingTree.pull() /
    update() never reach set_last_revision(): in a bzr tree the files and the
    working inventory are those of the new revision while the tree's basis is
    still the old one, so everything that was pulled shows up as uncommitted
    local changes (and the branch tip is already the new revision).  The same
    holds for merge (pending merge parent not recorded) and revert
    (merge-modified hashes / parents not reset) when their deletion phase
    fails for any reason.

Run:  cd <worktree> && /venv/bin/python bf4_symlink_deletion_fails_basis_stale.py
Exit 1 + message when the violation is present, 0 otherwise.
"""

import os
import shutil
import sys
import tempfile

sys.path.insert(0, os.getcwd())

import breezy

breezy.initialize()
import breezy.bzr  # noqa: E402,F401
from breezy import trace, ui  # noqa: E402
from breezy.controldir import ControlDir, format_registry  # noqa: E402
from breezy.workingtree import WorkingTree  # noqa: E402

ui.ui_factory = ui.SilentUIFactory()
trace.be_quiet(True)
os.environ.setdefault("BRZ_EMAIL", "Tester <tester@example.com>")


def main():
    base = tempfile.mkdtemp(prefix="c13-bf4-")
    try:
        target_dir = os.path.join(base, "some-directory")
        os.mkdir(target_dir)
        src = ControlDir.create_standalone_workingtree(
            os.path.join(base, "src"), format=format_registry.make_controldir("2a")
        )
        with open(os.path.join(src.basedir, "f"), "w") as f:
            f.write("f\n")
        os.symlink(target_dir, os.path.join(src.basedir, "link"))
        src.add(["f", "link"])
        r1 = src.commit("one")
        dst = src.controldir.sprout(os.path.join(base, "dst")).open_workingtree()

        os.unlink(os.path.join(src.basedir, "link"))
        src.remove(["link"], keep_files=True)
        with open(os.path.join(src.basedir, "f"), "w") as f:
            f.write("f\nmore\n")
        r2 = src.commit("two")

        err = None
        try:
            dst.pull(src.branch)
        except BaseException as e:  # noqa: BLE001
            err = type(e).__name__

        dst = WorkingTree.open(dst.basedir)
        with open(os.path.join(dst.basedir, "f")) as f:
            content_is_new = f.read() == "f\nmore\n"
        link_gone = not os.path.lexists(os.path.join(dst.basedir, "link"))
        basis_is_old = dst.last_revision() == r1
        branch_is_new = dst.branch.last_revision() == r2
        with dst.lock_read():
            changes = [
                c.path for c in dst.iter_changes(dst.basis_tree())
            ]
        try:
            dst.transform().finalize()
            blocked = None
        except BaseException as e:  # noqa: BLE001
            blocked = type(e).__name__
        print("pull raised                       :", err)
        print("files are those of revision two   :", content_is_new and link_gone)
        print("branch tip is revision two        :", branch_is_new)
        print("tree basis is still revision one  :", basis_is_old)
        print("reported as uncommitted changes   :", changes)
        print("next transform on this tree       :", blocked or "ok")
        if err is not None and content_is_new and link_gone and basis_is_old:
            print(
                "VIOLATION: a plain pull (no injected fault) failed while discarding "
                "a replaced symlink; the tree content is revision two but its basis "
                "metadata still says revision one"
            )
            return 1
        print("no violation")
        return 0
    finally:
        shutil.rmtree(base, ignore_errors=True)


if __name__ == "__main__":
    sys.exit(main())
