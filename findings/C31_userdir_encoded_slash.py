"""C31: with userdir expansion active and `~joe` expanding to the served directory itself, the VFS client path
'~joe/..%2Fsecret' read a file outside the served directory: the decoded-path re-check of 2078de5 sees
'/~joe/../secret' -> '/secret' (no climb), then _expand_userdirs drops the '~joe' segment and '..%2Fsecret' passes the
chroot as one segment that the local transport decodes to '../secret'.

Run:  cd /repo && /venv/bin/python /verif/findings/C31_userdir_encoded_slash.py   (exit 1 + DEFECT when it leaks)"""
import os
import shutil
import sys
import tempfile

sys.path.insert(0, os.getcwd())
import breezy  # noqa: E402

breezy.initialize(setup_ui=False)
import breezy.bzr  # noqa: E402,F401
from breezy import transport as _mod_transport  # noqa: E402
from breezy.bzr.smart import vfs  # noqa: E402
from breezy.bzr.smart.server import BzrServerFactory  # noqa: E402

d = tempfile.mkdtemp(prefix="c31u-")
rc = 0
try:
    os.mkdir(d + "/joe")
    open(d + "/secret", "wb").write(b"TOP-SECRET\n")
    open(d + "/joe/inside", "wb").write(b"fine\n")
    f = BzrServerFactory(userdir_expander=lambda p: p.replace("~joe", d + "/joe", 1) if p.startswith("~joe") else p)
    f._make_backing_transport(_mod_transport.get_transport_from_path(d + "/joe"))
    backing = f.transport
    try:
        for client_path in (b"inside", b"~joe/inside", b"~joe/..%2Fsecret", b"%7Ejoe/..%2Fsecret", b"~joe/%2E%2E%2Fsecret", b"~joe/..%2fsecret"):
            req = vfs.GetRequest(backing, root_client_path="/")
            try:
                resp = req.execute(client_path)
                out = (resp.args, getattr(resp, "body", None))
            except Exception as e:  # noqa: BLE001
                out = ("raised", type(e).__name__)
            print(client_path, "->", out)
            if isinstance(out[1], bytes) and b"TOP-SECRET" in out[1]:
                print("DEFECT: client path", client_path, "read a file outside the served directory")
                rc = 1
            if client_path in (b"inside", b"~joe/inside") and out[1] != b"fine\n":
                print("REGRESSION: legitimate path", client_path, "no longer served")
                rc = 1
    finally:
        for c in reversed(f.cleanups):
            c()
finally:
    shutil.rmtree(d, ignore_errors=True)
print("OK" if rc == 0 else "DEFECT")
sys.exit(rc)
