"""Baseline finding: a control directory of the *other* VCS sitting at the root
of the tree (a .bzr next to .git in a git tree, or a .git next to .bzr in a bzr
tree - the usual result of converting/dual-hosting a project) is walked by a
recursive add and all of its internals (.bzr/checkout/dirstate, .git/HEAD, ...)
become versioned.  Nested-tree detection is skipped for the tree root
(`directory != ""`), is_control_filename only knows the tree's own control dir,
and LocalGitProber refuses to probe a directory that is itself called ".git".
C11 clause: descendants that are "a control directory / nested tree" must not
be versioned.
"""
import os
import sys

sys.path.insert(0, os.path.dirname(os.path.abspath(__file__)))
from _common import make_tree, versioned, write  # noqa: E402

bad = False
for fmt, other, cd in (("git", "2a", ".bzr"), ("2a", "git", ".git")):
    p, wt = make_tree(fmt, "t-" + fmt)
    q, _ = make_tree(other, "o-" + fmt)
    os.rename(os.path.join(q, cd), os.path.join(p, cd))
    write(p + "/a.txt")
    wt.smart_add([p])
    # NB: use the tree object we added to - WorkingTree.open(p) would now find
    # the other control dir first.
    with wt.lock_read():
        allv = set(wt.all_versioned_paths())
    v = sorted(x for x in allv if x == cd or x.startswith(cd + "/"))
    print(f"[{fmt}] versioned paths inside {cd}: {len(v)} e.g. {v[:4]}")
    if v:
        print(f"[{fmt}] VIOLATION: internals of the {cd} control dir were versioned")
        bad = True
sys.exit(1 if bad else 0)
