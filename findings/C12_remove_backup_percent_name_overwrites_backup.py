"""Baseline finding (UNMODIFIED code): `brz remove` overwrites an existing
numbered backup when the file name contains a URL percent-escape sequence.

Run:  cd <worktree> && /venv/bin/python remove_backup_percent_name_overwrites_backup.py
Exit 1 + message when the violation is present, exit 0 otherwise.

Root cause: InventoryWorkingTree.remove / GitWorkingTree.remove pick the
backup name with ``self.controldir._available_backup_name(relpath)``, which is
``osutils.available_backup_name(base, self.root_transport.has)``
(breezy/bzr/bzrdir.py, breezy/git/dir.py).  ``Transport.has`` takes a
*URL-escaped* relative path but is handed the raw tree path, so for a file
called ``x%41`` the existence probe for ``x%41.~1~`` looks at ``xA.~1~``
instead.  The probe says "free", and ``osutils.rename(f, 'x%41.~1~')`` then
silently replaces the backup made by an earlier remove: user-edited content
that was only kept in that numbered backup file is destroyed.

Sequence: edit x%41, `brz rm x%41` (backup x%41.~1~ holds edit 1),
`brz revert x%41`, edit again, `brz rm x%41` again -> edit 1 is gone.
"""

import io
import os
import sys
import tempfile

sys.path.insert(0, os.getcwd())
_home = tempfile.mkdtemp(prefix="c12-bf2-home-")
os.environ["HOME"] = _home
os.environ["BRZ_HOME"] = _home
os.environ["BRZ_EMAIL"] = "Tester <tester@example.com>"

import breezy  # noqa: E402
import breezy.bzr  # noqa: E402
import breezy.git  # noqa: E402
from breezy import commands, controldir, trace, ui  # noqa: E402
from breezy.commands import run_bzr  # noqa: E402
from breezy.ui.text import TextUIFactory  # noqa: E402

breezy.initialize()
commands.install_bzr_command_hooks()
trace.be_quiet(True)


def brz(args, cwd):
    old = os.getcwd()
    os.chdir(cwd)
    raw = io.BytesIO()
    out = io.TextIOWrapper(raw, encoding="utf-8", write_through=True)
    ui.ui_factory = TextUIFactory(stdin=io.StringIO(""), stdout=out, stderr=out)
    try:
        rc = run_bzr(args)
    finally:
        os.chdir(old)
    return rc, raw.getvalue().decode("utf-8", "replace")


def write(path, text):
    with open(path, "w") as f:
        f.write(text)


def snapshot(root):
    out = {}
    for dp, dn, fn in os.walk(root):
        dn[:] = [d for d in dn if d not in (".bzr", ".git")]
        for f in fn:
            p = os.path.join(dp, f)
            with open(p, "rb") as fh:
                out[os.path.relpath(p, root)] = fh.read()
    return out


def scenario(fmt, name):
    base = tempfile.mkdtemp(prefix="c12-bf2-")
    os.chdir(base)
    f = controldir.format_registry.make_controldir(fmt)
    tree = controldir.ControlDir.create_standalone_workingtree("t", format=f)
    write("t/" + name, "base\n")
    tree.add([name])
    tree.commit("r1")
    write("t/" + name, "precious edit 1\n")
    rc, out = brz(["rm", name], "t")
    assert rc == 0, out
    assert snapshot("t") == {name + ".~1~": b"precious edit 1\n"}, snapshot("t")
    rc, out = brz(["revert", name], "t")
    assert rc == 0, out
    write("t/" + name, "precious edit 2\n")
    rc, out = brz(["rm", name], "t")
    assert rc == 0, out
    snap = snapshot("t")
    ok = (b"precious edit 1\n" in snap.values() and
          b"precious edit 2\n" in snap.values())
    print("[%s] %-8r %s   tree: %r" % (
        fmt, name, "both backups kept" if ok else "EARLIER BACKUP OVERWRITTEN", snap))
    return ok


def main():
    bad = []
    for fmt in ("bzr", "git"):
        for name in ("plain", "x%41"):
            if not scenario(fmt, name):
                bad.append((fmt, name))
    if bad:
        print("\nVIOLATION of C12 on unmodified code: remove destroyed user-edited "
              "content held in a numbered backup file: %r" % (bad,))
        return 1
    print("\nno violation observed")
    return 0


if __name__ == "__main__":
    sys.exit(main())
