"""Baseline finding (unmodified code, needs an interleaving): a BzrBranch object
caches its branch.conf store (``conf_store``) for its whole lifetime; neither
lock_write() nor unlock()/_clear_cached_state() drops it.  If another process
enables ``append_revisions_only`` after this object first looked at its
configuration, the object keeps ignoring the setting even inside a freshly
taken write lock, and ``pull --overwrite`` moves the tip to a revision whose
left-hand history lacks the previous tip.  (The tip itself IS re-read after
every lock; only the configuration is not.)

Run:  cd <worktree> && /venv/bin/python <this file>
exit 1 + message when the violation is present.
"""

import os
import sys
import unittest

sys.path.insert(0, os.getcwd())

import breezy  # noqa: E402
import breezy.bzr  # noqa: E402, F401
from breezy import branch as _mod_branch  # noqa: E402
from breezy import errors  # noqa: E402
from breezy.tests import TestCaseWithTransport  # noqa: E402

VIOLATIONS = []


class Repro(TestCaseWithTransport):
    def test_it(self):
        t = self.make_branch_and_tree("a")
        t.commit("one")
        t2 = t.controldir.sprout("b").open_workingtree()
        tip_a = t.commit("two a")
        t2.commit("two b")

        # a long-lived object that has looked at its configuration once
        held = _mod_branch.Branch.open("a")
        self.assertFalse(held.get_append_revisions_only())

        # somebody else turns append-only on (and it is on disk)
        _mod_branch.Branch.open("a").set_append_revisions_only(True)
        self.assertTrue(_mod_branch.Branch.open("a").get_append_revisions_only())

        raised = None
        with held.lock_write():  # a *new* lock, taken after the change
            try:
                held.pull(t2.branch, overwrite=True)
            except errors.AppendRevisionsOnlyViolation as e:
                raised = e
        fresh = _mod_branch.Branch.open("a")
        if raised is None or fresh.last_revision() != tip_a:
            VIOLATIONS.append(
                "append_revisions_only=True on disk, yet pull --overwrite through "
                "an older Branch object (under a new write lock) replaced tip "
                f"{tip_a!r} with {fresh.last_revision()!r} (raised={raised!r})"
            )


if __name__ == "__main__":
    breezy.initialize()
    suite = unittest.defaultTestLoader.loadTestsFromTestCase(Repro)
    res = unittest.TextTestRunner(verbosity=1).run(suite)
    if VIOLATIONS:
        for v in VIOLATIONS:
            print("VIOLATION:", v)
        sys.exit(1)
    if not res.wasSuccessful():
        print("script error (not a finding)")
        sys.exit(2)
    print("PASS: no violation")
