"""Baseline finding (unmodified code): the v1/v2 server protocol loses the
bytes that follow an unknown-method request when they arrive in the same
read as the request line; fed byte by byte the same stream keeps them.

SmartServerRequestProtocolOne.accept_bytes: the UnknownSmartMethod / generic
Exception branches send the failure response and `return` without moving
self.in_buffer into self.unused_data, so SmartServerSocketStreamMedium.
_serve_one_request_unguarded pushes back b"" and the next request vanishes.

Run: cd <worktree> && /venv/bin/python <this file>; exit 1 = violation present.
"""
import os, sys
sys.path.insert(0, os.getcwd())
import breezy
breezy.initialize()
from dromedary import memory
from breezy.bzr.smart import protocol

def feed(cls, wire, step):
    out = []
    p = cls(memory.MemoryTransport(), out.append, "/")
    for i in range(0, len(wire), step):
        p.accept_bytes(wire[i:i + step])
    return p.unused_data, p.next_read_size(), b"".join(out)

bad = False
for cls in (protocol.SmartServerRequestProtocolOne, protocol.SmartServerRequestProtocolTwo):
    wire = b"no-such-verb\x01arg\nhello\n"
    results = {step: feed(cls, wire, step) for step in (1, 5, len(wire))}
    for step, (unused, nrs, out) in sorted(results.items()):
        print(cls.__name__, "step", step, "unused_data=%r next_read_size=%r" % (unused, nrs))
    if len({r[0] for r in results.values()}) != 1:
        bad = True
if bad:
    print("VIOLATION: bytes following the end of a message depend on how the stream was split")
    sys.exit(1)
print("OK")
