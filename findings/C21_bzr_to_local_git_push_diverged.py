"""Baseline finding (unmodified code): pushing (or pulling) from a bzr branch
into a LOCAL git branch without overwrite silently replaces a diverged target
tip.

InterToGitBranch.push/pull -> InterToLocalGitRepository.fetch_refs
(breezy/git/interrepo.py) accepts an ``overwrite`` argument but never looks at
it and never checks for divergence (its remote sibling
InterToRemoteGitRepository.fetch_refs does: remote_divergence ->
DivergedBranches); _update_pure_git_refs carries a
"FIXME: Check for diverged branches".

Two cases are exercised:
  1. non-lossy push of a bzr branch whose revisions all came from git
  2. lossy push (dpush) of a native bzr commit

Run:  cd <worktree> && /venv/bin/python <this file>
exit 1 + message when the violation is present.
"""

import os
import sys
import unittest

sys.path.insert(0, os.getcwd())

import breezy  # noqa: E402
import breezy.bzr  # noqa: E402, F401
import breezy.git  # noqa: E402, F401
from breezy import branch as _mod_branch  # noqa: E402
from breezy import errors  # noqa: E402
from breezy.tests import TestCaseWithTransport  # noqa: E402

VIOLATIONS = []


class Repro(TestCaseWithTransport):
    def _common(self):
        gtree = self.make_branch_and_tree("git", format="git")
        self.build_tree_contents([("git/base", b"1\n")])
        gtree.add(["base"])
        gtree.commit("base")
        btree = self.make_branch_and_tree("bzr", format="2a")
        btree.pull(gtree.branch)
        self.assertEqual(btree.last_revision(), gtree.last_revision())
        return gtree, btree

    def _attempt(self, label, gtree, do):
        target = _mod_branch.Branch.open(gtree.branch.base)
        before = target.last_revision()
        raised = None
        try:
            do(target)
        except errors.DivergedBranches as e:
            raised = e
        after = _mod_branch.Branch.open(gtree.branch.base).last_revision()
        if raised is None or before != after:
            VIOLATIONS.append(
                f"{label}: diverged git tip {before!r} replaced by {after!r} "
                f"(raised={raised!r})"
            )

    def test_nonlossy_git_origin_revisions(self):
        gtree, btree = self._common()
        # a second git clone produces the other side of the divergence
        g2 = self.make_branch_and_tree("git2", format="git")
        g2.pull(gtree.branch)
        self.build_tree_contents([("git2/other", b"other side\n")])
        g2.add(["other"])
        g2.commit("other side")
        btree.pull(g2.branch)  # bzr branch now at git2's tip
        # the target git repository already holds the objects of the other
        # side (so nothing has to be re-exported), but its branch does not
        # contain them
        gtree.branch.repository.fetch(
            g2.branch.repository, revision_id=g2.last_revision()
        )
        self.build_tree_contents([("git/gitside", b"git side\n")])
        gtree.add(["gitside"])
        gtree.commit("git side")
        self._attempt(
            "push bzr -> local git (non-lossy)",
            gtree,
            lambda target: btree.branch.push(target),
        )

    def test_nonlossy_pull(self):
        gtree, btree = self._common()
        g2 = self.make_branch_and_tree("git2", format="git")
        g2.pull(gtree.branch)
        self.build_tree_contents([("git2/other", b"other side\n")])
        g2.add(["other"])
        g2.commit("other side")
        btree.pull(g2.branch)
        gtree.branch.repository.fetch(
            g2.branch.repository, revision_id=g2.last_revision()
        )
        self.build_tree_contents([("git/gitside", b"git side\n")])
        gtree.add(["gitside"])
        gtree.commit("git side")
        self._attempt(
            "pull bzr -> local git",
            gtree,
            lambda target: target.pull(btree.branch),
        )

    def test_target_ahead(self):
        # target already contains the requested revision: tip must not move
        gtree, btree = self._common()
        self.build_tree_contents([("git/gitside", b"git side\n")])
        gtree.add(["gitside"])
        gtree.commit("git side")
        target = _mod_branch.Branch.open(gtree.branch.base)
        before = target.last_revision()
        btree.branch.push(target)
        after = _mod_branch.Branch.open(gtree.branch.base).last_revision()
        if before != after:
            VIOLATIONS.append(
                "push bzr -> local git where the target is AHEAD of the source: "
                f"tip moved backwards from {before!r} to {after!r}"
            )

    def test_lossy(self):
        gtree, btree = self._common()
        self.build_tree_contents([("bzr/bzrside", b"bzr side\n")])
        btree.add(["bzrside"])
        btree.commit("bzr side")
        self.build_tree_contents([("git/gitside", b"git side\n")])
        gtree.add(["gitside"])
        gtree.commit("git side")
        self._attempt(
            "push --lossy bzr -> local git",
            gtree,
            lambda target: btree.branch.push(target, lossy=True),
        )


if __name__ == "__main__":
    breezy.initialize()
    suite = unittest.defaultTestLoader.loadTestsFromTestCase(Repro)
    res = unittest.TextTestRunner(verbosity=1).run(suite)
    if VIOLATIONS:
        for v in VIOLATIONS:
            print("VIOLATION:", v)
        sys.exit(1)
    if not res.wasSuccessful():
        print("script error (not a finding)")
        sys.exit(2)
    print("PASS: no violation")
