"""C17 clause 2 (THIS == BASE => tree equals OTHER; kind changes), git trees.

OTHER replaces the regular file 'a' by a directory 'a' containing 'a/x';
THIS is unchanged.  Merge3Merger keys the new entry by tree path
(trans_id_tree_path('a/x')), so GitTreeTransform._apply_removals tries to
rename THIS's non-existent 'a/x' into limbo; os.rename fails with ENOTDIR
(only ENOENT is tolerated) -> TransformRenameFailed.  bzr trees merge it fine.
"""
import sys, os, traceback
sys.path.insert(0, os.path.dirname(os.path.abspath(__file__)))
from C17__c17lib import make_tree, sprout, merge, versioned, write

bad = []
for fmt in ("bzr", "git"):
    tmp, base = make_tree(fmt, {"a": b"alpha\nbeta\ngamma\ndelta\n", "c": b"c content\n"})
    this = sprout(base, tmp, "this"); other = sprout(base, tmp, "other")
    other.remove(["a"], keep_files=False, force=True)
    os.mkdir(other.abspath("a")); write(other, "a/x", b"completely\nunrelated\ntext\nhere\nok\n")
    other.add(["a", "a/x"]); other.commit("file becomes directory")
    try:
        conflicts = merge(this, other)
    except Exception:
        traceback.print_exc(limit=2)
        bad.append(fmt + ": crashed")
        continue
    got, extras = versioned(this)
    print(fmt, "conflicts:", conflicts, "tree:", got, "extras:", extras)
    if conflicts or got.get("a/x") != "file" or got.get("a") != "directory":
        bad.append(fmt + ": wrong result")
if bad:
    print("VIOLATION:", bad)
    sys.exit(1)
print("ok")
