"""Tiny helper shared by the C17 repro scripts (kept next to them).

Run every script as:  cd <worktree> && /venv/bin/python <script>
"""
import os
import sys
import tempfile

sys.path.insert(0, os.getcwd())
_home = tempfile.mkdtemp(prefix="c17-home-")
os.environ["BRZ_EMAIL"] = "Tester <t@example.com>"
os.environ["BRZ_HOME"] = _home
os.environ["HOME"] = _home

import breezy
import breezy.bzr  # noqa: F401
import breezy.git  # noqa: F401
from breezy import merge as _mod_merge
from breezy import trace
from breezy.controldir import ControlDir, format_registry

breezy.initialize()
trace.be_quiet(True)


def make_tree(fmt, files):
    """Create a committed standalone tree; files = {path: bytes | None(dir) | ('x', bytes)}."""
    tmp = tempfile.mkdtemp(prefix="c17-")
    wt = ControlDir.create_standalone_workingtree(
        os.path.join(tmp, "base"), format=format_registry.make_controldir(fmt)
    )
    for p in sorted(files):
        write(wt, p, files[p])
    wt.add(sorted(files))
    wt.commit("base")
    return tmp, wt


def write(wt, p, spec):
    full = os.path.join(wt.basedir, p)
    if spec is None:
        os.mkdir(full)
    elif isinstance(spec, tuple):
        with open(full, "wb") as f:
            f.write(spec[1])
        os.chmod(full, 0o755)
    else:
        with open(full, "wb") as f:
            f.write(spec)


def sprout(wt, tmp, name):
    return wt.controldir.sprout(os.path.join(tmp, name)).open_workingtree()


def merge(this_wt, other_wt, merge_type="merge3"):
    with this_wt.lock_write(), other_wt.branch.lock_read():
        merger = _mod_merge.Merger.from_revision_ids(
            this_wt, other_wt.branch.last_revision(), other_branch=other_wt.branch
        )
        merger.merge_type = _mod_merge.merge_type_registry.get(merge_type)
        return [c.describe() for c in merger.do_merge()]


def versioned(wt):
    """{path: kind-on-disk or 'missing'} of versioned non-root paths, plus extras."""
    out = {}
    with wt.lock_read():
        for path, _ie in wt.iter_entries_by_dir():
            if path == "":
                continue
            full = os.path.join(wt.basedir, path)
            if not os.path.lexists(full):
                out[path] = "missing"
            elif os.path.islink(full):
                out[path] = "symlink"
            elif os.path.isdir(full):
                out[path] = "directory"
            else:
                out[path] = "file"
        extras = sorted(wt.extras())
    return out, extras
