"""C17 clause 2 via merge_inner/transform_tree (debatable: API contract).

merge.transform_tree(wt, target) == merge_inner(..., base_tree=wt,
this_tree=wt): BASE is literally THIS, so the result should equal OTHER
("Transform from_tree to match to_tree").  merge_inner however replaces a
base tree that has no get_revision_id() (a working tree) by the *basis*
revision tree of that working tree (set_base_revision(base.last_revision())),
so uncommitted edits in THIS stop being 'base' and survive: the tree does
not match OTHER.
"""
import sys, os
sys.path.insert(0, os.path.dirname(os.path.abspath(__file__)))
from C17__c17lib import make_tree, sprout, write
from breezy import merge as _mod_merge

tmp, base = make_tree("bzr", {"a": b"a\n", "c": b"c\n"})
this = sprout(base, tmp, "this"); other = sprout(base, tmp, "other")
write(other, "c", b"c changed\n"); other.commit("modify c")
write(this, "a", b"uncommitted local edit\n")
ot = other.basis_tree()
with ot.lock_read():
    _mod_merge.transform_tree(this, ot)
a = open(os.path.join(this.basedir, "a"), "rb").read()
c = open(os.path.join(this.basedir, "c"), "rb").read()
print("a:", a, "c:", c)
if a != b"a\n" or c != b"c changed\n":
    print("VIOLATION: transform_tree(THIS, OTHER) with BASE is THIS did not make the tree equal OTHER")
    sys.exit(1)
print("ok")
