"""C34: a commit carrying the header `encoding false` is accepted by import_commit (which decodes it with the implicit
encodings) but export_commit used the literal value "false" as a codec and raised LookupError.
Run from a checkout root:  /venv/bin/python /verif/findings/C34_encoding_false.py   (exit 0 = round-trips)"""
import os
import sys

sys.path.insert(0, os.getcwd())
from dulwich.objects import Commit  # noqa: E402

from breezy.git.mapping import BzrGitMappingv1  # noqa: E402

bad = 0
for committer in (b"Committer <a@b>", "André <a@b>".encode("utf-8"), "André <a@b>".encode("latin1")):
    c = Commit()
    c.tree = b"cc9462f7f8263ef5adfbeff2fb936bb36b504cba"
    c.message = b"Some message\n"
    c.committer = committer
    c.author = b"Author <c@d>"
    c.commit_time = 4
    c.author_time = 5
    c.commit_timezone = 300
    c.author_timezone = 180
    c.encoding = b"false"
    m = BzrGitMappingv1()
    rev, _, _ = m.import_commit(c, m.revision_id_foreign_to_bzr, strict=True)
    try:
        c2 = m.export_commit(rev, c.tree, lambda x: None, True, None)
    except LookupError as e:
        print("FAIL export raised", e)
        bad += 1
        continue
    if c2.as_raw_string() != c.as_raw_string():
        print("FAIL bytes differ", c2.as_raw_string(), c.as_raw_string())
        bad += 1
print("PASS" if not bad else f"{bad} failures")
sys.exit(1 if bad else 0)
