"""RemoteBranch.unlock() on a branch that is not locked: not refused, count goes negative, repository lock released."""
import sys, unittest
import breezy.bzr, breezy
from breezy import tests, errors, branch as _mod_branch
from breezy.tests import test_server
from breezy.bzr.remote import RemoteBranch
class T(tests.TestCaseWithTransport):
    def test_it(self):
        self.make_branch("b")
        smart = test_server.SmartTCPServer_for_testing()
        self.start_server(smart, self.get_server())
        b = _mod_branch.Branch.open(smart.get_url() + "b")
        self.assertIsInstance(b, RemoteBranch)
        repo = b.repository
        repo.lock_read()
        self.addCleanup(lambda: repo.is_locked() and repo.unlock())
        raised = None
        try:
            b.unlock()
        except errors.LockNotHeld as e:
            raised = e
        print("refused:", raised is not None, " branch count:", b._lock_count, " repository still locked:", repo.is_locked(), file=sys.__stderr__)
        self.assertIsNotNone(raised, "unmatched unlock was not refused")
        self.assertEqual(0, b._lock_count)
        self.assertTrue(repo.is_locked(), "the repository's own lock was released by the unmatched branch unlock")
unittest.main(argv=["x"])
