"""Baseline finding (not C08 proper; found while looking at how a stacked
repository gets repacked on a smart server).

`brz pack bzr://host/branch` does nothing.  RemoteRepository.pack() sends an
empty body when no hint is given; SmartServerRepositoryPack.do_body() decides
"no hint" with

    hint = None if body_bytes == "" else body_bytes.splitlines()

body_bytes is bytes, so the comparison with the str "" is never true, the hint
becomes the empty list, and Repository.pack(hint=[]) means "pack nothing".
The client gets ('ok',) back.

Run as:  cd <worktree> && /venv/bin/python smart_pack_verb_is_noop.py
Exit 1 when the problem is present.
"""

import os
import shutil
import sys
import tempfile

sys.path.insert(0, os.getcwd())
os.environ["BRZ_EMAIL"] = "Demo <demo@example.com>"
_home = tempfile.mkdtemp(prefix="c08-bf-home-")
os.environ["BRZ_HOME"] = _home
os.environ["HOME"] = _home

import breezy  # noqa: E402
import breezy.bzr  # noqa: E402, F401
from breezy import branch as _mod_branch  # noqa: E402
from breezy import controldir, trace, ui  # noqa: E402
from breezy.tests import test_server  # noqa: E402

breezy.initialize()
ui.ui_factory = ui.SilentUIFactory()
trace.be_quiet(True)


def npacks(path):
    repo = controldir.ControlDir.open(path).open_repository()
    with repo.lock_read():
        return len(repo._pack_collection.names())


def main():
    tmp = tempfile.mkdtemp(prefix="c08-bf-")
    os.chdir(tmp)
    server = test_server.SmartTCPServer_for_testing()
    try:
        tree = controldir.ControlDir.create_standalone_workingtree(
            "b", format=controldir.format_registry.make_controldir("2a")
        )
        for i in range(3):
            with open("b/f", "w") as f:
                f.write("%d\n" % i)
            if i == 0:
                tree.add(["f"])
            tree.commit("rev %d" % i)
        before = npacks("b")
        server.start_server()
        remote = _mod_branch.Branch.open(server.get_url() + "b")
        remote.repository.pack()
        after_remote = npacks("b")
        # control: the same call made locally does pack
        _mod_branch.Branch.open("b").repository.pack()
        after_local = npacks("b")
    finally:
        server.stop_server()
        os.chdir("/")
        shutil.rmtree(tmp, ignore_errors=True)
        shutil.rmtree(_home, ignore_errors=True)
    print("packs before: %d; after pack over bzr://: %d; after local pack: %d"
          % (before, after_remote, after_local))
    if after_remote != 1 and after_local == 1:
        print("VIOLATION: Repository.pack over the smart server is a no-op")
        return 1
    print("ok")
    return 0


if __name__ == "__main__":
    sys.exit(main())
