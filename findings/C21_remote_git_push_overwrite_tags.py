"""Demonstration for the C21 defect repaired by /repo commit 49b0cec (BRZ_EMAIL set, /venv/bin/python; starts `git daemon`
on 127.0.0.1).  Before the fix: `push(overwrite=['tags']) -> pushed ; remote tip REPLACED (remote commit R dropped)`.
"""
import os, subprocess, sys, tempfile, time, socket
import breezy.bzr, breezy.git, breezy
from breezy import controldir, errors, tests
from breezy.branch import Branch
breezy.initialize()
base = tempfile.mkdtemp()
def git(*a, cwd):
    subprocess.check_call(("git", "-c", "user.name=a", "-c", "user.email=a@b", "-c", "init.defaultBranch=master") + a, cwd=cwd, stdout=subprocess.DEVNULL, stderr=subprocess.DEVNULL)
srv = os.path.join(base, "srv"); os.makedirs(srv)
git("init", "--bare", "r.git", cwd=srv)
work = os.path.join(base, "w1"); git("clone", os.path.join(srv, "r.git"), work, cwd=base)
open(os.path.join(work, "f"), "w").write("1\n"); git("add", "f", cwd=work); git("commit", "-m", "base", cwd=work); git("push", "origin", "HEAD:master", cwd=work)
local = os.path.join(base, "local"); git("clone", os.path.join(srv, "r.git"), local, cwd=base)
# diverge: the remote gets commit R, the local gets commit L
open(os.path.join(work, "f"), "w").write("remote\n"); git("commit", "-am", "R", cwd=work); git("push", "origin", "HEAD:master", cwd=work)
open(os.path.join(local, "g"), "w").write("local\n"); git("add", "g", cwd=local); git("commit", "-m", "L", cwd=local)
s = socket.socket(); s.bind(("127.0.0.1", 0)); port = s.getsockname()[1]; s.close()
d = subprocess.Popen(["git", "daemon", "--reuseaddr", f"--port={port}", "--listen=127.0.0.1", f"--base-path={srv}", "--export-all", "--enable=receive-pack", srv], stdout=subprocess.DEVNULL, stderr=subprocess.DEVNULL)
time.sleep(1.5)
try:
    src = Branch.open(local)
    tgt = Branch.open(f"git://127.0.0.1:{port}/r.git")
    before = tgt.last_revision()
    print("target type:", type(tgt).__name__, "tip before:", before[-12:])
    for ov in ([], ["tags"]):
        try:
            src.push(tgt, overwrite=ov)
            out = "pushed"
        except errors.DivergedBranches:
            out = "DivergedBranches"
        tgt = Branch.open(f"git://127.0.0.1:{port}/r.git")
        print(f"push(overwrite={ov!r}) ->", out, "; remote tip", "UNCHANGED" if tgt.last_revision() == before else "REPLACED (remote commit R dropped)")
finally:
    d.terminate()
