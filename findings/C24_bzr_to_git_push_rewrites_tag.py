"""Baseline finding (UNMODIFIED code): pushing from a bzr branch to a local git
branch with branch.fetch_tags on silently rewrites a destination tag whose
definition differs from the source's, although overwrite was NOT requested.
The push result lists the tag under tag_updates and reports no conflict.

Cause: breezy/git/branch.py:_update_pure_git_refs starts from `ret = {}` (the
old refs are never consulted for the membership test, so `ref not in ret` is
always true) and even its conflict branch is dead code (`diverged = False`).

C24: "differing definitions keep the destination value and are reported as
conflicts unless overwrite was requested".

Run as: cd <worktree> && /venv/bin/python bzr_to_git_push_rewrites_tag.py
exit 1 = violation present.
"""

import os
import shutil
import sys
import tempfile

sys.path.insert(0, os.getcwd())

import breezy

breezy.initialize()
import breezy.bzr  # noqa: F401
import breezy.git  # noqa: F401
from breezy.branch import Branch
from breezy.controldir import ControlDir, format_registry

tmp = tempfile.mkdtemp(prefix="c24-bf1-")
os.environ["BRZ_HOME"] = tmp
os.environ["HOME"] = tmp
os.environ["BRZ_EMAIL"] = "Tester <tester@example.com>"


def mk(name, fmt):
    p = os.path.join(tmp, name)
    os.mkdir(p)
    return ControlDir.create_standalone_workingtree(
        p, format=format_registry.make_controldir(fmt)
    )


def main():
    b = mk("bzr", "bzr")
    with open(os.path.join(tmp, "bzr", "f"), "w") as f:
        f.write("a")
    b.add(["f"])
    c1 = b.commit("c1")
    c2 = b.commit("c2", allow_pointless=True)
    g = mk("git", "git")
    res = b.branch.push(g.branch, lossy=True)
    g_c1 = res.revidmap[c1][1]
    g_c2 = res.revidmap[c2][1]

    gb = Branch.open(os.path.join(tmp, "git"))
    gb.tags.set_tag("differs", g_c1)
    gb.tags.set_tag("only-dst", g_c1)
    b.branch.tags.set_tag("differs", c2)
    b.branch.tags.set_tag("only-src", c1)
    b.branch.get_config_stack().set("branch.fetch_tags", True)

    before = Branch.open(os.path.join(tmp, "git")).tags.get_tag_dict()
    res = b.branch.push(Branch.open(os.path.join(tmp, "git")), lossy=True)
    after = Branch.open(os.path.join(tmp, "git")).tags.get_tag_dict()
    print("before       :", before)
    print("tag_updates  :", res.tag_updates)
    print("tag_conflicts:", res.tag_conflicts)
    print("after        :", after)
    problems = []
    if after.get("differs") != g_c1:
        problems.append(
            "destination tag 'differs' was rewritten from %r to %r without overwrite"
            % (g_c1, after.get("differs"))
        )
    if not any(c[0] == "differs" for c in res.tag_conflicts):
        problems.append("no conflict reported for 'differs'")
    if after.get("only-dst") != g_c1 or after.get("only-src") != g_c1:
        problems.append("only-dst/only-src not as expected")
    return problems


try:
    problems = main()
finally:
    shutil.rmtree(tmp, ignore_errors=True)
sys.stdout.flush()
if problems:
    print("VIOLATION PRESENT")
    for p in problems:
        print(" -", p)
    sys.stdout.flush()
    os._exit(1)
print("OK (no violation)")
sys.stdout.flush()
os._exit(0)
