"""C17 clause 4 (disjoint files => union, no conflicts), git trees.

THIS adds g/new; OTHER deletes every other file of g (g/h, g/i).  The sets
of files are disjoint and git does not version directories, yet the merge
reports "Text conflict in g" (a cooked 'deleting parent' conflict).  The
reverse direction (THIS deletes, OTHER adds) is clean.
"""
import sys, os
sys.path.insert(0, os.path.dirname(os.path.abspath(__file__)))
from C17__c17lib import make_tree, sprout, merge, versioned, write

tmp, base = make_tree("git", {"g": None, "g/h": b"h1\n", "g/i": b"i1\n", "a": b"a\n"})
this = sprout(base, tmp, "this"); other = sprout(base, tmp, "other")
write(this, "g/new", b"new in this\n"); this.add(["g/new"]); this.commit("add g/new")
other.remove(["g/h", "g/i"], keep_files=False, force=True); other.commit("empty g")
conflicts = merge(this, other)
got, extras = versioned(this)
print("conflicts:", conflicts, "tree:", got, "extras:", extras)
if conflicts:
    print("VIOLATION: disjoint changes produced conflicts:", conflicts)
    sys.exit(1)
print("ok")
