"""Baseline finding (unmodified code): Repository.get_known_graph_ancestry()
(used by `brz log`, merge, annotate ... via Branch.iter_merge_sorted_revisions)
does not reload pack-names when an index it needs has been moved away by a
concurrent pack/autopack in another process.

C05 clause: "no reader sees a listed pack disappear without being able to find
its data after reloading".  Every other read path that was probed
(get_parent_map, get_revisions, revision trees, texts, signatures, keys(),
annotate, check, get_stream ...) catches NoSuchFile, reloads pack-names and
retries; CombinedGraphIndex.find_ancestry (bzrformats, Rust) does not, so the
reader dies with NoSuchFile although the revisions are listed (in the new
pack) the whole time.  Same for inventories/texts.get_known_graph_ancestry.

Run from the worktree root: /venv/bin/python known_graph_no_reload.py [format]
Exit 1 + message when the violation is present, exit 0 otherwise.
"""

import os
import shutil
import subprocess
import sys
import tempfile

sys.path.insert(0, os.getcwd())
os.environ["BRZ_EMAIL"] = "Tester <tester@example.com>"
os.environ["BRZ_HOME"] = tempfile.mkdtemp(prefix="c05-home-")

import breezy  # noqa: E402

breezy.initialize()

import breezy.bzr  # noqa: E402,F401
from breezy import repository, trace  # noqa: E402

trace.be_quiet(True)
FORMAT = sys.argv[1] if len(sys.argv) > 1 else "2a"

OTHER_PROCESS = """
import os, sys
sys.path.insert(0, os.getcwd())
import breezy
breezy.initialize()
import breezy.bzr
from breezy import controldir, repository, trace
trace.be_quiet(True)
mode, path, fmt = sys.argv[1:4]
if mode == "setup":
    tree = controldir.ControlDir.create_standalone_workingtree(
        path, format=controldir.format_registry.make_controldir(fmt))
    for i in range(3):
        with open(path + "/file", "a") as f:
            f.write("line %d\\n" % i)
        if i == 0:
            tree.add(["file"])
        print(tree.commit("rev %d" % i).decode())
elif mode == "pack":
    repository.Repository.open(path).pack()
"""


def other_process(mode, path):
    return subprocess.run(
        [sys.executable, "-c", OTHER_PROCESS, mode, path, FORMAT],
        check=True,
        cwd=os.getcwd(),
        stdout=subprocess.PIPE,
    ).stdout


def main():
    base = tempfile.mkdtemp(prefix="c05-kg-")
    try:
        revs = other_process("setup", base + "/tree").split()
        problems = []
        for label, op in (
            ("get_parent_map (control: reloads fine)", lambda r: r.get_parent_map(revs)),
            (
                "get_known_graph_ancestry",
                lambda r: r.get_known_graph_ancestry(revs[-1:]),
            ),
        ):
            # fresh copy of the three-pack repository for each operation
            work = base + "/work"
            shutil.rmtree(work, ignore_errors=True)
            shutil.copytree(base + "/tree", work)
            reader = repository.Repository.open(work)
            with reader.lock_read():
                reader._pack_collection.ensure_loaded()  # has read pack-names
                other_process("pack", work)  # another process repacks
                try:
                    op(reader)
                    print("ok    %s" % label)
                except Exception as e:  # noqa: BLE001
                    print("ERROR %s: %s: %s" % (label, type(e).__name__, e))
                    problems.append(label)
            # the data is there for anybody who reads pack-names now
            fresh = repository.Repository.open(work)
            with fresh.lock_read():
                assert set(revs) <= set(fresh.all_revision_ids())
                fresh.get_known_graph_ancestry(revs[-1:])
        if problems:
            print(
                "VIOLATION PRESENT: reader failed instead of reloading "
                "pack-names in: %s" % ", ".join(problems)
            )
            return 1
        print("no violation")
        return 0
    finally:
        shutil.rmtree(base, ignore_errors=True)
        shutil.rmtree(os.environ["BRZ_HOME"], ignore_errors=True)


if __name__ == "__main__":
    sys.exit(main())
