"""C36: git_url_to_bzr_url percent-encodes branch / ref parameters, bzr_url_to_git_url returned them still encoded.
Run from a checkout root: /venv/bin/python /verif/findings/C36_url_param_decoding.py (exit 0 = inverse pair)"""
import os
import sys

sys.path.insert(0, os.getcwd())
from breezy.git.urls import bzr_url_to_git_url, git_url_to_bzr_url  # noqa: E402

bad = 0
for kw, want in (({"ref": b"refs/tags/v1"}, (None, "refs/tags/v1")), ({"branch": "feat/x"}, ("feat/x", None)), ({"branch": "a b"}, ("a b", None)), ({"branch": "plain"}, ("plain", None))):
    u = git_url_to_bzr_url("https://example.com/repo.git", **kw)
    url, branch, ref = bzr_url_to_git_url(u)
    ok = (branch, ref) == want and url == "https://example.com/repo.git"
    print("ok  " if ok else "FAIL", kw, "->", u, "->", (url, branch, ref))
    bad += not ok
print("PASS" if not bad else f"{bad} failures")
sys.exit(1 if bad else 0)
