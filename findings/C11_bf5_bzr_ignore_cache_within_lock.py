"""Baseline finding (low severity, bzr trees): the ignore list is cached on the
tree object until the last unlock, and ignores.tree_ignores_add_patterns()
(the body of `brz ignore`) rewrites .bzrignore without flushing that cache.
Inside one write lock: is_ignored()/smart_add (cache filled) -> add a pattern
-> smart_add again uses the old rules and versions a now-ignored file.
(get_ignore_list documents "Cached in the Tree object after the first call".)
"""
import os
import sys

sys.path.insert(0, os.path.dirname(os.path.abspath(__file__)))
from _common import make_tree, versioned, write  # noqa: E402
from breezy import ignores  # noqa: E402

p, wt = make_tree("2a", "t")
write(p + "/a.txt")
with wt.lock_write():
    wt.smart_add([p])
    ignores.tree_ignores_add_patterns(wt, ["*.tmp"])
    write(p + "/y.tmp")
    added, ignored = wt.smart_add([p])
print("added:", added, "ignored:", dict(ignored))
if "y.tmp" in versioned(p):
    print("VIOLATION: y.tmp matches '*.tmp' in .bzrignore but was versioned "
          "(stale ignore cache inside the lock)")
    sys.exit(1)
sys.exit(0)
