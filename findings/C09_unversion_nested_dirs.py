"""C09 (not claimed by a check): DirStateWorkingTree.unversion(['d']) left the entries below d's sub-directories in the
dirstate: `block[0][len(path)] == "/"` compares an int (bytes index) with a str and is never true, so only the direct
dirblock of an unversioned directory was dropped.  The tree then fails _validate() and reports the orphans as changes.
Run from a checkout root: /venv/bin/python /verif/findings/C09_unversion_nested_dirs.py   (exit 0 = consistent)"""
import os
import shutil
import sys
import tempfile

sys.path.insert(0, os.getcwd())
import breezy  # noqa: E402

breezy.initialize(setup_ui=False)
import breezy.bzr  # noqa: E402,F401
from breezy.controldir import ControlDir, format_registry  # noqa: E402

d = tempfile.mkdtemp()
rc = 0
try:
    wt = ControlDir.create_standalone_workingtree(d + "/t", format=format_registry.make_controldir("2a"))
    os.makedirs(d + "/t/d/s/u")
    os.makedirs(d + "/t/dd")
    for p in ("d/top", "d/s/f", "d/s/u/h", "keep", "dd/x"):
        open(d + "/t/" + p, "w").write("x")
    wt.add(["d", "d/top", "d/s", "d/s/f", "d/s/u", "d/s/u/h", "keep", "dd", "dd/x"])
    wt.commit("c", committer="a <a@b>")
    wt.unversion(["d"])
    wt2 = wt.controldir.open_workingtree()
    with wt2.lock_read():
        paths = sorted(p for p, e in wt2.iter_entries_by_dir())
        print("versioned after unversion(['d']):", paths)
        if paths != ["", "dd", "dd/x", "keep"]:
            print("FAIL: unexpected versioned paths")
            rc = 1
        try:
            wt2._validate()
        except AssertionError as e:
            print("FAIL: dirstate inconsistent:", str(e)[:100])
            rc = 1
finally:
    shutil.rmtree(d)
print("PASS" if rc == 0 else "DEFECT")
sys.exit(rc)
