"""C17 clause 2 (THIS == BASE => tree equals OTHER, no conflicts), git trees.

OTHER renames a directory that contains three nested levels
(p/s0/f, p/s0/s1/f, p/s0/s1/s2/f) to q; THIS is unchanged.  The merge dies
with KeyError in transform._reparent_transform_children (resolve_duplicate's
directory-merging branch for trees without versioned directories).  Two
levels work.
"""
import sys, os, traceback
sys.path.insert(0, os.path.dirname(os.path.abspath(__file__)))
from C17__c17lib import make_tree, sprout, merge, versioned

files = {"p": None, "p/s0": None, "p/s0/f": b"0\n", "p/s0/s1": None, "p/s0/s1/f": b"1\n",
         "p/s0/s1/s2": None, "p/s0/s1/s2/f": b"2\n"}
tmp, base = make_tree("git", files)
this = sprout(base, tmp, "this"); other = sprout(base, tmp, "other")
other.rename_one("p", "q"); other.commit("rename p")
try:
    conflicts = merge(this, other)
except Exception:
    traceback.print_exc()
    print("VIOLATION: merge of a nested directory rename into an unchanged tree crashed")
    sys.exit(1)
got, extras = versioned(this)
print("conflicts:", conflicts, "tree:", got, "extras:", extras)
want = {"q/s0/f", "q/s0/s1/f", "q/s0/s1/s2/f"}
if conflicts or {p for p, k in got.items() if k == "file"} != want:
    print("VIOLATION: result differs from OTHER")
    sys.exit(1)
print("ok")
