"""Baseline findings for C36, clause "A git branch's parent location set from a
URL is read back as an equivalent URL" (and the URL conversion inverse pair).

Run as: cd <worktree> && /venv/bin/python parent_location_roundtrip.py
Exits 1 and lists the violations when present on the UNMODIFIED code.

Findings exercised:

 A. GitBranch.set_parent() writes branch.<name>.merge, but
    GitBranch._get_related_merge_branch() reads branch.<remote>.merge
    (cs.get((b"branch", remote), b"merge")), so the ",branch=..." / ",ref=..."
    part of the parent URL is always lost on read-back.

 B. git_url_to_bzr_url() treats every URL whose scheme is not a known git
    scheme as an rsync-style "host:path" location, so a parent such as
    sftp://example.com/repo (or file:///x when no relative form exists, or
    lp:brz) is read back as git+ssh://sftp//example.com/repo.
    Same for plain git_url_to_bzr_url("file:///tmp/x") -> "git+ssh://file///tmp/x".

 C. A colocated git branch opened through its own URL (",branch=feature") has
    base "file:///dir/,branch=feature/"; set_parent() stores the location
    relative to the directory, get_parent() joins it relative to that base, so a
    local parent file:///tmp/other is read back as file:///tmp/<dir>/other.

 D. git_url_to_bzr_url(url, ref=<non-UTF-8 ref>) -> bzr_url_to_git_url() does not
    give the ref back: the still-quoted text is returned.
"""

import os
import sys
import tempfile

sys.path.insert(0, os.getcwd())

import breezy

breezy.initialize()
import breezy.bzr  # noqa: E402
import breezy.git  # noqa: E402, F401
from breezy.branch import Branch  # noqa: E402
from breezy.controldir import ControlDir, format_registry  # noqa: E402
from breezy.git.urls import bzr_url_to_git_url, git_url_to_bzr_url  # noqa: E402


def main():
    problems = []
    d = tempfile.mkdtemp(prefix="c36-baseline-")
    cd = ControlDir.create(d, format=format_registry.make_controldir("git"))
    b = cd.create_branch()
    mt = b.create_memorytree()
    with mt.lock_write():
        mt.add([""], ["directory"])
        r1 = mt.commit("one", committer="a <a@example.com>")

    # A + B: set_parent / get_parent on the default branch
    for label, url in [
        ("A", "https://example.com/repo,branch=foo"),
        ("A", "https://example.com/repo,ref=refs%2Ftags%2Fv1"),
        ("B", "sftp://example.com/repo"),
        ("B", "bzr+ssh://example.com/repo"),
        ("B", "lp:brz"),
    ]:
        b = ControlDir.open(d).open_branch()
        b.set_parent(url)
        got = ControlDir.open(d).open_branch().get_parent()
        if got != url:
            problems.append(f"[{label}] set_parent({url!r}) read back as {got!r}")

    # B, function level
    for url in ["file:///tmp/x", "sftp://example.com/repo"]:
        got = bzr_url_to_git_url(git_url_to_bzr_url(url))[0]
        if got != url:
            problems.append(
                f"[B] bzr_url_to_git_url(git_url_to_bzr_url({url!r})) == {got!r}"
            )

    # C: colocated branch opened through its URL
    f = cd.create_branch("feature")
    f.generate_revision_history(r1)
    f2 = Branch.open(f.user_url)
    parent = "file:///tmp/c36-some-other-branch"
    f2.set_parent(parent)
    got = f2.get_parent()
    if got != parent:
        problems.append(
            f"[C] branch opened as {f.user_url}: set_parent({parent!r}) "
            f"read back as {got!r}"
        )

    # D: non-UTF-8 ref through the URL pair
    ref = b"refs/heads/\xffy"
    url = git_url_to_bzr_url("https://example.com/repo", ref=ref)
    back = bzr_url_to_git_url(url)
    if back[2] is None or os.fsencode(back[2]) != ref and back[2].encode(
        "utf-8", "surrogateescape"
    ) != ref:
        problems.append(
            f"[D] git_url_to_bzr_url(ref={ref!r}) = {url!r}; "
            f"bzr_url_to_git_url gives {back!r}"
        )

    if problems:
        print("BASELINE VIOLATIONS of C36 present:")
        for p in problems:
            print("  ", p)
        return 1
    print("no violation")
    return 0


if __name__ == "__main__":
    sys.exit(main())
