"""C16 baseline finding 3.

commit unversions files that are versioned but missing from disk; uncommit
does not undo that.  So after commit + uncommit the tree does NOT report the
same changes as before the commit: a 'missing' file (still versioned,
versioned=(True, True)) has become a 'removed' one (versioned=(True, False)).
Same for bzr and git trees.

Run: cd <worktree> && /venv/bin/python <this file>;  exit 1 = violation present.
"""

import os
import tempfile

from _common import finish, make_tree, write

from breezy.uncommit import uncommit
from breezy.workingtree import WorkingTree


def observe(wt):
    with wt.lock_read():
        changes = sorted(
            repr((c.path, c.versioned, c.kind))
            for c in wt.iter_changes(wt.basis_tree())
        )
        versioned = sorted(wt.all_versioned_paths())
    return changes, versioned


problems = []
for fmt in ("2a", "git"):
    base = tempfile.mkdtemp(prefix="c16-f3-")
    a = os.path.join(base, "a")
    wt = make_tree(a, fmt)
    write(os.path.join(a, "f"), "1\n")
    write(os.path.join(a, "g"), "1\n")
    wt.add(["f", "g"])
    wt.commit("one")
    os.unlink(os.path.join(a, "g"))  # missing, not `brz rm`-ed
    write(os.path.join(a, "f"), "2\n")
    wt = WorkingTree.open(a)
    before = observe(wt)
    wt.commit("two")
    uncommit(wt.branch, tree=wt)
    wt = WorkingTree.open(a)
    after = observe(wt)
    if before != after:
        problems.append(
            f"[{fmt}] tree reports different changes after commit+uncommit:\n"
            f"      before: {before!r}\n      after:  {after!r}"
        )
finish(problems)
