"""Baseline finding: GitWorkingTree.smart_add versions an explicitly named
control file (.git/config).  The bzr implementation refuses such a path with
ForbiddenControlFileError (inventorytree._SmartAddHelper.add checks
tree.is_control_filename on every named path); git/workingtree.py smart_add has
no such check on named paths, so '.git' and '.git/config' become versioned.
C11 clause: "... not a control directory ... nothing else becomes versioned".
"""
import os
import sys

sys.path.insert(0, os.path.dirname(os.path.abspath(__file__)))
from _common import make_tree, versioned  # noqa: E402
from breezy import errors  # noqa: E402

bad = False
for fmt, ctl in (("2a", ".bzr/README"), ("git", ".git/config")):
    p, wt = make_tree(fmt, "t-" + fmt)
    try:
        res = wt.smart_add([os.path.join(p, ctl)])
        print(f"[{fmt}] smart_add({ctl!r}) -> {res}")
    except errors.ForbiddenControlFileError as e:
        print(f"[{fmt}] refused: {e}")
    v = sorted(x for x in versioned(p) if x)
    print(f"[{fmt}] versioned afterwards: {v}")
    if v:
        print(f"[{fmt}] VIOLATION: control file(s) became versioned: {v}")
        bad = True
sys.exit(1 if bad else 0)
