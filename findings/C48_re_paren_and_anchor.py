"""Baseline (UNMODIFIED code) observations for C48.

Run as:  cd <worktree> && /venv/bin/python re_paren_and_anchor.py
Prints one line per observation; exits 1 if any of them reproduces.

1. "RE:" patterns: every "(" not followed by "?" is rewritten to "(?:" by a
   plain text substitution (_sub_re) that is not regex aware, so
     - an escaped paren   RE:a\\(b\\)   becomes  a\\(?:b\\)  : it no longer
       matches the file "a(b)" but does match "a:b)";
     - a paren in a class RE:[(]x       becomes  [(?:]x      : it also matches
       "?x" and ":x".
   The documented rule is that the text after RE: is a regular expression
   matched against the whole path.
2. Patterns are anchored with "$", not "\\Z", so a name that ends in a newline
   is reported as ignored by a pattern that matches the name without it
   ("foo.o\\n" is ignored by "*.o", "foo\\n" by "foo" and by "./foo").
3. Numeric back-references in RE: patterns refer to the groups of the combined
   batch regex, so the outcome depends on grouping: alone "RE:(.)\\1" is an
   invalid pattern (match() raises InvalidPattern), after another fullpath
   pattern it is silently accepted and never matches "xx".
4. "(?P<name>" removal is greedy ("\\(\\?P<.*>"): with two named groups
   everything between the first "(?P<" and the last ">" is dropped, so
   RE:(?P<a>x)(?P<b>y) matches "y" and not "xy" (a warning is printed).
"""

import os
import re
import sys

sys.path.insert(0, os.getcwd())

from breezy import lazy_regex  # noqa: E402
from breezy.globbing import Globster  # noqa: E402

found = []


def expect(label, got, want):
    status = "ok " if got == want else "BUG"
    print(f"{status} {label}: got {got!r}, documented semantics give {want!r}")
    if got != want:
        found.append(label)


def pyre(regex, name):
    return bool(re.fullmatch(regex, name))


# 1. escaped paren / paren in a character class
for pat, names in [
    (r"RE:a\(b\)", ["a(b)", "a:b)"]),
    (r"RE:[(]x", ["(x", "?x", ":x"]),
]:
    for name in names:
        expect(
            f"Globster([{pat!r}]).match({name!r}) is not None",
            Globster([pat]).match(name) is not None,
            pyre(pat[3:], name),
        )

# 2. "$" anchor lets a trailing newline through
for pat, name in [("*.o", "foo.o\n"), ("foo", "foo\n"), ("./foo", "foo\n")]:
    expect(
        f"Globster([{pat!r}]).match({name!r}) is not None",
        Globster([pat]).match(name) is not None,
        False,
    )

# 3. numeric back-reference depends on grouping
try:
    alone = Globster([r"RE:(.)\1"]).match("xx")
except lazy_regex.InvalidPattern:
    alone = "InvalidPattern"
grouped = Globster(["a/b", r"RE:(.)\1"]).match("xx")
expect("RE:(.)\\1 alone vs. listed after 'a/b' give the same outcome",
       repr(alone) == repr(grouped), True)

# 4. greedy named-group stripping
g = Globster(["RE:(?P<a>x)(?P<b>y)"])
expect("RE:(?P<a>x)(?P<b>y) matches 'xy'", g.match("xy") is not None, True)
expect("RE:(?P<a>x)(?P<b>y) matches 'y'", g.match("y") is not None, False)

sys.exit(1 if found else 0)
