import os, sys
sys.path.insert(0, os.getcwd())
import unittest
import breezy
from breezy import tests, branch as _mod_branch, controldir
from breezy.tests import test_server

class T(tests.TestCaseWithTransport):
    def run_seq(self, b, src1, src2):
        out = []
        b.lock_write()
        try:
            b.pull(src1)
            out.append(sorted(b.tags.get_tag_dict().items()))
            b.tags.set_tag('x', b'r1')
            out.append(sorted(b.tags.get_tag_dict().items()))
            print("REAL", getattr(getattr(b, "_real_branch", None), "_tags_bytes", "n/a"), type(getattr(b, "_real_branch", None)))
            b.pull(src2)
            out.append(sorted(b.tags.get_tag_dict().items()))
        finally:
            b.unlock()
        return out
    def test_it(self):
        tree = self.make_branch_and_tree('src1')
        tree.commit('one', rev_id=b'r1')
        tree.commit('two', rev_id=b'r2')
        tree.branch.tags.set_tag('t1', b'r1')
        tree2 = tree.controldir.sprout('src2').open_workingtree()
        tree2.branch.tags.set_tag('t2', b'r2')
        self.make_branch('b')
        self.make_branch('c')
        srv = self.make_smart_server('b')
        rb = _mod_branch.Branch.open(srv.base)
        lb = _mod_branch.Branch.open('c')
        r = self.run_seq(rb, tree.branch, tree2.branch)
        l = self.run_seq(lb, tree.branch, tree2.branch)
        print(r); print(l)
        self.assertEqual(l, r)
        self.assertEqual(_mod_branch.Branch.open('b').tags.get_tag_dict(), _mod_branch.Branch.open('c').tags.get_tag_dict())

if __name__ == '__main__':
    breezy.initialize()
    res = unittest.TextTestRunner(verbosity=1).run(unittest.defaultTestLoader.loadTestsFromTestCase(T))
    sys.exit(0 if res.wasSuccessful() else 1)
