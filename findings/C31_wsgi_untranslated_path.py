import sys, os, tempfile
sys.path.insert(0, os.getcwd())
import breezy
from breezy import controldir, transport as _t
import breezy.bzr
from breezy.bzr.smart import medium, protocol, request, vfs
from breezy.transport.http import wsgi
from io import BytesIO
breezy.initialize()
d = tempfile.mkdtemp()
os.makedirs(d + "/served/repo")
os.makedirs(d + "/outside")
controldir.ControlDir.create(d + "/outside")
open(d + "/outside/secret.txt", "w").write("secret")
app = wsgi.SmartWSGIApp(_t.get_transport_from_path(d + "/served"))
def call(relpath, *args):
    write_buf = BytesIO()
    m = medium.SmartSimplePipesClientMedium(None, write_buf, "fake:" + relpath)
    enc = protocol.ProtocolThreeRequester(m.get_request())
    enc.call(*args)
    write_buf.seek(0)
    environ = {"REQUEST_METHOD": "POST", "CONTENT_LENGTH": len(write_buf.getvalue()), "wsgi.input": write_buf, "breezy.relpath": relpath}
    out = app(environ, lambda s, h: None)
    return b"".join(out)
print(call("/repo", b"BzrDir.open_2.1", b"..%2F..%2Foutside"))
print(call("/repo", b"BzrDir.open_2.1", b"../../outside"))
print(call("/repo", b"get", b"..%252F..%252Foutside%252Fsecret.txt"))
print(call("/repo", b"get", b"..%2F..%2Foutside%2Fsecret.txt"))
