"""Baseline finding (unmodified code): an error raised in the client's body
stream is encoded on the wire (oE + ('error',) structure) but the server side
drops it: SmartServerRequestHandler.post_body_error_received is a no-op and
ConventionalRequestHandler.end_received then calls the command's do_end(), so
the command completes normally on the truncated stream and answers success
(for Repository.insert_stream that means committing a partial stream).

Run: cd <worktree> && /venv/bin/python <this file>; exit 1 = violation present.
"""
import os, sys
sys.path.insert(0, os.getcwd())
import breezy
breezy.initialize()
from dromedary import memory
from breezy import registry
from breezy.bzr.smart import message, protocol, request

seen = {}

class StreamVerb(request.SmartServerRequest):
    def do(self):
        seen["chunks"] = []
        return None
    def do_chunk(self, chunk):
        seen["chunks"].append(chunk)
    def do_end(self):
        seen["do_end_called"] = True
        return request.SuccessfulSmartServerResponse((b"ok", b"%d" % len(seen["chunks"])))

class FakeMediumRequest:
    def __init__(self):
        self.wire = []
    def accept_bytes(self, b):
        self.wire.append(b)
    def finished_writing(self):
        pass

def stream():
    yield b"chunk one"
    yield b"chunk two"
    raise RuntimeError("source failed mid-stream")

mr = FakeMediumRequest()
requester = protocol.ProtocolThreeRequester(mr)
try:
    requester.call_with_body_stream((b"StreamVerb",), stream())
except RuntimeError:
    pass
wire = b"".join(mr.wire)

commands = registry.Registry()
commands.register(b"StreamVerb", StreamVerb)
out = []
handler = request.SmartServerRequestHandler(memory.MemoryTransport(), commands, "/")
responder = protocol.ProtocolThreeResponder(out.append)
decoder = protocol.ProtocolThreeDecoder(
    message.ConventionalRequestHandler(handler, responder), expect_version_marker=True)
decoder.accept_bytes(wire)

rh = message.ConventionalResponseHandler()
rdec = protocol.ProtocolThreeDecoder(rh, expect_version_marker=True)
class _R:
    def finished_reading(self): pass
rh.setProtoAndMediumRequest(rdec, _R())
rdec.accept_bytes(b"".join(out))
print("server command saw chunks:", seen.get("chunks"), "do_end called:", seen.get("do_end_called"))
print("server response status=%r args=%r" % (rh.status, rh.args))
if seen.get("do_end_called") and rh.status == b"S":
    print("VIOLATION: the client's mid-stream error was not delivered; the "
          "server treated the truncated stream as complete and answered success")
    sys.exit(1)
print("OK")
