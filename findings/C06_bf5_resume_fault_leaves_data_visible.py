"""Baseline finding 5 (C06): an I/O fault while resuming the 2nd of two tokens
leaves the 1st suspended pack's content visible outside any write group.

PackRepository._resume_write_group() opens a new pack (_start_write_group),
resumes the tokens one by one and only cleans up when the failure is an
UnresumableWriteGroup (i.e. NoSuchFile / malformed token).  Any other error
while opening the index files of a later token (here an injected
ConnectionReset from transport.stat(), think flaky sftp/NFS) propagates
unhandled.  Repository.resume_write_group() then never sets _write_group, so:

  * is_in_write_group() is False, unlock() does not abort anything,
  * the indices of the packs that had been resumed so far stay in the aggregate
    indices: their uncommitted texts are visible through texts.keys(),
  * the new pack opened by _start_write_group is dangling: the next
    start_write_group() on the object fails ("already has a writable index").

exit 1 + message when the violation is present, exit 0 otherwise.
Run as:  cd <worktree> && /venv/bin/python bf5_resume_fault_leaves_data_visible.py
"""

import os
import sys
import tempfile

sys.path.insert(0, os.getcwd())
os.environ["BRZ_HOME"] = tempfile.mkdtemp(prefix="c06-home-")

import breezy  # noqa: E402

breezy.initialize()
import breezy.bzr  # noqa: E402,F401
from breezy import controldir  # noqa: E402


class ConnectionLost(OSError):
    """Injected transport fault (not NoSuchFile)."""


def main():
    d = tempfile.mkdtemp(prefix="c06-bf5-")
    controldir.format_registry.make_controldir("2a").initialize(d).create_repository()

    writer = controldir.ControlDir.open(d).open_repository()
    writer.lock_write()
    writer.start_write_group()
    writer.texts.add_lines((b"f", b"r1"), (), [b"one\n"])
    tokens = writer.suspend_write_group()
    writer.unlock()
    writer = controldir.ControlDir.open(d).open_repository()
    writer.lock_write()
    writer.resume_write_group(tokens)
    writer.texts.add_lines((b"f", b"r2"), (), [b"two\n"])
    tokens = writer.suspend_write_group()
    writer.unlock()
    assert len(tokens) == 2, tokens

    repo = controldir.ControlDir.open(d).open_repository()
    repo.lock_write()
    before = sorted(repo.texts.keys())
    upload = repo._pack_collection._upload_transport
    orig_stat = upload.stat
    second = tokens[1]

    def flaky_stat(relpath):
        if relpath.startswith(second):
            raise ConnectionLost("injected: connection lost during stat")
        return orig_stat(relpath)

    upload.stat = flaky_stat
    try:
        repo.resume_write_group(tokens)
    except ConnectionLost as e:
        print("resume failed as injected:", e)
    else:
        print("fault was not hit; cannot evaluate")
        return 2
    finally:
        upload.stat = orig_stat
    in_wg = bool(repo.is_in_write_group())
    after = sorted(repo.texts.keys())
    print("in write group:", in_wg)
    print("texts before:", before)
    print("texts after the failed resume:", after)
    problems = []
    if not in_wg and after != before:
        problems.append(
            "not in a write group, yet uncommitted texts are visible: %r" % (after,)
        )
    if not in_wg:
        try:
            repo.start_write_group()
        except AssertionError as e:
            problems.append("object is stuck: start_write_group: %s" % str(e)[:90])
        else:
            repo.abort_write_group()
    try:
        repo.unlock()
    except BaseException as e:  # noqa: BLE001
        problems.append("unlock: %r" % (e,))
    if problems:
        print("VIOLATION (baseline):")
        for p in problems:
            print("  -", p)
        return 1
    print("no violation")
    return 0


if __name__ == "__main__":
    sys.exit(main())
