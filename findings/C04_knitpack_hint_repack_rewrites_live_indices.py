"""Baseline finding (unmodified code).

pack-0.92 (KnitPack) repositories: Repository.pack(hint=[name]) where `name`
is a pack that is already optimally packed (it was produced by an earlier
`pack`) and the repository has at least one other pack.

OptimisingKnitPacker re-creates byte-identical content, so the new pack gets
the *same* md5 name as the live source pack.  NewPack.finish() then
truncates and rewrites the live index files indices/NAME.{rix,iix,tix,six}
in place and renames the upload over packs/NAME.pack, and only afterwards
RepositoryPackCollection.allocate() notices "Pack NAME already exists" and
raises BzrError.  (GCCHKPacker has a guard for exactly this case -
"single pack was already optimally packed" - KnitPacker has none.)

 * without any crash the operation fails with BzrError, and
 * a process that stops while the indices are being rewritten leaves a
   repository whose pack-names lists a pack with empty/truncated indices:
   Repository.open + all_revision_ids fails.

Run:  cd <worktree> && /venv/bin/python knitpack_hint_repack_rewrites_live_indices.py
Exit 1 + message when the violation is present.
"""

import os
import shutil
import sys
import tempfile

sys.path.insert(0, os.getcwd())
os.environ["BRZ_EMAIL"] = "Tester <t@example.com>"
os.environ["BRZ_HOME"] = tempfile.mkdtemp(prefix="c04-home-")
os.environ["HOME"] = os.environ["BRZ_HOME"]

import breezy
import breezy.bzr  # noqa: F401
from breezy import controldir, errors, trace
from breezy.repository import Repository

breezy.initialize().__enter__()
trace.be_quiet(True)

MUTATORS = {
    "put_file", "put_bytes", "move", "rename", "delete", "mkdir",
    "append_bytes", "append_file", "open_write_stream",
}


class Recorder:
    def __init__(self, repo_dir, snap_root):
        self.repo_dir = repo_dir
        self.snap_root = snap_root
        self.snaps = []

    def snap(self, label):
        dest = os.path.join(self.snap_root, "s%03d" % len(self.snaps))
        shutil.copytree(self.repo_dir, dest)
        self.snaps.append((label, dest))


class Proxy:
    def __init__(self, inner, rec, tag):
        self.__dict__.update(_inner=inner, _rec=rec, _tag=tag)

    def __getattr__(self, name):
        attr = getattr(self._inner, name)
        if name not in MUTATORS:
            return attr

        def wrapper(*args, **kwargs):
            desc = "%s.%s(%s)" % (self._tag, name, ", ".join(repr(a)[:50] for a in args[:2]))
            self._rec.snap("before " + desc)
            result = attr(*args, **kwargs)
            self._rec.snap("after " + desc)
            return result

        return wrapper


def instrument(repo, rec):
    coll = repo._pack_collection
    coll.transport = Proxy(coll.transport, rec, "repo")
    coll._index_transport._transport = Proxy(coll._index_transport._transport, rec, "indices")
    coll._upload_transport._transport = Proxy(coll._upload_transport._transport, rec, "upload")
    coll._pack_transport = Proxy(coll._pack_transport, rec, "packs")


def problem_with(path, allowed):
    try:
        repo = Repository.open(path)
        with repo.lock_read():
            revs = frozenset(repo.all_revision_ids())
            if revs not in allowed:
                return "revision set %r" % (sorted(revs),)
            for r in revs:
                repo.get_revision(r)
                t = repo.revision_tree(r)
                for p, ie in t.iter_entries_by_dir():
                    if ie.kind == "file":
                        t.get_file_text(p)
            repo.check(list(revs))
    except Exception as e:
        return "%s: %s" % (type(e).__name__, str(e)[:200])
    return None


root = tempfile.mkdtemp(prefix="c04-base2-")
wt_path = os.path.join(root, "wt")
tree = controldir.ControlDir.create_standalone_workingtree(
    wt_path, format=controldir.format_registry.make_controldir("pack-0.92")
)
with open(os.path.join(wt_path, "f"), "w") as f:
    f.write("0\n")
tree.add(["f"])
revs = []
for i in range(3):
    with open(os.path.join(wt_path, "f"), "a") as f:
        f.write("line %d\n" % i)
    revs.append(tree.commit("c%d" % i, rev_id=b"rev-%d" % i))
repo = tree.branch.repository
repo.pack()
with repo.lock_read():
    packed_names = repo._pack_collection.names()
with open(os.path.join(wt_path, "f"), "a") as f:
    f.write("more\n")
revs.append(tree.commit("more", rev_id=b"rev-more"))

rec = Recorder(wt_path, os.path.join(root, "snaps"))
os.mkdir(rec.snap_root)
instrument(repo, rec)
failed = False
try:
    repo.pack(hint=packed_names)
except errors.BzrError as e:
    print("VIOLATION (no crash needed): pack(hint=%r) raised %s: %s"
          % (packed_names, type(e).__name__, str(e)[:120]))
    failed = True
allowed = {frozenset(revs)}
bad = [(label, p) for label, path in rec.snaps for p in [problem_with(path, allowed)] if p]
if bad:
    failed = True
    print("VIOLATION: stopping the process at %d of %d points of pack(hint=...) "
          "leaves an unusable repository, e.g." % (len(bad), len(rec.snaps)))
    for label, problem in bad[:3]:
        print("   crash %s -> %s" % (label, problem))
if failed:
    print("FAIL")
    sys.exit(1)
print("PASS")
