"""Baseline finding (unmodified code): Repository.get_parent_map() with b"null:" among
the keys answers differently through a smart server than on the local path.

Local:   get_parent_map([b"null:", b"r2"]) == {b"null:": (), b"r2": (b"r1",)}
Remote:  RemoteRepository._get_parent_map_rpc builds found_parents={b"null:": ()} but
         returns only the server's revision_graph, so b"null:" is dropped whenever it
         is asked together with another key.  While the repository is read-locked the
         CachingParentsProvider (cache_misses=True) then records b"null:" as a MISSING
         key, so that even a later get_parent_map([b"null:"]) in the same lock returns {}.
Run: cd <worktree> && /venv/bin/python remote_get_parent_map_null.py ; exit 1 = violation present.
"""
import os, sys, tempfile, shutil
sys.path.insert(0, os.getcwd())
os.environ["BRZ_EMAIL"] = "T <t@example.com>"
_home = tempfile.mkdtemp(prefix="c32home-")
os.environ["BRZ_HOME"] = _home
import breezy
breezy.initialize()
import breezy.bzr  # noqa
from breezy import controldir, branch as _b, trace
from breezy.tests import test_server
trace.be_quiet(True)
tmp = tempfile.mkdtemp(prefix="c32bf-")
os.chdir(tmp)
fmt = controldir.format_registry.make_controldir("2a")
for name in ("loc", "rem"):
    wt = controldir.ControlDir.create_standalone_workingtree(name, format=fmt)
    wt.commit("one", rev_id=b"r1")
    wt.commit("two", rev_id=b"r2")


def sequence(b):
    out = []
    with b.lock_read():
        r = b.repository
        out.append(r.get_parent_map([b"null:", b"r2", b"ghost"]))
        out.append(r.get_parent_map([b"null:", b"ghost"]))
        out.append(r.get_parent_map([b"null:"]))
    return out


srv = test_server.SmartTCPServer_for_testing()
srv.start_server()
try:
    lres = sequence(_b.Branch.open("loc"))
    rres = sequence(_b.Branch.open(srv.get_url() + "rem"))
finally:
    srv.stop_server()
    os.chdir("/")
    shutil.rmtree(tmp, ignore_errors=True)
    shutil.rmtree(_home, ignore_errors=True)
print("local :", lres)
print("remote:", rres)
if lres != rres:
    print("VIOLATION: get_parent_map results differ between local path and smart server")
    sys.exit(1)
print("PASS")
