"""Baseline: upgrading a format-5 (weave, all-in-one) branch that contains a
file id with a '%' (or a non-ASCII byte) aborts inside ConvertBzrDir5To6 after
.bzr/branch-format has already been deleted: the location can no longer be
opened at all ("Not a branch"); the history only survives in backup.bzr.~1~.

ConvertBzrDir5To6._convert_to_prefixed un-escapes the listed file name and then
hands the un-escaped name back to transport.move(), which un-escapes it again.

Run: cd <worktree> && /venv/bin/python format5_unusual_file_id.py
"""

import os
import sys
import tempfile

sys.path.insert(0, os.getcwd())
os.environ["BRZ_EMAIL"] = "Tester <t@example.com>"
os.environ["BRZ_HOME"] = tempfile.mkdtemp()

import breezy

breezy.initialize()
import breezy.bzr.bzrdir  # noqa
from breezy import branch as _b
from breezy import controldir, upgrade
from breezy.plugin import load_plugins

load_plugins()
from breezy.plugins.weave_fmt.bzrdir import BzrDirFormat5

d = tempfile.mkdtemp()
os.chdir(d)
t = controldir.ControlDir.create_standalone_workingtree("a", format=BzrDirFormat5())
with open("a/x", "w") as f:
    f.write("x\n")
t.add(["x"], ids=[b"x%41-id"])
tip = t.commit("one")
print("exceptions:", upgrade.upgrade("a", controldir.format_registry.make_controldir("2a")))
try:
    b = _b.Branch.open("a")
    assert b.last_revision() == tip
    print("PASS")
except Exception as e:  # noqa: BLE001
    print("FAIL: after the aborted upgrade the branch cannot be opened: %s: %s"
          % (type(e).__name__, e))
    sys.exit(1)
