"""RemoteBranch.pull() under an already held write lock: tags merged by the pull are invisible through the remote branch."""
import sys, unittest
import breezy.bzr, breezy
from breezy import tests, branch as _mod_branch
from breezy.tests import test_server
from breezy.bzr.remote import RemoteBranch
class T(tests.TestCaseWithTransport):
    def check(self, remote):
        src = self.make_branch_and_tree("src")
        r1 = src.commit("one")
        src.branch.tags.set_tag("t1", r1)
        self.make_branch("dst")
        if remote:
            self.transport_server = test_server.SmartTCPServer_for_testing
            self.start_server  # noqa
            smart = test_server.SmartTCPServer_for_testing()
            self.start_server(smart, self.get_server())
            b = _mod_branch.Branch.open(smart.get_url() + "dst")
            assert isinstance(b, RemoteBranch), b
        else:
            b = _mod_branch.Branch.open("dst")
        with b.lock_write():
            before = dict(b.tags.get_tag_dict())      # fills the per-lock cache
            b.pull(src.branch)
            after = dict(b.tags.get_tag_dict())
        return before, after
    def test_both(self):
        l = self.check(False)
        print("local :", l, file=sys.__stderr__)
    def test_remote(self):
        r = self.check(True)
        print("remote:", r, file=sys.__stderr__)
        self.assertEqual({"t1"}, set(r[1]), "tag merged by pull is not visible through the RemoteBranch in the same lock")
unittest.main(argv=["x"])
