"""Baseline (unmodified tree) disagreements between git SHA-map cache backends.

Run as: cd <worktree> && /venv/bin/python repro_backend_disagreements.py
Exits 1 and lists each violation that is present; exits 0 if none is.

The same update sequence is fed to the dict, sqlite and index backends through
their CacheUpdater: one revision "r1" holding two files with identical content
(f1, f2) in two directories with identical content (d1, d2).
"""
import os
import shutil
import stat
import sys
import tempfile

sys.path.insert(0, os.getcwd())

from dromedary import get_transport_from_path  # noqa: E402
from dulwich.objects import Blob, Commit, Tree  # noqa: E402

from breezy.git import cache as C  # noqa: E402
from breezy.revision import Revision  # noqa: E402


def rev(revid):
    return Revision(revid, parent_ids=[], message="", committer="", timezone=0,
                    timestamp=0, properties={}, inventory_sha1=None)


def mkcommit(tree_id, msg):
    c = Commit()
    c.committer = c.author = b"a <a@b>"
    c.commit_time = c.author_time = 1
    c.commit_timezone = c.author_timezone = 0
    c.message = msg
    c.tree = tree_id
    return c


def q(f):
    try:
        r = f()
        if not isinstance(r, (bytes, str)):
            r = sorted(r)
        return r
    except Exception as e:
        return "raises " + type(e).__name__


def main():
    d = tempfile.mkdtemp(prefix="c38-baseline-")
    problems = []
    try:
        os.mkdir(d + "/idx")
        caches = {
            "dict": C.DictBzrGitCache(),
            "sqlite": C.SqliteBzrGitCache(d + "/idmap.db"),
            "index": C.BzrGitCache(
                C.IndexGitShaMap(get_transport_from_path(d + "/idx")),
                C.IndexCacheUpdater),
        }
        b = Blob()
        b.data = b"same"
        t = Tree()
        t.add(b"f", stat.S_IFREG | 0o644, b.id)
        res = {}
        for name, c in caches.items():
            m = c.idmap
            m.start_write_group()
            u = c.get_updater(rev(b"r1"))
            u.add_object(b, (b"f1", b"r1"), "a/f")
            u.add_object(b, (b"f2", b"r1"), "b/f")
            u.add_object(t, (b"d1", b"r1"), "a")
            u.add_object(t, (b"d2", b"r1"), "b")
            u.add_object(mkcommit(t.id, b"one"), {"testament3-sha1": b"x" * 40}, None)
            u.finish()
            m.commit_write_group()
            res[name] = {
                "lookup_tree_id(d1,r1)": q(lambda: m.lookup_tree_id(b"d1", b"r1")),
                "lookup_tree_id(d2,r1)": q(lambda: m.lookup_tree_id(b"d2", b"r1")),
                "lookup_git_sha(blob)": q(lambda: list(m.lookup_git_sha(b.id))),
                "lookup_git_sha(tree)": q(lambda: list(m.lookup_git_sha(t.id))),
                "sha1s()": q(lambda: list(m.sha1s())),
            }
        for k in res["dict"]:
            vals = {n: res[n][k] for n in res}
            if len({repr(v) for v in vals.values()}) > 1:
                problems.append("%s differs: %r" % (k, vals))

        # add_object(blob, None, path): "not every object has bzr key data"
        for name, c in caches.items():
            m = c.idmap
            m.start_write_group()
            u = c.get_updater(rev(b"r2"))
            b2 = Blob()
            b2.data = b"other"
            r = q(lambda: u.add_object(b2, None, "x") or "ok")
            m.abort_write_group()
            res[name]["add_object(blob, None)"] = r
        vals = {n: res[n]["add_object(blob, None)"] for n in res}
        if len(set(vals.values())) > 1:
            problems.append("add_object(blob, bzr_key_data=None) differs: %r" % vals)

        # abort_write_group: which revisions are known afterwards?
        known = {}
        for name, c in caches.items():
            m = c.idmap
            m.start_write_group()
            u = c.get_updater(rev(b"r3"))
            u.add_object(mkcommit(t.id, b"three"), {}, None)
            u.finish()
            m.abort_write_group()
            known[name] = q(lambda: list(m.revids()))
        if len({repr(v) for v in known.values()}) > 1:
            problems.append("revids() after abort_write_group differs: %r" % known)

        # IndexGitShaMap.repack() is unusable
        m = caches["index"].idmap
        r = q(lambda: m.repack() or "ok")
        if r != "ok":
            problems.append("IndexGitShaMap.repack() %s" % r)
    finally:
        shutil.rmtree(d, ignore_errors=True)
    if problems:
        print("VIOLATIONS PRESENT on this tree:")
        for p in problems:
            print(" -", p)
        return 1
    print("no violation")
    return 0


if __name__ == "__main__":
    sys.exit(main())
