"""Baseline finding (unmodified code): after os.fork() two breezy processes
draw the SAME "random" names.

breezy.osutils.rand_chars() (crates/osutils/src/lib.rs) and the pack upload
name in bzrformats' NewPack are implemented in Rust with rand::rng() (a
thread-local generator).  Its state is copied by fork() and is not reseeded in
the child, so every child forked from a parent that has already used the
generator produces the same sequence: identical upload pack names
(upload/<20 chars>.pack), identical revision ids, identical lock nonces.
(Seen first with a fork()-based stress test: identical revision ids and
NoSuchFile / UnknownRecordType / "Revision already present" errors.)

For C05 this means that two forked writers committing to the same pack
repository open and write THE SAME upload file.  In the schedule below the
bytes of writer A land in the file writer B is building; B then commits
successfully (its pack is renamed into packs/ and listed in pack-names) but
the bytes at the offsets in B's indices are A's: B's write group committed
successfully and its data is not readable afterwards (KnitCorrupt).

(bzr's original rand_chars used os.urandom and did not have this problem.)

Run from the worktree root: /venv/bin/python fork_same_upload_name.py
Exit 1 + message when the violation is present, exit 0 otherwise.
"""

import os
import shutil
import sys
import tempfile

sys.path.insert(0, os.getcwd())
os.environ["BRZ_EMAIL"] = "Tester <tester@example.com>"
os.environ["BRZ_HOME"] = tempfile.mkdtemp(prefix="c05-home-")

import breezy  # noqa: E402

breezy.initialize()

import breezy.bzr  # noqa: E402,F401
from breezy import controldir, osutils, repository, trace  # noqa: E402

trace.be_quiet(True)

# Knit-based pack formats write every record to the upload file as soon as it
# is added, which makes the interleaving below deterministic.  (With "2a" the
# two writers draw the same upload name as well, but data only reaches the file
# when a group is flushed, so corrupting it needs a real race or big commits.)
FORMAT = sys.argv[1] if len(sys.argv) > 1 else "1.9"


def add_text(repo, fileid, n):
    lines = [b"%s line %d\n" % (fileid, i) for i in range(n)]
    repo.texts.add_lines((fileid, b"rev-" + fileid), [], lines)
    return lines


def writer(name, path, go_r, done_w):
    """Runs in a forked child."""
    repo = repository.Repository.open(path)
    repo.lock_write()
    repo.start_write_group()
    upload_name = repo._pack_collection._new_pack.random_name
    os.write(done_w, ("%s\n" % upload_name).encode())  # "write group open"
    os.read(go_r, 1)  # wait for our turn
    add_text(repo, name.encode(), 200)
    # Read the text back: this flushes the data written so far to the upload
    # file.  Then wait for our turn to commit.
    key = (name.encode(), b"rev-" + name.encode())
    next(repo.texts.get_record_stream([key], "unordered", True)).get_bytes_as(
        "fulltext"
    )
    os.write(done_w, b"flushed\n")
    os.read(go_r, 1)
    try:
        repo.commit_write_group()
        os.write(done_w, b"committed\n")
    except BaseException as e:  # noqa: BLE001
        try:
            repo.abort_write_group(suppress_errors=True)
        except BaseException:  # noqa: BLE001
            pass
        os.write(done_w, ("failed %s\n" % type(e).__name__).encode())
    os._exit(0)


def readline(fd):
    out = b""
    while not out.endswith(b"\n"):
        c = os.read(fd, 1)
        if not c:
            break
        out += c
    return out.decode().strip()


def main():
    base = tempfile.mkdtemp(prefix="c05-fork-")
    try:
        path = base + "/repo"
        controldir.ControlDir.create(
            path, format=controldir.format_registry.make_controldir(FORMAT)
        ).create_repository(shared=True)
        # The parent has used the generators before forking: it has created
        # the repository (breezy.osutils.rand_chars) and committed one write
        # group (pack upload names).  Any long-lived process that forks
        # workers after doing some breezy work is in this state.
        osutils.rand_chars(4)
        parent_repo = repository.Repository.open(path)
        with parent_repo.lock_write():
            parent_repo.start_write_group()
            add_text(parent_repo, b"parent", 3)
            parent_repo.commit_write_group()

        chans = {}
        for name in ("A", "B"):
            go_r, go_w = os.pipe()
            done_r, done_w = os.pipe()
            pid = os.fork()
            if pid == 0:
                try:
                    writer(name, path, go_r, done_w)
                finally:
                    os._exit(1)
            chans[name] = (pid, go_w, done_r)

        # Schedule: A opens its write group, B opens its write group, B adds
        # a text, A adds a text, B commits, A tries to commit.
        upload_a = readline(chans["A"][2])
        upload_b = readline(chans["B"][2])
        print("upload pack name drawn by A: %s" % upload_a)
        print("upload pack name drawn by B: %s" % upload_b)
        os.write(chans["B"][1], b"x")
        readline(chans["B"][2])  # B has written its text
        os.write(chans["A"][1], b"x")
        readline(chans["A"][2])  # A has written its text - to the same file
        os.write(chans["B"][1], b"x")
        result_b = readline(chans["B"][2])
        os.write(chans["A"][1], b"x")
        result_a = readline(chans["A"][2])
        for pid, _, _ in chans.values():
            os.waitpid(pid, 0)
        print("writer B: %s; writer A: %s" % (result_b, result_a))

        problems = []
        if upload_a == upload_b:
            problems.append("both forked writers use the same upload file name")
        check = repository.Repository.open(path)
        with check.lock_read():
            for name, result in (("A", result_a), ("B", result_b)):
                if result != "committed":
                    continue
                key = (name.encode(), b"rev-" + name.encode())
                try:
                    rec = next(
                        check.texts.get_record_stream([key], "unordered", True)
                    )
                    text = rec.get_bytes_as("fulltext")
                    if text.count(b"\n") != 200:
                        raise ValueError("wrong content")
                except Exception as e:  # noqa: BLE001
                    problems.append(
                        "writer %s committed successfully but its text is "
                        "unreadable: %s: %s" % (name, type(e).__name__, str(e)[:100])
                    )
        if problems:
            print("VIOLATION PRESENT:")
            for p in problems:
                print("  - " + p)
            return 1
        print("no violation")
        return 0
    finally:
        shutil.rmtree(base, ignore_errors=True)
        shutil.rmtree(os.environ["BRZ_HOME"], ignore_errors=True)


if __name__ == "__main__":
    sys.exit(main())
