"""Demonstration for the C15 defect repaired by /repo commit a5bbb59 (two scripts in one file; run each half with
BRZ_EMAIL="a <a@b>" BRZ_HOME=/tmp/h /venv/bin/python).  Before the fix: `after {... 'g': (False, ...)} same: False` and
`after shelving the deletion: x executable in tree: False ... changes: True`.
"""
import os, sys, tempfile
import breezy.bzr, breezy
from breezy import controldir, tests
from breezy.shelf_ui import Shelver, Unshelver
breezy.initialize()
d = tempfile.mkdtemp(); os.chdir(d)
wt = controldir.ControlDir.create_standalone_workingtree("t")
open("t/f","w").write("a\n"); wt.add(["f"]); wt.commit("one")
os.chmod("t/f", 0o755)
open("t/g","w").write("new\n"); wt.add(["g"]); os.chmod("t/g", 0o755)
def snap():
    wt2 = wt.controldir.open_workingtree()
    with wt2.lock_read():
        return {p: (wt2.is_executable(p), open("t/"+p).read()) for p in ("f","g") if os.path.exists("t/"+p)}
before = snap(); print("before", before)
s = Shelver.from_args(None, all=True, directory="t")
try: s.run()
finally: s.finalize()
print("shelved", snap())
u = Unshelver.from_args(directory="t")
try: u.run()
finally: u.tree.unlock()
print("after", snap(), "same:", snap()==before)
import os, sys, tempfile
import breezy.bzr, breezy
from breezy import controldir, tests
from breezy.shelf_ui import Shelver, Unshelver
breezy.initialize()
d = tempfile.mkdtemp(); os.chdir(d)
wt = controldir.ControlDir.create_standalone_workingtree("t")
open("t/x","w").write("a\n"); wt.add(["x"]); os.chmod("t/x", 0o755); wt.commit("one")
wt.remove(["x"], keep_files=False)
s = Shelver.from_args(None, all=True, directory="t")
try: s.run()
finally: s.finalize()
wt2 = wt.controldir.open_workingtree()
with wt2.lock_read():
    print("after shelving the deletion: x executable in tree:", wt2.is_executable("x"), "on disk:", bool(os.stat("t/x").st_mode & 0o100), "changes:", wt2.has_changes())
