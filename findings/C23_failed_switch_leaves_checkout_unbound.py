"""BASELINE FINDING (C23): a `switch` of a heavyweight checkout that fails half
way leaves the checkout silently UNBOUND, so later commits no longer reach any
master.

breezy/switch.py:_set_branch_location does, for a heavyweight checkout:

    with b.lock_write():
        b.set_bound_location(None)
        b.pull(to_branch, overwrite=True, possible_transports=...)
        b.set_bound_location(to_branch.base)

There is no try/finally: when the pull raises (here: the checkout's branch has
append_revisions_only set and the new branch has diverged; a connection error,
a TipChangeRejected hook or ^C do the same) the binding is never restored.
The next `commit` in the "checkout" succeeds and changes only the local branch.

Run:  cd <worktree> && /venv/bin/python failed_switch_leaves_checkout_unbound.py
Exit 1 when the violation is present.
"""

import sys, os
sys.path.insert(0, os.path.dirname(os.path.abspath(__file__)))
from C23__prelude import scratch, make_tree, commit_file
from breezy import switch
from breezy.branch import Branch
from breezy.workingtree import WorkingTree

scratch("c23-switch-")
mt = make_tree("m")
commit_file(mt, "m", "a", "one")
other = mt.branch.controldir.sprout("other").open_workingtree()
commit_file(other, "other", "o", "other")
commit_file(mt, "m", "b", "two")
co = mt.branch.create_checkout("co")
co.branch.set_append_revisions_only(True)
bound_before = co.branch.get_bound_location()
try:
    switch.switch(co.controldir, other.branch)
    print("switch unexpectedly succeeded")
except Exception as e:
    print("switch failed with", type(e).__name__)
co = WorkingTree.open("co")
bound_after = co.branch.get_bound_location()
print("bound before:", bound_before)
print("bound after :", bound_after)
rc = 0
if bound_after is None:
    r3 = commit_file(co, "co", "c", "three")
    print("commit in the checkout succeeded: local %r, old master %r" % (
        co.branch.last_revision_info(), Branch.open("m").last_revision_info()))
    print("VIOLATION: failed switch left the checkout unbound; commit changed only the local branch")
    rc = 1
print("FAIL" if rc else "PASS")
sys.exit(rc)
