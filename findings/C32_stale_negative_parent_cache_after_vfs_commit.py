import os, sys
sys.path.insert(0, os.getcwd())
import unittest
import breezy
from breezy import tests, branch as _mod_branch, controldir
from breezy.tests import test_server

class T(tests.TestCaseWithTransport):
    def run_seq(self, b):
        out = []
        b.lock_write()
        try:
            repo = b.repository
            out.append(('pm1', repo.get_parent_map([b'r2'])))
            t = b.create_memorytree()
            with t.lock_write():
                t.commit('two', rev_id=b'r2')
            out.append(('pm2', repo.get_parent_map([b'r3'])))
            with t.lock_write():
                t.commit('three', rev_id=b'r3')
            out.append(('pm3', repo.get_parent_map([b'r3'])))
            out.append(('has', repo.has_revision(b'r3')))
            out.append(b.last_revision_info())
        finally:
            b.unlock()
        return out
    def test_it(self):
        tree = self.make_branch_and_tree('b')
        tree.commit('one', rev_id=b'r1')
        tree2 = self.make_branch_and_tree('c')
        tree2.commit('one', rev_id=b'r1')
        srv = self.make_smart_server('b')
        rb = _mod_branch.Branch.open(srv.base)
        lb = _mod_branch.Branch.open('c')
        r = self.run_seq(rb)
        l = self.run_seq(lb)
        print(r); print(l)
        self.assertEqual(l, r)

if __name__ == '__main__':
    breezy.initialize()
    res = unittest.TextTestRunner(verbosity=1).run(unittest.defaultTestLoader.loadTestsFromTestCase(T))
    sys.exit(0 if res.wasSuccessful() else 1)
