"""UNMODIFIED code: BundleWriter.encode_name / BundleReader.decode_name (v4) are
not inverse when a file id starts with "/": ("file", b"rev", b"/fid") encodes to
b"file/rev///fid", which decodes as revision b"rev/", file id b"fid".  A bundle
carrying such a file cannot be installed (RevisionNotPresent from add_mpdiffs).

Run: cd <worktree> && /venv/bin/python 2_v4_file_id_starting_with_slash.py
"""
import os, sys
sys.path.insert(0, os.path.dirname(os.path.abspath(__file__)))
from C40__common import *  # noqa
from breezy.bzr.bundle.serializer.v4 import BundleReader, BundleWriter

name = BundleWriter.encode_name("file", b"rev", b"/fid")
print("encoded:", name, " decoded:", BundleReader.decode_name(name))
tree = mktree("src")
with open("src/a", "wb") as f:
    f.write(b"one\n")
tree.add(["a"], ids=[b"/fid"])
tree.commit("one", rev_id=b"r1")
with open("src/a", "wb") as f:
    f.write(b"one\ntwo\n")
tree.commit("two", rev_id=b"r2")
try:
    ok = roundtrip(tree, b"null:", b"r2", "4")
    print("testaments equal =", ok)
    sys.exit(0 if ok else 1)
except Exception as e:
    print("VIOLATION, install failed:", type(e).__name__, e)
    sys.exit(1)
