"""Demonstration for the C38 defect repaired by /repo commit 1cf0120 (run with /venv/bin/python).

Before the fix IndexGitShaMap.missing_revisions() printed {b'rev-1'} inside the write group although lookup_commit()
and revids() of the same map already knew the revision; DictGitShaMap printed set().
"""
import breezy.bzr, breezy.git
from breezy.git.cache import IndexGitShaMap, DictGitShaMap, DictCacheUpdater, IndexCacheUpdater, BzrGitCache
from breezy.transport import get_transport
from breezy.revision import Revision
from dulwich.objects import Commit, Tree
t = get_transport("memory:///")
def mkcommit():
    c = Commit(); c.tree = Tree().id; c.author = c.committer = b"a <a@b>"; c.author_time = c.commit_time = 0; c.author_timezone = c.commit_timezone = 0; c.message = b"m"
    return c
class R: revision_id = b"rev-1"; parent_ids = ()
for cache in (BzrGitCache(DictGitShaMap(), DictCacheUpdater), BzrGitCache(IndexGitShaMap(t), IndexCacheUpdater)):
    m = cache.idmap
    m.start_write_group()
    u = cache.get_updater(R())
    u.add_object(mkcommit(), {"testament3-sha1": b"x"*40}, None)
    u.finish()
    print(type(m).__name__, "lookup_commit:", m.lookup_commit(b"rev-1")[:8], "missing:", m.missing_revisions([b"rev-1"]), "revids:", list(m.revids()))
    m.commit_write_group()
    print("   after commit: missing:", m.missing_revisions([b"rev-1"]))
