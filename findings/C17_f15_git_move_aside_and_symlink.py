"""C17 clause 2 (THIS == BASE => tree equals OTHER), git trees.

A very common refactoring in OTHER:   mv config config.real; ln -s config.real config
Git's diff reports rename config -> config.real plus an added symlink
'config'.  Merge3Merger keys git entries by THIS's tree path, so both entries
resolve to the trans_id of THIS's 'config': the second entry overrides the
rename and its delete_contents() discards the original text.  Expected: THIS
ends up exactly like OTHER (config symlink + config.real with the text).
"""
import sys, os, traceback
sys.path.insert(0, os.path.dirname(os.path.abspath(__file__)))
from C17__c17lib import make_tree, sprout, merge, versioned

bad = []
for fmt in ("bzr", "git"):
    text = b"[core]\nkey = value\nother = thing\nmore = lines\n"
    tmp, base = make_tree(fmt, {"config": text, "README": b"read me\n"})
    this = sprout(base, tmp, "this"); other = sprout(base, tmp, "other")
    other.rename_one("config", "config.real")
    os.symlink("config.real", other.abspath("config")); other.add(["config"])
    other.commit("move aside and link")
    try:
        conflicts = merge(this, other)
    except Exception as e:
        traceback.print_exc(limit=1)
        bad.append(fmt + ": crashed " + repr(e)[:100])
        continue
    got, extras = versioned(this)
    real = this.abspath("config.real")
    real_text = open(real, "rb").read() if os.path.isfile(real) else None
    print(fmt, "conflicts:", conflicts, "tree:", got, "extras:", extras, "config.real text ok:", real_text == text)
    if conflicts or extras or got != {"README": "file", "config": "symlink", "config.real": "file"} or real_text != text:
        bad.append(fmt)
if bad:
    print("VIOLATION: result differs from OTHER for:", bad)
    sys.exit(1)
print("ok")
