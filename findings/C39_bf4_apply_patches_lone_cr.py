"""Baseline finding (C39, round-trip clause, tree-level applier):
breezy diffs split texts on "\n" only, but patches.apply_patches splits the
original with bytes.splitlines(True), which also splits on a lone "\r".
A file containing a lone CR inside a line therefore cannot be patched with
the diff breezy itself produced for it.
"""
import os, sys
from io import BytesIO
sys.path.insert(0, os.getcwd())
from breezy.diff import internal_diff
from breezy.patches import parse_patches, iter_patched_from_hunks, PatchConflict

old_text = b"a\rb\nc\n"
new_text = b"a\rb\nd\n"
old = old_text.split(b"\n"); old = [l + b"\n" for l in old[:-1]]
new = [l + b"\n" for l in new_text.split(b"\n")[:-1]]
out = BytesIO()
internal_diff("a/f", old, "b/f", new, out)
patch = list(parse_patches(iter(out.getvalue().splitlines(True)[:-1] if False else BytesIO(out.getvalue()).readlines())))[0]
# what apply_patches does with the original contents:
try:
    got = b"".join(iter_patched_from_hunks(old_text.splitlines(True), patch.hunks))
except PatchConflict as e:
    print("VIOLATION: PatchConflict on matching text: %s" % e)
    sys.exit(1)
if got != new_text:
    print("VIOLATION: wrong output %r" % got); sys.exit(1)
print("PASS")
