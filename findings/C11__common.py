"""Shared setup for the C11 baseline-finding repro scripts.

Run each script as:  cd <worktree> && /venv/bin/python <script>
"""
import os
import sys
import tempfile

sys.path.insert(0, os.getcwd())
HOME = tempfile.mkdtemp(prefix="c11-bf-")
os.environ["BRZ_HOME"] = HOME
os.environ["HOME"] = HOME
os.environ["BRZ_EMAIL"] = "Tester <tester@example.com>"

import breezy  # noqa: E402

breezy.initialize()
import breezy.bzr  # noqa: E402, F401
import breezy.git  # noqa: E402, F401
from breezy import trace  # noqa: E402
from breezy.controldir import ControlDir, format_registry  # noqa: E402
from breezy.workingtree import WorkingTree  # noqa: E402

trace.be_quiet(True)


def make_tree(fmt, name):
    p = os.path.join(HOME, name)
    os.mkdir(p)
    wt = ControlDir.create_standalone_workingtree(
        p, format=format_registry.make_controldir(fmt)
    )
    return p, wt


def versioned(path):
    t = WorkingTree.open(path)
    with t.lock_read():
        return set(t.all_versioned_paths())


def write(path, text="x\n"):
    os.makedirs(os.path.dirname(path), exist_ok=True)
    with open(path, "w") as f:
        f.write(text)
