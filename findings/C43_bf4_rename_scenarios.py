import sys, os
sys.path.insert(0, os.path.dirname(os.path.abspath(__file__)))
from harness import *
import traceback
BAD = []
def scenario(name, fn):
    h = H()
    try:
        fn(h)
        w, g = h.check()
        if w != g: BAD.append(name)
        print(name, "OK" if w == g else "MISMATCH\n want=%r\n got=%r" % (w, g))
    except Exception as e:
        BAD.append(name)
        print(name, "EXC", type(e).__name__, e)
    finally:
        h.cleanup()

def s1(h):  # rename dir and rename child within
    os.mkdir(h.p("a")); h.write("a/f", b"x"); h.tree.add(["a", "a/f"]); h.tree.commit("1"); h.upload()
    h.tree.rename_one("a/f", "a/g"); h.tree.rename_one("a", "b"); h.tree.commit("2"); h.upload()
def s2(h):  # rename dir and move child out
    os.mkdir(h.p("a")); h.write("a/f", b"x"); h.tree.add(["a", "a/f"]); h.tree.commit("1"); h.upload()
    h.tree.rename_one("a/f", "c"); h.tree.rename_one("a", "b"); h.tree.commit("2"); h.upload()
def s3(h):  # rename dir z->b and move c into it
    os.mkdir(h.p("z")); h.write("c", b"x"); h.tree.add(["z", "c"]); h.tree.commit("1"); h.upload()
    h.tree.rename_one("z", "b"); h.tree.rename_one("c", "b/c"); h.tree.commit("2"); h.upload()
def s4(h):  # rename + chmod
    h.write("f", b"x"); h.tree.add(["f"]); h.tree.commit("1"); h.upload()
    h.tree.rename_one("f", "g"); os.chmod(h.p("g"), 0o755); h.tree.commit("2"); h.upload()
def s5(h):  # ignored -> non ignored rename
    h.write("f", b"x"); h.write(".bzrignore-upload", b"f\n"); h.tree.add(["f", ".bzrignore-upload"]); h.tree.commit("1"); h.upload()
    h.tree.rename_one("f", "g"); h.tree.commit("2"); h.upload()
    os.unlink(h.p(".bzrignore-upload"))
def s6(h):  # new dir, move file into it
    h.write("c", b"x"); h.tree.add(["c"]); h.tree.commit("1"); h.upload()
    os.mkdir(h.p("d")); h.tree.add(["d"]); h.tree.rename_one("c", "d/c"); h.tree.commit("2"); h.upload()
def s7(h):  # swap
    h.write("a", b"A"); h.write("b", b"B"); h.tree.add(["a","b"]); h.tree.commit("1"); h.upload()
    h.tree.rename_one("a", "t"); h.tree.rename_one("b", "a"); h.tree.rename_one("t", "b"); h.tree.commit("2"); h.upload()
for n, f in list(globals().items()):
    if n.startswith("s") and n[1:].isdigit(): scenario(n, f)

if BAD:
    print("VIOLATIONS on unmodified code in scenarios:", BAD)
    sys.exit(1)
print("PASS")
