import os, sys
sys.path.insert(0, os.getcwd())
import unittest
import breezy
from breezy import tests, branch as _mod_branch, controldir, errors
from breezy.tests import test_server

class T(tests.TestCaseWithTransport):
    def run_seq(self, b, src1, src2):
        out = []
        b.pull(src1)
        out.append(b.last_revision_info())
        b.get_config_stack().set('append_revisions_only', True)
        try:
            b.pull(src2, overwrite=True)
            out.append('pulled')
        except Exception as e:
            out.append(type(e).__name__)
        out.append(b.last_revision_info())
        return out
    def test_it(self):
        tree = self.make_branch_and_tree('src1')
        tree.commit('one', rev_id=b'r1')
        tree2 = tree.controldir.sprout('src2').open_workingtree()
        tree.commit('two', rev_id=b'r2')
        tree2.commit('three', rev_id=b'r3')
        self.make_branch('b')
        self.make_branch('c')
        srv = self.make_smart_server('b')
        rb = _mod_branch.Branch.open(srv.base)
        lb = _mod_branch.Branch.open('c')
        r = self.run_seq(rb, tree.branch, tree2.branch)
        l = self.run_seq(lb, tree.branch, tree2.branch)
        print(r); print(l)
        self.assertEqual(l, r)

if __name__ == '__main__':
    breezy.initialize()
    res = unittest.TextTestRunner(verbosity=1).run(unittest.defaultTestLoader.loadTestsFromTestCase(T))
    sys.exit(0 if res.wasSuccessful() else 1)
