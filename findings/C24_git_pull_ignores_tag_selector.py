"""Pulling from a git branch into a bzr branch with a tag selector: unselected tags are copied all the same."""
import os, subprocess, tempfile
import breezy.bzr, breezy.git, breezy
from breezy import controldir, tests
from breezy.branch import Branch
breezy.initialize()
base = tempfile.mkdtemp(); os.chdir(base)
def git(*a, cwd):
    subprocess.check_call(("git", "-c", "user.name=a", "-c", "user.email=a@b", "-c", "init.defaultBranch=master") + a, cwd=cwd, stdout=subprocess.DEVNULL, stderr=subprocess.DEVNULL)
os.makedirs("g"); git("init", cwd="g")
open("g/f", "w").write("1\n"); git("add", "f", cwd="g"); git("commit", "-m", "one", cwd="g"); git("tag", "wanted", cwd="g")
git("checkout", "-b", "side", cwd="g"); open("g/f", "w").write("side\n"); git("commit", "-am", "side", cwd="g"); git("tag", "unwanted", cwd="g"); git("checkout", "master", cwd="g")
src = Branch.open("g")
res = {}
for name, sel in (("no selector", None), ("selector wanted-only", lambda n: n == "wanted")):
    tgt = controldir.ControlDir.create_branch_convenience(name.replace(" ", "_"), format=controldir.format_registry.make_controldir("2a"))
    tgt.pull(src, tag_selector=sel)
    tags = tgt.tags.get_tag_dict()
    missing = sorted(t for t, r in tags.items() if not tgt.repository.has_revision(r))
    print(name, "-> tags", sorted(tags), "; pointing at absent revisions:", missing)
    res[name] = (sorted(tags), missing)
ok = res["selector wanted-only"][0] == ["wanted"]
print("PASS" if ok else "FAIL: the selector was not applied to the tags that were copied")
