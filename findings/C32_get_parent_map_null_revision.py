import os, sys
sys.path.insert(0, os.getcwd())
import unittest
import breezy
from breezy import tests, branch as _mod_branch

class T(tests.TestCaseWithTransport):
    def run_seq(self, b):
        out = []
        r = b.repository
        with r.lock_read():
            out.append(r.get_parent_map([b'null:', b'r1']))
            out.append(r.get_parent_map([b'null:']))
        with r.lock_read():
            out.append(r.get_parent_map([b'null:', b'r2', b'ghost']))
            out.append(r.get_parent_map([b'null:']))
            out.append(r.get_parent_map([b'r1', b'ghost']))
            out.append(sorted(r.has_revisions([b'null:', b'r1', b'zz'])))
        return out
    def test_it(self):
        t = self.make_branch_and_tree('b')
        t.commit('1', rev_id=b'r1'); t.commit('2', rev_id=b'r2')
        t.controldir.sprout('c')
        srv = self.make_smart_server('b')
        r = self.run_seq(_mod_branch.Branch.open(srv.base))
        l = self.run_seq(_mod_branch.Branch.open('c'))
        print(r); print(l)
        self.assertEqual(l, r)

if __name__ == '__main__':
    breezy.initialize()
    res = unittest.TextTestRunner(verbosity=1).run(unittest.defaultTestLoader.loadTestsFromTestCase(T))
