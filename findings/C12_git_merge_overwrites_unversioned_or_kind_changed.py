"""Baseline finding (UNMODIFIED code): merge-like updates into a *git* working
tree silently destroy local file content.

Run:  cd <worktree> && /venv/bin/python git_merge_overwrites_unversioned_or_kind_changed.py
Exit 1 + message when the violation is present, exit 0 otherwise.

Root cause (breezy/merge.py, Merge3Merger._compute_transform): for path-based
trees the trans_id of an entry is ``tt.trans_id_tree_path(paths3[2] or
paths3[1])``.  When the entry does not exist in THIS (this_path is None) the
OTHER path is used, which aliases whatever happens to be on disk at that path
in the working tree: an unknown file, a file the user unversioned with
`rm --keep`, or (for a kind change, which git iter_changes reports as
delete+add) the user's locally modified file.  _do_merge_contents then ends
with ``self.tt.delete_contents(trans_id)`` and the on-disk content is thrown
away with no conflict, no .moved file and no .THIS helper.  The same
scenarios in a bzr-format tree keep the content (duplicate conflict ->
``n.moved`` / contents conflict with ``f.THIS``).

Scenarios (each: `brz pull ../trunk` and `brz merge --force ../trunk`):
  A. upstream adds file 'n'; the tree has an unknown file 'n'.
  B. upstream replaces file 'f' by a symlink; the tree has local edits to 'f'.
  C. upstream modifies 'f'; the user did `brz rm --keep f` and edited f.
"""

import io
import os
import sys
import tempfile

sys.path.insert(0, os.getcwd())
_home = tempfile.mkdtemp(prefix="c12-bf-home-")
os.environ["HOME"] = _home
os.environ["BRZ_HOME"] = _home
os.environ["BRZ_EMAIL"] = "Tester <tester@example.com>"

import breezy  # noqa: E402
import breezy.bzr  # noqa: E402
import breezy.git  # noqa: E402
from breezy import commands, controldir, trace, ui  # noqa: E402
from breezy.commands import run_bzr  # noqa: E402
from breezy.ui.text import TextUIFactory  # noqa: E402

breezy.initialize()
commands.install_bzr_command_hooks()
trace.be_quiet(True)


def brz(args, cwd):
    old = os.getcwd()
    os.chdir(cwd)
    raw = io.BytesIO()
    out = io.TextIOWrapper(raw, encoding="utf-8", write_through=True)
    ui.ui_factory = TextUIFactory(stdin=io.StringIO(""), stdout=out, stderr=out)
    try:
        try:
            rc = run_bzr(args)
        except Exception as e:  # noqa: BLE001
            rc = "exception %r" % (e,)
    finally:
        os.chdir(old)
    return rc, raw.getvalue().decode("utf-8", "replace")


def write(path, text):
    with open(path, "w") as f:
        f.write(text)


def snapshot(root):
    out = {}
    for dp, dn, fn in os.walk(root):
        dn[:] = [d for d in dn if d not in (".bzr", ".git")]
        for f in fn:
            p = os.path.join(dp, f)
            if os.path.islink(p):
                out[os.path.relpath(p, root)] = "-> " + os.readlink(p)
            else:
                with open(p, "rb") as fh:
                    out[os.path.relpath(p, root)] = fh.read()
    return out


def scenario(fmt, name, upstream, local, cmd, precious):
    base = tempfile.mkdtemp(prefix="c12-bf-")
    os.chdir(base)
    f = controldir.format_registry.make_controldir(fmt)
    trunk = controldir.ControlDir.create_standalone_workingtree("trunk", format=f)
    write("trunk/f", "l1\nl2\nl3\n")
    write("trunk/k", "k\n")
    trunk.add(["f", "k"])
    trunk.commit("r1")
    trunk.controldir.sprout("work")
    upstream(trunk)
    trunk.commit("r2")
    local()
    rc, out = brz(cmd, "work")
    snap = snapshot("work")
    kept = any(isinstance(v, bytes) and precious in v for v in snap.values())
    print("[%s] %-40s %-22s rc=%s  %s" % (
        fmt, name, " ".join(cmd[:2]), rc, "content kept" if kept else "CONTENT LOST"))
    if not kept:
        print("      tree afterwards: %r" % (snap,))
    return kept


def up_add(trunk):
    write("trunk/n", "upstream n\n")
    trunk.add(["n"])


def up_kind(trunk):
    os.unlink("trunk/f")
    os.symlink("k", "trunk/f")


def up_mod(trunk):
    write("trunk/f", "l1\nl2\nL3 upstream\n")


def loc_unknown():
    write("work/n", "precious unknown file\n")


def loc_mod():
    write("work/f", "precious local edit\nl2\nl3\n")


def loc_unversion_mod():
    rc, out = brz(["rm", "--keep", "f"], "work")
    assert rc == 0, out
    write("work/f", "precious unversioned edit\n")


def main():
    bad = []
    for fmt in ("bzr", "git"):
        for cmd in (["pull", "../trunk"], ["merge", "--force", "../trunk"]):
            for name, up, loc in (
                ("A upstream add / unknown same name", up_add, loc_unknown),
                ("B upstream file->symlink / local edit", up_kind, loc_mod),
                ("C upstream edit / unversioned+edited", up_mod, loc_unversion_mod),
            ):
                if not scenario(fmt, name, up, loc, cmd, b"precious"):
                    bad.append((fmt, name, cmd[0]))
    if bad:
        print("\nVIOLATION of C12 on unmodified code: %d scenario(s) silently "
              "discarded local content: %r" % (len(bad), bad))
        return 1
    print("\nno violation observed")
    return 0


if __name__ == "__main__":
    sys.exit(main())
