"""BASELINE FINDING 8 (unmodified code): the bzr preview tree cannot read a
newly created *unversioned* file.

InventoryPreviewTree.get_file()/get_symlink_target() decide between limbo and
the original tree with ``self._content_change(self.path2id(path))``.  An
unversioned new file has no file id, so the lookup falls through to
``self._transform._tree.get_file(path)`` and raises NoSuchFile, although
kind()/has_filename() report the file and apply() creates it.

Run: cd <worktree> && /venv/bin/python bf8_bzr_preview_cannot_read_new_unversioned_file.py
"""

import os
import sys

sys.path.insert(0, os.path.dirname(os.path.abspath(__file__)))
from C14__common import attempt, make_tree  # noqa: E402

wt, base = make_tree("bzr", {"tracked": b"t\n"})
tt = wt.transform()
try:
    tt.new_file("scratch", tt.root, [b"scratch contents\n"])  # no file_id: unversioned
    assert tt.find_raw_conflicts() == []
    pt = tt.get_preview_tree()
    pv_kind = attempt(pt.kind, "scratch")
    pv_text = attempt(pt.get_file_text, "scratch")
    tt.apply()
finally:
    tt.finalize()
with open(os.path.join(base, "scratch"), "rb") as f:
    ap_text = f.read()
print(f"preview: kind={pv_kind!r} text={pv_text!r}")
print(f"applied: text={ap_text!r}")
if pv_text != ap_text:
    print("VIOLATION (C14): preview tree does not show the contents the applied tree has")
    sys.exit(1)
print("no violation observed")
