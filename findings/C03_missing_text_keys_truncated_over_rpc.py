"""Baseline probe: RemoteStreamSource.get_stream_for_missing_keys drops the
revision part of ("texts", file_id, revision_id) keys.

The client serialises each missing key as  kind \\t key[1]  and the server
(SmartServerRepositoryGetStreamForMissingKeys.do_body) rebuilds it as
(kind, key[1]).  That round-trips ("inventories", revid) and
("chk_bytes", sha) keys, but a text key ("texts", file_id, revid) arrives as
("texts", file_id): the server then asks repository.texts for the 1-tuple
(file_id,), finds nothing, and the stream that was supposed to fill in the
missing text basis is empty.  The same request answered by the local
StreamSource (or the VFS fallback) does contain the text.

In a real fetch this turns a recoverable "missing compression parent" into
    AssertionError: second push failed to complete a fetch {('texts', ...)}
for knit-pack (pack-0.92 / 1.9) targets fed from a bzr:// source.

Exit 0 / PASS when the RPC stream carries the requested text, else exit 1.
"""

import os
import shutil
import sys
import tempfile

sys.path.insert(0, os.getcwd())

import breezy  # noqa: E402

breezy.initialize()

import breezy.bzr  # noqa: E402,F401
from breezy import controldir, trace, ui  # noqa: E402
from breezy.branch import Branch  # noqa: E402
from breezy.tests import test_server  # noqa: E402

ui.ui_factory = ui.SilentUIFactory()
trace.be_quiet(True)


def keys_in(stream):
    found = []
    for kind, substream in stream:
        for record in substream:
            if record.storage_kind != "absent":
                found.append((kind,) + tuple(record.key))
    return sorted(found)


def main():
    orig_cwd = os.getcwd()
    tmp = tempfile.mkdtemp(prefix="c03-base2-")
    os.chdir(tmp)
    server = None
    try:
        fmt = controldir.format_registry.make_controldir("pack-0.92")
        tree = controldir.ControlDir.create_standalone_workingtree("S", format=fmt)
        with open("S/f.txt", "w") as f:
            f.write("one\n")
        tree.add(["f.txt"], ids=[b"f-id"])
        tree.commit("r1", rev_id=b"r1", committer="x <x@example.com>")
        missing = [("texts", b"f-id", b"r1")]

        local = Branch.open("S").repository
        with local.lock_read():
            to_format = local._format
            want = keys_in(
                local._get_source(to_format).get_stream_for_missing_keys(missing)
            )

        server = test_server.SmartTCPServer_for_testing()
        server.start_server()
        remote = Branch.open(server.get_url() + "S").repository
        with remote.lock_read():
            source = remote._get_source(to_format)
            got = keys_in(source.get_stream_for_missing_keys(missing))
        remote.controldir.transport.disconnect()
    finally:
        if server is not None:
            server.stop_server()
        os.chdir(orig_cwd)
        shutil.rmtree(tmp, ignore_errors=True)

    print("local StreamSource yields :", want)
    print("RemoteStreamSource yields :", got)
    if got != want:
        print("FAIL: the smart verb did not return the requested text record")
        return 1
    print("PASS")
    return 0


if __name__ == "__main__":
    sys.exit(main())
