"""C17 on git trees, unmodified code (reported by a third-round C17 agent, reproduced here; NOT decided by any static rule of
C17 - the three behaviours depend on tree values: content-similarity rename detection between OTHER and THIS, and the
git tree transform).  Scenarios, each run on a 2a tree (control, law holds) and on a git tree:
 1 THIS adds q, OTHER adds p, same text      -> git: q is dropped and a conflict is reported (disjoint => union fails)
 2 OTHER deletes d/f, THIS adds d/g          -> git: spurious text conflict on d
 3 OTHER replaces file x by a directory x/   -> git: TransformRenameFailed (THIS==BASE => equals OTHER fails)
Run from a checkout root: /venv/bin/python /verif/findings/C17_git_tree_merge_laws.py"""
import os, shutil, sys, tempfile
sys.path.insert(0, os.getcwd())
import breezy
breezy.initialize(setup_ui=False)
import breezy.bzr, breezy.git  # noqa
from breezy.controldir import ControlDir, format_registry
def scenario(fmt, this_edit, other_edit, label):
    d = tempfile.mkdtemp()
    try:
        wt = ControlDir.create_standalone_workingtree(d + "/this", format=format_registry.make_controldir(fmt))
        os.mkdir(d + "/this/d"); open(d + "/this/d/f", "w").write("f\n"); open(d + "/this/x", "w").write("x\n")
        wt.add(["d", "d/f", "x"]); wt.commit("base", committer="a <a@b>")
        other = wt.controldir.sprout(d + "/other").open_workingtree()
        other_edit(other, d + "/other"); other.commit("other", committer="a <a@b>")
        this_edit(wt, d + "/this"); wt.commit("this", committer="a <a@b>")
        try:
            wt.merge_from_branch(other.branch)
            with wt.lock_read():
                print(label, fmt, "conflicts:", [(type(c).__name__, c.path) for c in wt.conflicts()], "files:", sorted(p for p in wt.all_versioned_paths() if p))
        except Exception as e:
            print(label, fmt, "CRASH", type(e).__name__, e)
    finally:
        shutil.rmtree(d)
def add(name, text):
    def f(t, root):
        open(root + "/" + name, "w").write(text); t.add([name])
    return f
def rm(name):
    def f(t, root):
        t.remove([name], keep_files=False)
    return f
def file_to_dir(name):
    def f(t, root):
        t.remove([name], keep_files=False); os.mkdir(root + "/" + name); open(root + "/" + name + "/inner", "w").write("i\n"); t.add([name, name + "/inner"])
    return f
def nothing(t, root):
    open(root + "/unrelated", "w").write("u\n"); t.add(["unrelated"])
for fmt in ("2a", "git"):
    scenario(fmt, add("q", "same\n"), add("p", "same\n"), "1 disjoint adds, same text")
    scenario(fmt, add("d/g", "g\n"), rm("d/f"), "2 other deletes d/f, this adds d/g")
    scenario(fmt, nothing, file_to_dir("x"), "3 other turns file x into dir")
