"""Baseline findings for C36 (ref names; SHA <-> revision id with the
experimental mapping).

Run as: cd <worktree> && /venv/bin/python refs_and_experimental_mapping.py
Exits 1 and lists the violations when present on the UNMODIFIED code.

 E. ref_to_branch_name / branch_name_to_ref are not inverse for refs under
    refs/heads/ whose remainder itself starts with "refs/":
      b"refs/heads/refs/x" -> "refs/x" -> b"refs/x"
    and for the empty remainder: b"refs/heads/" -> "" -> b"HEAD".
    (Both are ref names git itself accepts in a refs container.)

 F. A revision id of the registered "git-experimental" mapping converts to a
    sha, but converting the sha back with the mapping that
    lookup_bzr_revision_id() returned crashes (TypeError in
    extract_hg_metadata: bytes message split with a str separator) instead of
    returning the revision id.  Reached through GitBranch.set_last_revision()
    followed by last_revision() on the same branch object.
"""

import os
import sys
import tempfile

sys.path.insert(0, os.getcwd())

import breezy

breezy.initialize()
import breezy.bzr  # noqa: E402
import breezy.git  # noqa: E402, F401
from breezy.controldir import ControlDir, format_registry  # noqa: E402
from breezy.git.refs import branch_name_to_ref, ref_to_branch_name  # noqa: E402


def main():
    problems = []
    for ref in [b"refs/heads/refs/x", b"refs/heads/refs/heads/y", b"refs/heads/"]:
        name = ref_to_branch_name(ref)
        back = branch_name_to_ref(name)
        if back != ref:
            problems.append(f"[E] {ref!r} -> {name!r} -> {back!r}")

    d = tempfile.mkdtemp(prefix="c36-baseline2-")
    cd = ControlDir.create(d, format=format_registry.make_controldir("git"))
    b = cd.create_branch()
    mt = b.create_memorytree()
    with mt.lock_write():
        mt.add([""], ["directory"])
        r1 = mt.commit("one", committer="a <a@example.com>")
    repo = b.repository
    sha = r1.split(b":", 1)[1]
    revid = b"git-experimental:" + sha
    with repo.lock_read():
        got_sha, mapping = repo.lookup_bzr_revision_id(revid)
        try:
            back = repo.lookup_foreign_revision_id(got_sha, mapping)
        except Exception as e:  # noqa: BLE001
            problems.append(
                f"[F] {revid!r} -> {got_sha!r} -> raised {type(e).__name__}: {e}"
            )
        else:
            if back != revid:
                problems.append(f"[F] {revid!r} -> {got_sha!r} -> {back!r}")

    if problems:
        print("BASELINE VIOLATIONS of C36 present:")
        for p in problems:
            print("  ", p)
        return 1
    print("no violation")
    return 0


if __name__ == "__main__":
    sys.exit(main())
