"""Shared helpers for the baseline finding repro scripts.

Run every script as:  cd <worktree> && /venv/bin/python <script>
"""
import os
import sys
import tempfile

sys.path.insert(0, os.getcwd())
os.environ["BRZ_EMAIL"] = "Tester <tester@example.com>"
os.environ["BRZ_LOG"] = os.devnull

import breezy  # noqa: E402

breezy.initialize()
import breezy.bzr  # noqa: E402, F401
import breezy.git  # noqa: E402, F401
from breezy import controldir  # noqa: E402
from breezy.commit import NullCommitReporter  # noqa: E402

QUIET = NullCommitReporter()


def make_tree(fmt):
    base = tempfile.mkdtemp(prefix="c01-finding-")
    wt = controldir.ControlDir.create_standalone_workingtree(
        base, format=controldir.format_registry.make_controldir(fmt)
    )
    return base, wt


def write(base, name, data, mode=None):
    path = os.path.join(base, name)
    with open(path, "wb") as f:
        f.write(data)
    if mode is not None:
        os.chmod(path, mode)


def rev_state(tree):
    out = {}
    with tree.lock_read():
        for path, ie in tree.iter_entries_by_dir():
            if ie.kind == "file":
                out[path] = ("file", tree.get_file_text(path), bool(tree.is_executable(path)))
            elif ie.kind == "symlink":
                out[path] = ("symlink", tree.get_symlink_target(path))
            else:
                out[path] = (ie.kind,)
    return out


def pending(tree):
    with tree.lock_read():
        basis = tree.basis_tree()
        with basis.lock_read():
            return sorted((c.path for c in tree.iter_changes(basis)), key=repr)


def finish(problems, ok_message):
    if problems:
        print("VIOLATION PRESENT")
        for p in problems:
            print(" -", p)
        sys.exit(1)
    print("ok:", ok_message)
    sys.exit(0)
