"""Baseline finding (C15): shelve_lines with a partial selection of *adjacent*
changed lines stores merge conflict markers in the shelf.

Reachable through the change-editor path of `brz shelve` ("e" = edit manually)
or any API caller of ShelfCreator.shelve_lines.  Basis "one/two/three", working
tree "ONE/TWO/three"; keep the ONE change, shelve only the TWO change
(new_lines = ONE/two/three).  ShelfCreator._inverse_lines runs
Merge3(new_lines, target, work) and writes merge_lines() output unchecked; the
two edits touch adjacent lines so Merge3 reports a conflict and the shelf
content contains '<<<<<<<' markers.  Unshelving onto the unchanged result then
produces a conflicted file instead of restoring "ONE/TWO/three".
Run: cd <worktree> && /venv/bin/python adjacent_line_partial_shelve_writes_conflict_markers.py ; exits 1 when present.
"""
import os, sys
sys.path.insert(0, os.path.dirname(os.path.abspath(__file__)))
from _common import *

tree, d = make_tree({"f": b"one\ntwo\nthree\n"})
open(d + "/f", "wb").write(b"ONE\nTWO\nthree\n")
before = snapshot(tree)
fid = tree.path2id("f")
with tree.lock_tree_write():
    c = shelf.ShelfCreator(tree, tree.basis_tree())
    try:
        list(c.iter_shelvable())
        c.shelve_lines(fid, [b"ONE\n", b"two\n", b"three\n"])
        shelved_text = c.shelf_transform.get_preview_tree().get_file_text("f")
        sid = tree.get_shelf_manager().shelve_changes(c)
    finally:
        c.finalize()
kept = open(d + "/f", "rb").read()
unshelve(tree, sid)
after = snapshot(tree)
if after != before or b"<<<<<<<" in shelved_text:
    print("VIOLATION PRESENT: partial shelve of adjacent lines is not restored")
    print("  tree after shelve      : %r" % (kept,))
    print("  text stored on shelf   : %r" % (shelved_text,))
    print("  tree after unshelve    : %r" % (open(d + '/f', 'rb').read(),))
    print("  expected after unshelve: %r" % (b"ONE\nTWO\nthree\n",))
    sys.exit(1)
print("ok: not reproduced")
