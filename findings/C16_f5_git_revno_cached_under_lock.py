"""C16 baseline finding 5 (minor, needs calculate_revnos=false and a caller
that keeps the branch locked across commit and uncommit).

For branches that do not store revnos (git) with calculate_revnos=false, commit
computes new_revno=None, falls back to 1 and calls
branch.set_last_revision_info(1, rev) - and LocalGitBranch caches that revno as
given.  While the lock is held the branch reports revno 1; a branch-only
uncommit then starts its left-hand walk from that wrong revno and caches
revno 0 for a tip that is really revision 3.  (With a tree the later
tree.set_parent_ids() happens to clear the cache again.)

Run: cd <worktree> && /venv/bin/python <this file>;  exit 1 = violation present.
"""

import os
import tempfile

from _common import finish, make_tree, write

from breezy.uncommit import uncommit
from breezy.workingtree import WorkingTree

problems = []
base = tempfile.mkdtemp(prefix="c16-f5-")
g = os.path.join(base, "g")
wt = make_tree(g, "git")
for n in ("1", "2", "3"):
    write(os.path.join(g, "f"), n + "\n")
    if n == "1":
        wt.add(["f"])
    wt.commit("rev " + n)
wt.branch.get_config_stack().set("calculate_revnos", False)
wt = WorkingTree.open(g)
write(os.path.join(g, "f"), "4\n")
with wt.lock_write():
    before = wt.branch.last_revision_info()
    wt.commit("rev 4")
    mid = wt.branch.last_revision_info()
    uncommit(wt.branch)  # branch only
    after = wt.branch.last_revision_info()
if mid[0] != before[0] + 1:
    problems.append(f"after commit the locked branch reports {mid!r} (before: {before!r})")
if after != before:
    problems.append(
        f"commit + uncommit did not restore the revision number: {before!r} -> {after!r}"
    )
finish(problems)
