import os
import sys
import tempfile

sys.path.insert(0, os.getcwd())
_home = tempfile.mkdtemp(prefix="c19-home-")
os.environ["BRZ_EMAIL"] = "Tester <tester@example.com>"
os.environ["BRZ_HOME"] = _home
os.environ["HOME"] = _home

import breezy

breezy.initialize()
import breezy.bzr  # noqa: E402,F401
from breezy import conflicts as _mod_conflicts  # noqa: E402,F401
from breezy import merge as _mod_merge  # noqa: E402
from breezy import trace  # noqa: E402
from breezy.controldir import ControlDir, format_registry  # noqa: E402

trace.be_quiet(True)


def make_tree(path, fmt="2a"):
    return ControlDir.create_standalone_workingtree(
        path, format=format_registry.make_controldir(fmt)
    )


def write(path, data):
    with open(path, "wb") as f:
        f.write(data)


def read(path):
    with open(path, "rb") as f:
        return f.read()


def do_merge(wt, other_wt, merge_type=_mod_merge.Merge3Merger, **opts):
    with wt.lock_write():
        merger = _mod_merge.Merger.from_revision_ids(
            wt, other_wt.branch.last_revision(), other_branch=other_wt.branch
        )
        merger.merge_type = merge_type
        for k, v in opts.items():
            setattr(merger, k, v)
        merger.do_merge()
        merger.set_pending()


def listing(root):
    res = {}
    for dirpath, dirs, files in os.walk(root):
        dirs[:] = [d for d in dirs if d not in (".bzr", ".git")]
        for f in files:
            p = os.path.join(dirpath, f)
            res[os.path.relpath(p, root)] = read(p)
    return res
