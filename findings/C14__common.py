"""Shared helpers for the C14 baseline repro scripts (run from the worktree root)."""

import os
import sys
import tempfile

sys.path.insert(0, os.getcwd())
_home = tempfile.mkdtemp(prefix="c14-bf-home-")
os.environ["BRZ_HOME"] = _home
os.environ["HOME"] = _home
os.environ["BRZ_EMAIL"] = "Demo <demo@example.com>"

import breezy  # noqa: E402

breezy.initialize()
import breezy.bzr  # noqa: E402,F401
import breezy.git  # noqa: E402,F401
from breezy import trace  # noqa: E402
from breezy.controldir import ControlDir, format_registry  # noqa: E402

trace.be_quiet(True)


def make_tree(fmt, files, executable=(), symlinks=()):
    """Create a committed standalone working tree of format 'git' or 'bzr'.

    files: {relpath: bytes}; directories are created/added as needed.
    """
    base = tempfile.mkdtemp(prefix=f"c14-bf-{fmt}-")
    wt = ControlDir.create_standalone_workingtree(
        base, format=format_registry.make_controldir(fmt)
    )
    to_add = []
    for rel in sorted(files):
        parts = rel.split("/")
        for i in range(1, len(parts)):
            d = "/".join(parts[:i])
            if not os.path.isdir(os.path.join(base, d)):
                os.mkdir(os.path.join(base, d))
                to_add.append(d)
        with open(os.path.join(base, rel), "wb") as f:
            f.write(files[rel])
        if rel in executable:
            os.chmod(os.path.join(base, rel), 0o755)
        to_add.append(rel)
    for name, target in symlinks:
        os.symlink(target, os.path.join(base, name))
        to_add.append(name)
    wt.add(to_add)
    wt.commit("base")
    return wt, base


def attempt(fn, *args):
    try:
        return fn(*args)
    except Exception as e:  # noqa: BLE001
        return "RAISES " + type(e).__name__


def reopen(wt):
    return wt.controldir.open_workingtree()
