"""Baseline finding F7 (all formats; probably by design, but it contradicts the
last sentence of C01 as written): Commit.commit() finishes the repository
write group in builder.commit() *before* it runs the pre_commit hooks and
before it moves the branch tip.  A pre_commit hook that raises (or any fault
while publishing to the master / writing last-revision) makes commit() raise
with the branch tip unchanged, but the new revision is already visible in the
repository.
"""
from _common import QUIET, finish, make_tree, write
from breezy.branch import Branch

problems = []
for fmt in ("2a", "git"):
    base, wt = make_tree(fmt)
    write(base, "a", b"1\n")
    wt.add(["a"])
    wt.commit("one", reporter=QUIET)
    write(base, "a", b"2\n")
    repo = wt.branch.repository
    with repo.lock_read():
        before = set(repo.all_revision_ids())
    tip = wt.branch.last_revision()

    def veto(local, master, old_revno, old_revid, new_revno, new_revid, delta, future_tree):
        raise RuntimeError("pre_commit hook says no")

    Branch.hooks.install_named_hook("pre_commit", veto, "veto")
    try:
        try:
            wt.commit("two", reporter=QUIET)
        except RuntimeError:
            pass
        else:
            problems.append("%s: commit did not raise" % fmt)
    finally:
        Branch.hooks.uninstall_named_hook("pre_commit", "veto")
    fresh = Branch.open(base)
    if fresh.last_revision() != tip:
        problems.append("%s: branch tip moved although commit raised" % fmt)
    with fresh.repository.lock_read():
        after = set(fresh.repository.all_revision_ids())
    if after != before:
        problems.append("%s: commit raised but %d new revision(s) are visible in the repository" % (fmt, len(after - before)))
finish(problems, "a vetoed commit leaves no revision behind")
