"""Baseline finding 2 (unmodified code): in a git working tree a failure while
the index is being updated leaves the files in the new layout and the index
half old / half new.

GitTreeTransform.apply() runs _apply_index_changes() after the rename phases
and outside the try/rollback block.  _apply_index_changes() mutates the
in-memory index entry by entry and, for every new or changed file, writes a
blob into the object store (a file *creation* performed while applying).  If
one of those writes fails (ENOSPC, EIO, permissions on .git/objects) the
exception propagates: the files are already in their new places, nothing is
rolled back, the entries processed so far stay changed, the rest keep
describing the old layout, and unlock() flushes that mixture to .git/index.

Run:  cd <worktree> && /venv/bin/python bf2_git_index_update_failure.py
Exit 1 + message when the violation is present, 0 otherwise.
"""

import errno
import os
import shutil
import sys
import tempfile

sys.path.insert(0, os.getcwd())

import breezy

breezy.initialize()
import breezy.git  # noqa: E402,F401
from breezy import trace, ui  # noqa: E402
from breezy.controldir import ControlDir, format_registry  # noqa: E402
from breezy.git.transportgit import TransportObjectStore  # noqa: E402
from breezy.workingtree import WorkingTree  # noqa: E402

ui.ui_factory = ui.SilentUIFactory()
trace.be_quiet(True)
os.environ.setdefault("BRZ_EMAIL", "Tester <tester@example.com>")


def versioned(root):
    wt = WorkingTree.open(root)
    with wt.lock_read():
        return sorted(p for p, ie in wt.iter_entries_by_dir() if p and ie.kind != "directory")


def on_disk(root):
    out = []
    for dirpath, dirnames, filenames in os.walk(root):
        if dirpath == root:
            dirnames.remove(".git")
        out.extend(
            os.path.relpath(os.path.join(dirpath, f), root) for f in filenames
        )
    return sorted(out)


def main():
    base = tempfile.mkdtemp(prefix="c13-bf2-")
    try:
        root = os.path.join(base, "t")
        wt = ControlDir.create_standalone_workingtree(
            root, format=format_registry.make_controldir("git")
        )
        for name in ("a", "b", "m"):
            with open(os.path.join(root, name), "w") as f:
                f.write(name + "\n")
        wt.add(["a", "b", "m"])
        wt.commit("one")
        old_versioned = versioned(root)

        wt = WorkingTree.open(root)
        real_add = TransportObjectStore.add_object
        calls = {"n": 0}

        def failing_add_object(self, obj):
            calls["n"] += 1
            if calls["n"] == 2:
                raise OSError(errno.ENOSPC, "injected: no space left on device")
            return real_add(self, obj)

        err = None
        try:
            with wt.transform() as tt:
                # delete a, rename b -> b2, new content for m, new files n1, n2
                a = tt.trans_id_tree_path("a")
                tt.delete_contents(a)
                tt.unversion_file(a)
                tt.adjust_path("b2", tt.root, tt.trans_id_tree_path("b"))
                m = tt.trans_id_tree_path("m")
                tt.delete_contents(m)
                tt.create_file([b"m changed\n"], m)
                for name in ("n1", "n2"):
                    tt.version_file(tt.new_file(name, tt.root, [name.encode() + b"\n"]))
                TransportObjectStore.add_object = failing_add_object
                tt.apply()
        except BaseException as e:  # noqa: BLE001
            err = type(e).__name__
        finally:
            TransportObjectStore.add_object = real_add

        disk = on_disk(root)
        meta = versioned(root)
        new_versioned = ["b2", "m", "n1", "n2"]
        print("apply raised:", err)
        print("files on disk      :", disk)
        print("versioned (index)  :", meta)
        print("old versioned paths:", old_versioned)
        print("new versioned paths:", new_versioned)
        missing = [p for p in meta if p not in disk]
        if err is not None and meta not in (old_versioned, new_versioned):
            print(
                "VIOLATION: after the failed apply the index is neither the old nor "
                "the new layout; versioned but missing on disk: %s" % missing
            )
            return 1
        print("no violation")
        return 0
    finally:
        shutil.rmtree(base, ignore_errors=True)


if __name__ == "__main__":
    sys.exit(main())
