"""Baseline finding (unmodified code, needs an interleaving): a RemoteBranch
object returned by creating a branch over the smart server keeps
``_last_revision_info_cache = (0, null:)`` that was planted while the branch
was NOT locked (RemoteBranchFormat.initialize, "XXX ... here its simply very
unlikely to be wrong").  RemoteBranch.lock_write() does not clear caches, so a
later push through that object classifies against the stale null tip: if
another client pushed into the new branch in the meantime, our push without
overwrite replaces that client's history instead of raising DivergedBranches.

Run:  cd <worktree> && /venv/bin/python <this file>
exit 1 + message when the violation is present.
"""

import os
import sys
import unittest

sys.path.insert(0, os.getcwd())

import breezy  # noqa: E402
import breezy.bzr  # noqa: E402, F401
from breezy import branch as _mod_branch  # noqa: E402
from breezy import controldir, errors  # noqa: E402
from breezy.tests import TestCaseWithTransport, test_server  # noqa: E402

VIOLATIONS = []


class Repro(TestCaseWithTransport):
    def test_it(self):
        # two unrelated-tip local branches with common base
        t1 = self.make_branch_and_tree("one")
        t1.commit("base")
        t2 = t1.controldir.sprout("two").open_workingtree()
        t1.commit("ours")
        theirs = t2.commit("theirs")

        self.make_repository("srv", shared=False)
        server = test_server.SmartTCPServer_for_testing()
        self.start_server(server, self.get_vfs_only_server())
        url = server.get_url() + "srv"

        # client A creates the branch over the smart server and keeps the object
        a_dir = controldir.ControlDir.open(url)
        new_branch = a_dir.create_branch()
        self.assertEqual("RemoteBranch", type(new_branch).__name__)

        # client B pushes its work into the freshly created branch
        t2.branch.push(_mod_branch.Branch.open(url))
        self.assertEqual(theirs, _mod_branch.Branch.open("srv").last_revision())

        # client A now pushes (no overwrite) through the object it got back
        raised = None
        try:
            t1.branch.push(new_branch)
        except errors.DivergedBranches as e:
            raised = e
        after = _mod_branch.Branch.open("srv").last_revision()
        if raised is None or after != theirs:
            VIOLATIONS.append(
                "push without overwrite through the RemoteBranch returned by "
                f"create_branch() replaced the tip {theirs!r} pushed by another "
                f"client with {after!r} (raised={raised!r})"
            )


if __name__ == "__main__":
    breezy.initialize()
    suite = unittest.defaultTestLoader.loadTestsFromTestCase(Repro)
    res = unittest.TextTestRunner(verbosity=1).run(suite)
    if VIOLATIONS:
        for v in VIOLATIONS:
            print("VIOLATION:", v)
        sys.exit(1)
    if not res.wasSuccessful():
        print("script error (not a finding)")
        sys.exit(2)
    print("PASS: no violation")
