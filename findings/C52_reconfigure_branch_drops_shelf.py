"""Baseline: `brz reconfigure --branch` (without --force) silently discards
shelved changes.  Reconfigure._check only asks tree.has_changes(); changes that
were put on the shelf live in .bzr/checkout/shelf and are deleted together with
the working tree metadata.

Run: cd <worktree> && /venv/bin/python reconfigure_branch_drops_shelf.py
"""

import os
import subprocess
import sys
import tempfile

WT = os.getcwd()
env = dict(os.environ)
env["BRZ_EMAIL"] = "Tester <t@example.com>"
env["BRZ_HOME"] = tempfile.mkdtemp()
env["PYTHONPATH"] = WT


def brz(*args, cwd=None, ok=(0,)):
    r = subprocess.run(
        [sys.executable, "-m", "breezy", *args], cwd=cwd, env=env,
        capture_output=True, text=True,
    )
    if r.returncode not in ok:
        raise SystemExit("brz %s failed\n%s%s" % (args, r.stdout, r.stderr))
    return r.stdout + r.stderr


d = tempfile.mkdtemp()
os.chdir(d)
brz("init", "t")
open("t/f", "w").write("1\n")
brz("add", cwd="t")
brz("commit", "-m", "one", cwd="t")
open("t/f", "w").write("1\nprecious uncommitted work\n")
brz("shelve", "--all", "-m", "wip", cwd="t")
assert "wip" in brz("shelve", "--list", cwd="t", ok=(0, 1))
brz("reconfigure", "--branch", "t")
brz("reconfigure", "--tree", "t")
out = brz("shelve", "--list", cwd="t", ok=(0, 1))
if "wip" in out:
    print("PASS")
else:
    print("FAIL: the shelved change is gone after reconfigure --branch / --tree:", out.strip())
    sys.exit(1)
