#!/usr/bin/env python3
"""automutate.py Cnn [Cmm ...] [--max N] [--show] — sensitivity survey of a check (development aid, not a registered command).

For every function the check asked the index for (its anchors on this run), single-point mutants are generated
mechanically in an in-memory overlay (nothing is written to /repo):

  DEL   one call statement / simple assignment replaced by `pass`
  NEG   one `if` test negated
  RAISE one `raise` replaced by `pass`

and the check is re-run on each.  A mutant is *reported* when the run produces a violation that the clean tree does not
have, *error* when the analysis stops (fail-closed), *silent* otherwise.  Many silent mutants are behaviour-neutral for
the property (logging, progress bars, caches) — the list of silent ones is meant to be read, it is not a score.
Run with /venv/bin/python."""
import ast
import importlib
import os
import sys
from concurrent.futures import ProcessPoolExecutor

sys.path.insert(0, os.path.dirname(os.path.dirname(os.path.abspath(__file__))))

from sa.index import AnalysisError, Repo  # noqa: E402
from sa.report import Ctx  # noqa: E402


class RecordingRepo(Repo):
    def __init__(self, *a, **k):
        super().__init__(*a, **k)
        self.asked = []

    def func(self, rel, qual):
        self.asked.append((rel, qual))
        return super().func(rel, qual)


def find(tree, qual):
    cur = tree
    for part in qual.split("."):
        nxt = None
        for n in ast.walk(cur):
            if isinstance(n, (ast.FunctionDef, ast.AsyncFunctionDef, ast.ClassDef)) and n.name == part and n is not cur:
                nxt = n
                break
        if nxt is None:
            return None
        cur = nxt
    return cur


def mutants_of(rel, qual, src):
    tree = ast.parse(src)
    fn = find(tree, qual)
    if fn is None:
        return
    lines = src.split("\n")

    def replace(node, text):
        out = list(lines)
        ind = len(lines[node.lineno - 1]) - len(lines[node.lineno - 1].lstrip())
        out[node.lineno - 1 : node.end_lineno] = [" " * ind + text]
        return "\n".join(out)

    for n in ast.walk(fn):
        if n is fn:
            continue
        if isinstance(n, ast.Expr) and isinstance(n.value, ast.Call):
            yield ("DEL", n.lineno, ast.unparse(n)[:70], replace(n, "pass"))
        elif isinstance(n, ast.Assign) and len(n.targets) == 1 and isinstance(n.targets[0], ast.Attribute):
            yield ("DEL", n.lineno, ast.unparse(n)[:70], replace(n, "pass"))
        elif isinstance(n, ast.Raise):
            yield ("RAISE", n.lineno, ast.unparse(n)[:70], replace(n, "pass"))
        elif isinstance(n, ast.If) and n.test.lineno == n.test.end_lineno:
            out = list(lines)
            l_ = out[n.test.lineno - 1]
            out[n.test.lineno - 1] = l_[: n.test.col_offset] + "not (" + l_[n.test.col_offset : n.test.end_col_offset] + ")" + l_[n.test.end_col_offset :]
            yield ("NEG", n.lineno, "if " + ast.unparse(n.test)[:60], "\n".join(out))


class _Timeout(Exception):
    pass


def _alarm(signum, frame):
    raise _Timeout()


def run_one(args):
    import signal

    signal.signal(signal.SIGALRM, _alarm)
    signal.alarm(30)
    try:
        return _run_one(args)
    except _Timeout:
        return "timeout"
    finally:
        signal.alarm(0)


def _run_one(args):
    pid, rel, new_text, base_keys = args
    mod = importlib.import_module(f"sa.props.{pid.lower()}")
    try:
        ast.parse(new_text)
    except SyntaxError:
        return "syntax"
    repo = Repo(overlay={rel: new_text})
    ctx = Ctx(pid, "quick", repo, quiet=True)
    try:
        mod.run(ctx)
    except AnalysisError:
        return "reported" if any(v.key not in base_keys for v in ctx.violations) else "error"
    except Exception:
        return "error"
    return "reported" if any(v.key not in base_keys for v in ctx.violations) else "silent"


def main():
    cap = int(sys.argv[sys.argv.index("--max") + 1]) if "--max" in sys.argv else 400
    args = [a for a in sys.argv[1:] if not a.startswith("--") and not a.isdigit()]
    show = "--show" in sys.argv
    for pid in args:
        mod = importlib.import_module(f"sa.props.{pid.lower()}")
        repo = RecordingRepo()
        ctx = Ctx(pid, "quick", repo, quiet=True)
        mod.run(ctx)
        base_keys = {v.key for v in ctx.violations}
        anchors = list(dict.fromkeys(repo.asked))
        jobs, meta = [], []
        for rel, qual in anchors:
            if not rel.endswith(".py"):
                continue
            src = repo.text(rel)
            for kind, line, what, new_text in mutants_of(rel, qual, src):
                if len(jobs) >= cap:
                    break
                jobs.append((pid, rel, new_text, base_keys))
                meta.append((rel, qual, kind, line, what))
        with ProcessPoolExecutor(max_workers=14) as ex:
            res = list(ex.map(run_one, jobs, chunksize=4))
        tally = {}
        for r in res:
            tally[r] = tally.get(r, 0) + 1
        print(f"{pid}: {len(anchors)} anchor functions, {len(jobs)} mutants: " + ", ".join(f"{k}={v}" for k, v in sorted(tally.items())))
        if show:
            for (rel, qual, kind, line, what), r in zip(meta, res):
                if r in ("silent", "timeout"):
                    print(f"   {r:7s} {kind:5s} {rel}:{qual} L{line}: {what}")


if __name__ == "__main__":
    main()
