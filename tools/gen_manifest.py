#!/usr/bin/env python3
"""Regenerate MANIFEST.json from the property modules under sa/props/ (run with /venv/bin/python or python3)."""
import importlib, json, os, sys
HERE = os.path.dirname(os.path.dirname(os.path.abspath(__file__)))
sys.path.insert(0, HERE)
from sa.cli import prop_modules

NOT_APPLICABLE = {
    "C02": "per-file heads / last-changed revisions over generated DAGs are value-dependent; no structural clause that is a necessary condition (static analysis cannot bound the graphs)",
    "C09": "model equivalence of working-tree mutation sequences; the state lives in dirstate/index values handled by compiled code outside /repo",
    "C10": "agreement of iter_changes implementations over all tree pairs is value equality of results; no shape-of-code clause",
    "C15": "shelve/unshelve restores tree content: value equality over tree states",
    "C17": "three-way merge laws over tree triples; the finite decision core is decided under C18",
    "C22": "revno / dotted-revno numbering and revision specifiers over arbitrary DAGs: graph arithmetic",
    "C25": "log output over DAGs, ranges and file filters: value-dependent",
    "C35": "git object SHAs over histories: byte-level value equality",
    "C42": "archive contents equal tree contents over all trees: value equality",
    "C43": "remote directory equals uploaded tree over commit sequences: value equality over histories",
    "C44": "fast-export/import preserves history: value equality over histories",
    "C47": "algebraic laws of compiled Rust utilities over all inputs; needs a solver or testing, not shape of code",
    "C49": "config value quoting (ConfigObj, outside /repo) and fnmatch section matching over all strings",
    "C52": "format upgrades and reconfiguration preserve history and trees: value equality over histories and layouts",
}

def main():
    checks = []
    claimed = []
    for name in prop_modules():
        m = importlib.import_module(f"sa.props.{name}")
        pid = m.ID
        claimed.append(pid)
        checks.append({
            "property_id": pid,
            "quick_cmd": f"./check {pid} --tier quick",
            "thorough_cmd": f"./check {pid} --tier thorough",
            "evidence_file": f"evidence/{pid}.json",
            "replay_cmd_template": f"./check {pid} --replay {{path}}",
            "engine": "sa",
            "level_claimed": {
                "category": "other",
                "text": getattr(m, "LEVEL_TEXT", "static analysis (custom ast rules over /repo's source): " + " ".join(m.EXPLANATION.split())[:600]),
                "design_ref": getattr(m, "DESIGN_REF", f"DESIGN.md section '### {pid}'"),
            },
            "level_note": getattr(m, "LEVEL_NOTE", "Decides the structural clauses named in the explanation, not the behaviour as a whole; libraries outside /repo, transport atomicity and name-based callee resolution are trusted."),
            "technique": m.TECHNIQUE,
        })
    na = [{"property_id": k, "reason": v} for k, v in sorted(NOT_APPLICABLE.items()) if k not in claimed]
    props = [json.loads(l)["id"] for l in open(os.path.join(HERE, "properties.jsonl"))]
    missing = [p for p in props if p not in claimed and p not in NOT_APPLICABLE]
    for p in missing:
        na.append({"property_id": p, "reason": "checker not built yet in this round (planned in DESIGN.md); not claimed until its rules are armed and self-tested"})
    na.sort(key=lambda x: x["property_id"])
    man = {
        "version": 1,
        "setup_cmd": "true",
        "hooks": {
            "guard": "BREEZY_VERIF",
            "enable": "none needed: the checks read /repo's source and never build or run it",
            "baseline_off_cmd": "cd /repo && /venv/bin/python -m pytest -ra -q -p no:cacheprovider --timeout=900 --continue-on-collection-errors",
            "source_commits": [],
            "add_only": True,
        },
        "engines": [
            {"name": "sa", "path": "sa/", "serves_properties": claimed,
             "kind_free_text": "custom static analysis in pure-stdlib Python: repo index/MRO resolver, statement CFG with exception edges and reachability queries, abstract evaluator for decision tables/typestate, literal-table extraction, Rust-lite guard extraction, mutation self-tests"},
        ],
        "checks": checks,
        "not_applicable": na,
        "notes": "All checks are static (ast over /repo's working tree on every run). Exit 0 held / 1 VIOLATION / 2 ANALYSIS-ERROR (anchor vanished or rule matched fewer sites than the hand-confirmed floor). Known findings: known_findings.json. Seeded changes: seeded/.",
    }
    with open(os.path.join(HERE, "MANIFEST.json"), "w") as f:
        json.dump(man, f, indent=1)
        f.write("\n")
    print(f"claimed={len(claimed)} not_applicable={len(na)}")

main()
