#!/usr/bin/env python3
"""reseed_all.py — re-run every stored seeded change against the current /repo HEAD and the current checks.

For each seeded/<name>/patch.diff: apply it in one scratch worktree of /repo (outside /repo and /verif), run the checks
recorded in its meta.json with VERIF_REPO pointing at the worktree, undo it.  Reports patches that no longer apply
(the code they edit was changed by a later fix) and seeds that are no longer detected.  The worktree is removed at the end.
"""
import json, os, subprocess, sys, tempfile

VERIF = os.path.dirname(os.path.dirname(os.path.abspath(__file__)))


def sh(cmd, cwd=None, env=None):
    p = subprocess.run(cmd, shell=True, cwd=cwd, capture_output=True, text=True, env=env)
    return p.returncode, p.stdout + p.stderr


def main():
    only = set(sys.argv[1:])
    wt = tempfile.mkdtemp(prefix="reseed-", dir="/tmp")
    os.rmdir(wt)
    rc, out = sh(f"{VERIF}/tools/mkwt.sh {wt}")
    assert rc == 0, out
    rows = []
    try:
        for name in sorted(os.listdir(f"{VERIF}/seeded")):
            d = f"{VERIF}/seeded/{name}"
            if not os.path.isdir(d) or (only and name not in only and name.split("-")[0] not in only):
                continue
            meta = json.load(open(f"{d}/meta.json")) if os.path.exists(f"{d}/meta.json") else {}
            checks = " ".join(meta.get("checks_on_patched_tree", {}).keys()) or name.split("-")[0]
            rc, out = sh(f"git apply {d}/patch.diff", cwd=wt)
            if rc != 0:
                rows.append((name, "NO-APPLY", out.strip().splitlines()[0][:100] if out.strip() else ""))
                continue
            env = dict(os.environ, VERIF_REPO=wt)
            rc, out = sh(f"{VERIF}/check {checks}", cwd=VERIF, env=env)
            viol = [l for l in out.splitlines() if l.startswith("VIOLATION")]
            err = [l for l in out.splitlines() if l.startswith("ANALYSIS-ERROR")]
            rows.append((name, "detected" if viol else ("analysis-error" if err else "MISSED"), "; ".join(v.split()[1] for v in viol) or (err[0][:100] if err else "")))
            sh("git checkout -- . && git clean -fdq", cwd=wt)
    finally:
        sh(f"git -C /repo worktree remove --force {wt}")
    for r in rows:
        print("%-8s %-15s %s" % r)
    bad = [r for r in rows if r[1] not in ("detected",)]
    print(f"{len(rows)} seeds, {len(rows) - len(bad)} detected, {len(bad)} other")


if __name__ == "__main__":
    main()
