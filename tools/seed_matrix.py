#!/usr/bin/env python3
"""Rewrite the seeded-change matrix in DESIGN.md (between the SEEDED-MATRIX markers) from seeded/*/meta.json."""
import glob
import json
import os
import re

HERE = os.path.dirname(os.path.dirname(os.path.abspath(__file__)))
NOTES = os.path.join(HERE, "seeded", "NOTES.json")


def main():
    notes = json.load(open(NOTES)) if os.path.exists(NOTES) else {}
    rows = []
    for p in sorted(glob.glob(os.path.join(HERE, "seeded", "*", "meta.json"))):
        m = json.load(open(p))
        name = m["name"]
        fired = []
        for c, v in m.get("checks_on_patched_tree", {}).items():
            for l in v.get("lines", []):
                mm = re.search(r"\[(C\d+/[^\]]+)\]", l)
                if mm and mm.group(1) not in fired:
                    fired.append(mm.group(1))
            if v.get("rc") == 2 and not fired:
                fired.append(f"{c}: ANALYSIS-ERROR (fail-closed)")
        tests = m.get("tests", {})
        st = m.get("selftest", {})
        rows.append((name, m["property"], "yes" if m.get("confirmed") else "NO", "yes" if m.get("detected") else "no", ", ".join(fired[:3]) or "-", notes.get(name, {}).get("when", ""), notes.get(name, {}).get("what", ""), "identical" if tests.get("outcomes_identical", True) and st.get("outcomes_identical", True) else "DIFFER"))
    out = ["| seeded change | property | confirmed (demo + tests) | detected | rules that fire | rule existed before the seed was seen? | what the change does |", "|---|---|---|---|---|---|---|"]
    for r in rows:
        out.append(f"| {r[0]} | {r[1]} | {r[2]} ({r[7]}) | {r[3]} | {r[4]} | {r[5]} | {r[6]} |")
    text = "\n".join(out)
    d = os.path.join(HERE, "DESIGN.md")
    s = open(d).read()
    a, b = "<!-- SEEDED-MATRIX:BEGIN -->", "<!-- SEEDED-MATRIX:END -->"
    if a in s and b in s:
        s = s[: s.index(a) + len(a)] + "\n" + text + "\n" + s[s.index(b) :]
        open(d, "w").write(s)
    det = sum(1 for r in rows if r[3] == "yes")
    print(f"{len(rows)} seeded changes, {det} detected")


main()
