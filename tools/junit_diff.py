#!/usr/bin/env python3
"""junit_diff.py base.xml other.xml — tests whose outcome differs."""
import sys, xml.etree.ElementTree as ET
def load(p):
    out = {}
    for tc in ET.parse(p).getroot().iter("testcase"):
        k = tc.get("classname", "") + "::" + tc.get("name", "")
        st = "pass"
        for ch in tc:
            if ch.tag in ("failure", "error"): st = "fail"
            elif ch.tag == "skipped": st = "skip"
        out[k] = st
    return out
a, b = load(sys.argv[1]), load(sys.argv[2])
diff = [(k, a.get(k), b.get(k)) for k in sorted(set(a) | set(b)) if a.get(k) != b.get(k)]
print(f"base: {len(a)} tests ({sum(v=='pass' for v in a.values())} pass) other: {len(b)} tests ({sum(v=='pass' for v in b.values())} pass) differing: {len(diff)}")
for d in diff[:40]: print("  ", d)
sys.exit(1 if diff else 0)
