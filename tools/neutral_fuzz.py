#!/usr/bin/env python3
"""neutral_fuzz.py <mode> — false-alarm test: build a scratch copy of /repo's sources under /tmp/neutral/repo, apply a
behaviour-preserving whole-tree transformation and run every check against it (VERIF_REPO).  Any VIOLATION or
ANALYSIS-ERROR is a defect of the checker (brittleness), never of breezy.

modes:
  reformat   every Python file re-emitted by ast.unparse (comments dropped, layout / quoting / parentheses normalised)
  shift      three comment lines inserted after every `def` line and at the top of every file (all line numbers move)
  log        `trace.mutter("enter <qualname>")`-style no-op statement (a bare string expression) inserted as the first
             statement of every function (statement indices move; blocks get one more statement)
  dropelse   no `else` after an arm that ends in return/raise/continue/break
  yoda       `x == CONST` written as `CONST == x`
  annotate   every simple local assignment gets a type annotation (`x: object = v`)
  messages   the text of every raised exception / logged message changed
  swapelse   two-armed ifs with simple arms rewritten as `if not c: B else: A`
  rename     every function-local variable whose name is assigned in exactly one function of the module and is at least
             6 characters long gets a `_x` suffix (checks must not depend on incidental local names) — reported
             separately, because some rules deliberately name protocol-relevant locals
Not part of any registered check; a development tool (uses /tmp)."""

import ast
import os
import subprocess
import sys

SRC = "/repo"
DST = "/tmp/neutral/repo"


def files():
    out = subprocess.run(["git", "-C", SRC, "ls-files"], capture_output=True, text=True, check=True).stdout.split("\n")
    return [f for f in out if f.endswith((".py", ".rs", ".toml", ".pyi"))]


def sync():
    os.makedirs(DST, exist_ok=True)
    lst = "/tmp/neutral/files.txt"
    open(lst, "w").write("\n".join(files()) + "\n")
    subprocess.run(["rsync", "-a", "--delete", f"--files-from={lst}", SRC + "/", DST + "/"], check=True)


def analysed():
    """Python files any check consults (from the evidence files of the last run), else all of breezy/."""
    import glob
    import json

    seen = set()
    for p in glob.glob("/verif/evidence/*.json"):
        try:
            d = json.load(open(p))
        except Exception:
            continue
        for f in d.get("files_analysed", []) or d.get("extra", {}).get("files", []) or []:
            seen.add(f)
    return sorted(f for f in seen if f.endswith(".py"))


def t_reformat(src):
    return ast.unparse(ast.parse(src)) + "\n"


def t_shift(src):
    out = ["# neutral: line shift", "#", "#"]
    for line in src.split("\n"):
        out.append(line)
    # comment lines after each def header are only safe when the header ends on that line; keep it simple: top only
    # plus a blank comment block before every top-level `class` / `def`
    res = []
    for line in out:
        if line.startswith(("def ", "class ", "async def ")):
            res += ["# neutral", "# neutral", "# neutral"]
        res.append(line)
    return "\n".join(res)


def t_log(src):
    tree = ast.parse(src)
    lines = src.split("\n")
    inserts = []  # (line index to insert before, indent)
    for n in ast.walk(tree):
        if isinstance(n, (ast.FunctionDef, ast.AsyncFunctionDef)):
            body = n.body
            first = body[0]
            if isinstance(first, ast.Expr) and isinstance(first.value, ast.Constant) and isinstance(first.value.value, str):
                if len(body) == 1:
                    continue
                first = body[1]
            if first.lineno == n.lineno:  # one-line def
                continue
            # do not split decorators / multi-line statements: insert before the first real statement's first line
            ln = min([first.lineno] + [d.lineno for d in getattr(first, "decorator_list", [])])
            inserts.append((ln - 1, first.col_offset))
    for idx, ind in sorted(set(inserts), reverse=True):
        lines.insert(idx, " " * ind + "'neutral: entered'")
    new = "\n".join(lines)
    ast.parse(new)
    return new


def t_rename(src, minlen=3):
    """Rename every local of every outermost function (consistently inside its nested defs): stored names that are not
    parameters of the function or of any def nested in it, not declared global/nonlocal, not bound by an except
    handler or an import."""
    tree = ast.parse(src)

    def outermost(node, inside=False):
        for ch in ast.iter_child_nodes(node):
            if isinstance(ch, (ast.FunctionDef, ast.AsyncFunctionDef)):
                if not inside:
                    yield ch
                # nested defs are handled with their outermost function
            elif isinstance(ch, ast.ClassDef):
                yield from outermost(ch, inside)
            else:
                yield from outermost(ch, inside)

    for fn in outermost(tree):
        params = set()
        excl = set()
        for n in ast.walk(fn):
            if isinstance(n, ast.arg):
                params.add(n.arg)
            elif isinstance(n, (ast.Global, ast.Nonlocal)):
                excl |= set(n.names)
            elif isinstance(n, ast.ExceptHandler) and n.name:
                excl.add(n.name)
            elif isinstance(n, (ast.Import, ast.ImportFrom)):
                excl |= {(a.asname or a.name).split(".")[0] for a in n.names}
            elif isinstance(n, (ast.FunctionDef, ast.AsyncFunctionDef, ast.ClassDef)) and n is not fn:
                excl.add(n.name)
            elif isinstance(n, ast.ClassDef):
                excl |= {m.id for m in ast.walk(n) if isinstance(m, ast.Name)}
        stored = {n.id for n in ast.walk(fn) if isinstance(n, ast.Name) and isinstance(n.ctx, (ast.Store, ast.Del))}
        names = {k for k in stored if k not in params and k not in excl and len(k) >= minlen and not k.startswith("__")}
        for n in ast.walk(fn):
            if isinstance(n, ast.Name) and n.id in names:
                n.id = n.id + "_x"
    return ast.unparse(tree) + "\n"


def t_messages(src):
    """Human-readable texts changed: the first string argument of every raised exception and of every
    mutter/note/warning/gettext/show_error call gets a suffix (f-strings: a literal part is appended)."""
    tree = ast.parse(src)
    LOGS = {"mutter", "note", "warning", "gettext", "show_error", "show_warning", "log_exception_quietly"}

    def bump(call):
        if call.args:
            a = call.args[0]
            if isinstance(a, ast.Constant) and isinstance(a.value, str):
                a.value = a.value + " (n)"
            elif isinstance(a, ast.JoinedStr):
                a.values.append(ast.Constant(value=" (n)"))

    for n in ast.walk(tree):
        if isinstance(n, ast.Raise) and isinstance(n.exc, ast.Call):
            bump(n.exc)
        elif isinstance(n, ast.Call):
            f = n.func
            nm = f.attr if isinstance(f, ast.Attribute) else (f.id if isinstance(f, ast.Name) else "")
            if nm in LOGS:
                bump(n)
    return ast.unparse(ast.fix_missing_locations(tree)) + "\n"


def t_swapelse(src):
    """`if c: A else: B` (both non-empty, no elif) rewritten as `if not (c): B else: A` — same behaviour, other
    shape; only statements whose two branches are single simple statements are rewritten (keeps the edit local)."""
    tree = ast.parse(src)
    for n in ast.walk(tree):
        if isinstance(n, ast.If) and n.orelse and not (len(n.orelse) == 1 and isinstance(n.orelse[0], ast.If)) and len(n.body) == 1 and len(n.orelse) == 1 and not isinstance(n.body[0], (ast.If, ast.For, ast.While, ast.Try, ast.With)) and not isinstance(n.orelse[0], (ast.If, ast.For, ast.While, ast.Try, ast.With)):
            n.test = ast.UnaryOp(op=ast.Not(), operand=n.test)
            n.body, n.orelse = n.orelse, n.body
    return ast.unparse(ast.fix_missing_locations(tree)) + "\n"


def t_annotate(src):
    """Every `name = value` with a single plain-name target inside a function becomes `name: object = value`."""
    tree = ast.parse(src)
    for fn in ast.walk(tree):
        if not isinstance(fn, (ast.FunctionDef, ast.AsyncFunctionDef)):
            continue
        declared = {nm for n in ast.walk(fn) if isinstance(n, (ast.Global, ast.Nonlocal)) for nm in n.names}
        seen = set()
        for parent in ast.walk(fn):
            for field in ("body", "orelse", "finalbody"):
                stmts = getattr(parent, field, None)
                if not isinstance(stmts, list):
                    continue
                for i, st in enumerate(stmts):
                    if isinstance(st, ast.Assign) and len(st.targets) == 1 and isinstance(st.targets[0], ast.Name) and st.targets[0].id not in declared:
                        stmts[i] = ast.copy_location(ast.AnnAssign(target=st.targets[0], annotation=ast.Name(id="object", ctx=ast.Load()), value=st.value, simple=1), st)
    return ast.unparse(ast.fix_missing_locations(tree)) + "\n"


def _terminates(stmts):
    return bool(stmts) and isinstance(stmts[-1], (ast.Return, ast.Raise, ast.Continue, ast.Break))


def t_dropelse(src):
    """`if c: ...return/raise/continue/break  else: B` becomes `if c: ...` followed by B (no else after a terminating arm);
    applied to the last if of an elif chain only when every earlier arm terminates too."""
    tree = ast.parse(src)

    def chain_ok(n):
        return _terminates(n.body) and (not n.orelse or not (len(n.orelse) == 1 and isinstance(n.orelse[0], ast.If)) or chain_ok(n.orelse[0]))

    for parent in ast.walk(tree):
        for field in ("body", "orelse", "finalbody"):
            stmts = getattr(parent, field, None)
            if not isinstance(stmts, list):
                continue
            i = 0
            while i < len(stmts):
                st = stmts[i]
                if isinstance(st, ast.If) and st.orelse and not (len(st.orelse) == 1 and isinstance(st.orelse[0], ast.If)) and _terminates(st.body):
                    tail = st.orelse
                    st.orelse = []
                    stmts[i + 1 : i + 1] = tail
                i += 1
    return ast.unparse(ast.fix_missing_locations(tree)) + "\n"


def t_yoda(src):
    """`x == CONST` / `x != CONST` written as `CONST == x` / `CONST != x`."""
    tree = ast.parse(src)
    for n in ast.walk(tree):
        if isinstance(n, ast.Compare) and len(n.ops) == 1 and isinstance(n.ops[0], (ast.Eq, ast.NotEq)) and isinstance(n.comparators[0], ast.Constant) and not isinstance(n.left, ast.Constant):
            n.left, n.comparators[0] = n.comparators[0], n.left
    return ast.unparse(ast.fix_missing_locations(tree)) + "\n"


def t_splitand(src):
    """`if a and b: S` (no else) becomes `if a:` / `if b: S`."""
    tree = ast.parse(src)
    for n in ast.walk(tree):
        if isinstance(n, ast.If) and not n.orelse and isinstance(n.test, ast.BoolOp) and isinstance(n.test.op, ast.And) and len(n.test.values) == 2:
            a, b = n.test.values
            inner = ast.If(test=b, body=n.body, orelse=[])
            n.test = a
            n.body = [inner]
    return ast.unparse(ast.fix_missing_locations(tree)) + "\n"


def t_rettmp(src):
    """`return E` (E not a plain name/constant) becomes `_r = E` / `return _r`."""
    tree = ast.parse(src)
    for parent in ast.walk(tree):
        for field in ("body", "orelse", "finalbody"):
            stmts = getattr(parent, field, None)
            if not isinstance(stmts, list):
                continue
            i = 0
            while i < len(stmts):
                st = stmts[i]
                if isinstance(st, ast.Return) and st.value is not None and not isinstance(st.value, (ast.Name, ast.Constant)) and not any(isinstance(x, (ast.Yield, ast.YieldFrom, ast.Await)) for x in ast.walk(st.value)):
                    stmts[i : i + 1] = [ast.Assign(targets=[ast.Name(id="_r", ctx=ast.Store())], value=st.value), ast.Return(value=ast.Name(id="_r", ctx=ast.Load()))]
                    i += 1
                i += 1
        if isinstance(parent, ast.Try):
            for h in parent.handlers:
                stmts = h.body
                i = 0
                while i < len(stmts):
                    st = stmts[i]
                    if isinstance(st, ast.Return) and st.value is not None and not isinstance(st.value, (ast.Name, ast.Constant)):
                        stmts[i : i + 1] = [ast.Assign(targets=[ast.Name(id="_r", ctx=ast.Store())], value=st.value), ast.Return(value=ast.Name(id="_r", ctx=ast.Load()))]
                        i += 1
                    i += 1
    return ast.unparse(ast.fix_missing_locations(tree)) + "\n"


def t_condtmp(src):
    """`if E:` (E contains a call) becomes `_c = E` / `if _c:` for ifs that are direct statements of a block (elif
    arms are left alone: hoisting their test would change evaluation order)."""
    tree = ast.parse(src)
    for parent in ast.walk(tree):
        for field in ("body", "orelse", "finalbody"):
            stmts = getattr(parent, field, None)
            if not isinstance(stmts, list):
                continue
            if field == "orelse" and isinstance(parent, ast.If) and len(stmts) == 1 and isinstance(stmts[0], ast.If):
                continue
            i = 0
            while i < len(stmts):
                st = stmts[i]
                if isinstance(st, ast.If) and any(isinstance(x, ast.Call) for x in ast.walk(st.test)) and not any(isinstance(x, (ast.NamedExpr, ast.Yield, ast.Await)) for x in ast.walk(st.test)):
                    stmts[i : i + 1] = [ast.Assign(targets=[ast.Name(id="_c", ctx=ast.Store())], value=st.test), st]
                    st.test = ast.Name(id="_c", ctx=ast.Load())
                    i += 1
                i += 1
    return ast.unparse(ast.fix_missing_locations(tree)) + "\n"


def t_argtmp(src):
    """`f(a, g(x))` as a statement becomes `_a = g(x)` / `f(a, _a)` (first call-valued positional argument whose
    predecessors are names/constants/attributes; evaluation order of the calls is preserved)."""
    tree = ast.parse(src)

    def simple(e):
        return isinstance(e, (ast.Name, ast.Constant)) or (isinstance(e, ast.Attribute) and simple(e.value))

    def hoist(st):
        v = st.value if isinstance(st, (ast.Expr, ast.Assign, ast.Return, ast.AugAssign)) else None
        if not isinstance(v, ast.Call) or not simple(v.func) or any(isinstance(x, (ast.Yield, ast.YieldFrom, ast.Await, ast.NamedExpr, ast.Lambda, ast.GeneratorExp, ast.ListComp, ast.SetComp, ast.DictComp)) for x in ast.walk(v)):
            return None
        if isinstance(st, ast.AugAssign) or (isinstance(st, ast.Assign) and not all(isinstance(t, ast.Name) for t in st.targets)):
            return None
        for i, a in enumerate(v.args):
            if isinstance(a, ast.Starred):
                return None
            if isinstance(a, ast.Call):
                if simple(a.func) or (isinstance(a.func, ast.Attribute)):
                    v.args[i] = ast.Name(id="_a", ctx=ast.Load())
                    return ast.Assign(targets=[ast.Name(id="_a", ctx=ast.Store())], value=a)
                return None
            if not simple(a):
                return None
        return None

    for parent in ast.walk(tree):
        lists = [getattr(parent, f, None) for f in ("body", "orelse", "finalbody")]
        if isinstance(parent, ast.Try):
            lists += [h.body for h in parent.handlers]
        for stmts in lists:
            if not isinstance(stmts, list) or isinstance(parent, (ast.Module, ast.ClassDef)):
                continue
            i = 0
            while i < len(stmts):
                pre = hoist(stmts[i])
                if pre is not None:
                    stmts.insert(i, pre)
                    i += 1
                i += 1
    return ast.unparse(ast.fix_missing_locations(tree)) + "\n"


def t_forunpack(src):
    """`for a, b in X:` becomes `for _t in X:` / `a, b = _t` (statement-level for loops with a tuple target)."""
    tree = ast.parse(src)
    for n in ast.walk(tree):
        if isinstance(n, ast.For) and isinstance(n.target, (ast.Tuple, ast.List)) and not any(isinstance(e, ast.Starred) for e in n.target.elts):
            tgt = n.target
            n.target = ast.Name(id="_t", ctx=ast.Store())
            n.body.insert(0, ast.Assign(targets=[tgt], value=ast.Name(id="_t", ctx=ast.Load())))
    return ast.unparse(ast.fix_missing_locations(tree)) + "\n"


MODES = {"forunpack": t_forunpack, "argtmp": t_argtmp, "condtmp": t_condtmp, "rettmp": t_rettmp, "splitand": t_splitand, "dropelse": t_dropelse, "yoda": t_yoda, "annotate": t_annotate, "reformat": t_reformat, "shift": t_shift, "log": t_log, "rename": t_rename, "messages": t_messages, "swapelse": t_swapelse}


def main():
    mode = sys.argv[1]
    sync()
    n = bad = 0
    targets = analysed() or [f for f in files() if f.endswith(".py") and f.startswith("breezy/") and "/tests/" not in f]
    for rel in targets:
        p = os.path.join(DST, rel)
        if not os.path.exists(p):
            continue
        src = open(p, encoding="utf-8").read()
        try:
            new = MODES[mode](src)
            compile(new, rel, "exec")
        except Exception as e:  # leave the file alone
            bad += 1
            print(f"skip {rel}: {type(e).__name__}: {e}")
            continue
        open(p, "w", encoding="utf-8").write(new)
        n += 1
    print(f"mode={mode}: transformed {n} files ({bad} skipped)")
    env = dict(os.environ, VERIF_REPO=DST)
    r = subprocess.run(["/verif/check", "--all"] + sys.argv[2:], env=env, capture_output=True, text=True)
    lines = [l for l in r.stdout.split("\n") + r.stderr.split("\n") if "VIOLATION" in l or "ANALYSIS-ERROR" in l or l.startswith("  breezy") or l.startswith("  crates")]
    print("\n".join(l[:400] for l in lines))
    print(f"exit={r.returncode}  alarms={sum('VIOLATION' in l or 'ANALYSIS-ERROR' in l for l in lines)}")


if __name__ == "__main__":
    main()
