#!/usr/bin/env python3
"""neutral_fuzz.py <mode> — false-alarm test: build a scratch copy of /repo's sources under /tmp/neutral/repo, apply a
behaviour-preserving whole-tree transformation and run every check against it (VERIF_REPO).  Any VIOLATION or
ANALYSIS-ERROR is a defect of the checker (brittleness), never of breezy.

modes:
  reformat   every Python file re-emitted by ast.unparse (comments dropped, layout / quoting / parentheses normalised)
  shift      three comment lines inserted after every `def` line and at the top of every file (all line numbers move)
  log        `trace.mutter("enter <qualname>")`-style no-op statement (a bare string expression) inserted as the first
             statement of every function (statement indices move; blocks get one more statement)
  rename     every function-local variable whose name is assigned in exactly one function of the module and is at least
             6 characters long gets a `_x` suffix (checks must not depend on incidental local names) — reported
             separately, because some rules deliberately name protocol-relevant locals
Not part of any registered check; a development tool (uses /tmp)."""

import ast
import os
import subprocess
import sys

SRC = "/repo"
DST = "/tmp/neutral/repo"


def files():
    out = subprocess.run(["git", "-C", SRC, "ls-files"], capture_output=True, text=True, check=True).stdout.split("\n")
    return [f for f in out if f.endswith((".py", ".rs", ".toml", ".pyi"))]


def sync():
    os.makedirs(DST, exist_ok=True)
    lst = "/tmp/neutral/files.txt"
    open(lst, "w").write("\n".join(files()) + "\n")
    subprocess.run(["rsync", "-a", "--delete", f"--files-from={lst}", SRC + "/", DST + "/"], check=True)


def analysed():
    """Python files any check consults (from the evidence files of the last run), else all of breezy/."""
    import glob
    import json

    seen = set()
    for p in glob.glob("/verif/evidence/*.json"):
        try:
            d = json.load(open(p))
        except Exception:
            continue
        for f in d.get("files_analysed", []) or d.get("extra", {}).get("files", []) or []:
            seen.add(f)
    return sorted(f for f in seen if f.endswith(".py"))


def t_reformat(src):
    return ast.unparse(ast.parse(src)) + "\n"


def t_shift(src):
    out = ["# neutral: line shift", "#", "#"]
    for line in src.split("\n"):
        out.append(line)
    # comment lines after each def header are only safe when the header ends on that line; keep it simple: top only
    # plus a blank comment block before every top-level `class` / `def`
    res = []
    for line in out:
        if line.startswith(("def ", "class ", "async def ")):
            res += ["# neutral", "# neutral", "# neutral"]
        res.append(line)
    return "\n".join(res)


def t_log(src):
    tree = ast.parse(src)
    lines = src.split("\n")
    inserts = []  # (line index to insert before, indent)
    for n in ast.walk(tree):
        if isinstance(n, (ast.FunctionDef, ast.AsyncFunctionDef)):
            body = n.body
            first = body[0]
            if isinstance(first, ast.Expr) and isinstance(first.value, ast.Constant) and isinstance(first.value.value, str):
                if len(body) == 1:
                    continue
                first = body[1]
            if first.lineno == n.lineno:  # one-line def
                continue
            # do not split decorators / multi-line statements: insert before the first real statement's first line
            ln = min([first.lineno] + [d.lineno for d in getattr(first, "decorator_list", [])])
            inserts.append((ln - 1, first.col_offset))
    for idx, ind in sorted(set(inserts), reverse=True):
        lines.insert(idx, " " * ind + "'neutral: entered'")
    new = "\n".join(lines)
    ast.parse(new)
    return new


def t_rename(src):
    tree = ast.parse(src)
    owner = {}
    for fn in ast.walk(tree):
        if isinstance(fn, (ast.FunctionDef, ast.AsyncFunctionDef)):
            params = {a.arg for a in fn.args.args + fn.args.kwonlyargs + fn.args.posonlyargs} | ({fn.args.vararg.arg} if fn.args.vararg else set()) | ({fn.args.kwarg.arg} if fn.args.kwarg else set())
            for n in ast.walk(fn):
                if isinstance(n, ast.Name) and isinstance(n.ctx, ast.Store) and n.id not in params:
                    owner.setdefault(n.id, set()).add(id(fn))
    glob = {n.id for n in ast.walk(tree) if isinstance(n, ast.Global) for n in []}
    nonlocal_ = set()
    for n in ast.walk(tree):
        if isinstance(n, (ast.Global, ast.Nonlocal)):
            nonlocal_ |= set(n.names)
    top = {t.id for s in tree.body for t in ast.walk(s) if isinstance(t, ast.Name) and isinstance(t.ctx, ast.Store) and s in tree.body and not isinstance(s, (ast.FunctionDef, ast.ClassDef))}
    names = {k for k, v in owner.items() if len(v) == 1 and len(k) >= 6 and k not in nonlocal_ and k not in top}
    # nested functions read enclosing locals: only rename when every Name occurrence of k lies inside the one owner
    for fn in ast.walk(tree):
        pass

    class R(ast.NodeTransformer):
        def visit_Name(self, n):
            if n.id in names:
                n.id = n.id + "_x"
            return n

    # keyword arguments / attribute names are untouched (they are not Name nodes)
    # names also used at class level or module level as reads of globals would be broken: exclude those that are read
    # outside their owner
    fn_of = {}
    for fn in ast.walk(tree):
        if isinstance(fn, (ast.FunctionDef, ast.AsyncFunctionDef)):
            for n in ast.walk(fn):
                if isinstance(n, ast.Name):
                    fn_of.setdefault(n.id, set()).add(id(fn))
    all_names = {}
    for n in ast.walk(tree):
        if isinstance(n, ast.Name):
            all_names[n.id] = all_names.get(n.id, 0) + 1
    inside = {}
    for fn in ast.walk(tree):
        if isinstance(fn, (ast.FunctionDef, ast.AsyncFunctionDef)):
            for n in ast.walk(fn):
                if isinstance(n, ast.Name) and id(fn) in owner.get(n.id, ()):
                    inside[n.id] = inside.get(n.id, 0) + 1
    # occurrences inside nested defs are counted once per enclosing def: compare with the owner's count only
    names = {k for k in names if inside.get(k, 0) >= all_names.get(k, 0)}
    new = ast.unparse(R().visit(tree)) + "\n"
    return new


MODES = {"reformat": t_reformat, "shift": t_shift, "log": t_log, "rename": t_rename}


def main():
    mode = sys.argv[1]
    sync()
    n = bad = 0
    targets = analysed() or [f for f in files() if f.endswith(".py") and f.startswith("breezy/") and "/tests/" not in f]
    for rel in targets:
        p = os.path.join(DST, rel)
        if not os.path.exists(p):
            continue
        src = open(p, encoding="utf-8").read()
        try:
            new = MODES[mode](src)
            compile(new, rel, "exec")
        except Exception as e:  # leave the file alone
            bad += 1
            print(f"skip {rel}: {type(e).__name__}: {e}")
            continue
        open(p, "w", encoding="utf-8").write(new)
        n += 1
    print(f"mode={mode}: transformed {n} files ({bad} skipped)")
    env = dict(os.environ, VERIF_REPO=DST)
    r = subprocess.run(["/verif/check", "--all"] + sys.argv[2:], env=env, capture_output=True, text=True)
    lines = [l for l in r.stdout.split("\n") + r.stderr.split("\n") if "VIOLATION" in l or "ANALYSIS-ERROR" in l or l.startswith("  breezy") or l.startswith("  crates")]
    print("\n".join(l[:400] for l in lines))
    print(f"exit={r.returncode}  alarms={sum('VIOLATION' in l or 'ANALYSIS-ERROR' in l for l in lines)}")


if __name__ == "__main__":
    main()
