#!/bin/sh
# vseed.sh <PROP> <n> <checks> <pytest paths> <selftest args>  — serialised (flock) verification of one seeded change
P=$1; N=$2; C=$3; T=$4; S=$5
exec flock /tmp/vseed.lock python3 /verif/tools/verify_seed.py /tmp/seed-$P-out/$N $P $P-$N --tests "$T" --selftest "$S" --checks "$C" > /tmp/vs-$(echo $P | tr A-Z a-z)-$N.txt 2>&1
