#!/bin/sh
# usage: mkwt.sh <dir>   — scratch worktree of /repo's HEAD with the compiled extension modules linked in
set -e
d="$1"
git -C /repo worktree add -q --detach "$d" HEAD
for f in /repo/breezy/*.so; do ln -s "$f" "$d/breezy/"; done
echo "$d"
