import json,sys
pid=sys.argv[1]
p=json.load(open(f'/tmp/prop-{pid}.json'))
print(f"""You are helping evaluate how well a verification effort detects subtle regressions in the Breezy version control system (Python, with some Rust). You have your own scratch git worktree of the project at /tmp/seed-{pid} (compiled extension modules are already linked in). Work ONLY inside /tmp/seed-{pid} (and /tmp/seed-{pid}-out for your deliverables). Do NOT read or touch /repo, /verif, or any other /tmp/seed-* directory.

Here is a semantic property of Breezy that should hold (JSON record):

{json.dumps(p,indent=1)}

TASK: produce up to TWO independent, realistic source changes to Breezy (non-test code under breezy/, src/ or crates/ — prefer Python files since Rust cannot be rebuilt here) each of which BREAKS this property, while
 (a) the code still imports/compiles, and
 (b) the existing test-suite still passes (at minimum every existing test module closely related to the files you touched — run them), and
 (c) the breakage needs something specific to manifest: a particular interleaving, a crash or fault injected at a particular point, a multi-step sequence of operations, an unusual input, or two cooperating sites that each look fine alone. NOT something ordinary use or the existing tests would expose at once.
Think like a plausible well-meaning refactor / optimisation / cleanup that subtly removes a safety obligation (a re-check, an ordering, a guard on one branch, an abort on an error path, a table entry on one side, etc.). The two changes should attack different mechanisms of the property if possible. If you can only find one good change, deliver one.

For EACH change deliver, in /tmp/seed-{pid}-out/<n>/ (n = 1, 2):
  - patch.diff : `git diff` of the change against HEAD of the worktree (only that change; apply-able with `git apply` at the repo root).
  - demo.py (or demo_test.py) : a self-contained demonstration run as `cd <worktree> && /venv/bin/python demo.py` that exits 0 / prints PASS on the unmodified code and exits non-zero / prints FAIL with the change applied. It may use fault injection by monkeypatching, custom transports, threads, etc. It must show the property's observable behaviour being violated (not merely that the code differs).
  - notes.md : which clause of the property breaks, what it needs in order to manifest, which existing test modules you ran (exact commands) and their pass/fail counts with and without the change.

How to run things: use `/venv/bin/python` (Python 3.12 with all deps). From the worktree root, `import breezy` resolves to the worktree. Run tests like `cd /tmp/seed-{pid} && /venv/bin/python -m pytest -q -p no:cacheprovider -x -n 4 breezy/tests/test_foo.py` (pytest-xdist is available; a test module is typically 1-60 s; do NOT run the whole suite, it takes 25+ minutes — pick the related modules, including the per_* scenario directories when relevant, with -n 8). Some tests fail on the unmodified tree for environment reasons; compare against the unmodified result (save and restore your change with `git diff > /tmp/seed-{pid}-out/x.diff; git checkout -- .; ...; git apply /tmp/seed-{pid}-out/x.diff` — NEVER use `git stash`: the stash is shared between all worktrees and other agents are working in parallel).

Before finishing: make sure the worktree is left with NO uncommitted modifications (`git checkout -- .`), and that each patch.diff applies cleanly to the clean worktree and the demo behaves as stated in both states (re-verify this yourself). Keep your final answer short: for each change one paragraph (files/functions touched, why tests don't notice, what the demo does).""")
print()
print()
print('Additional notes: (1) the per_* scenario test directories only run correctly through `/venv/bin/python -m breezy selftest --parallel=fork -s <module>` (run from the worktree root with PYTHONPATH set to the worktree), not through plain pytest. (2) Rust sources under crates/ and src/ CAN be rebuilt offline if you really need to (`cargo build --offline -p <crate>` takes 3-5 minutes; the Python extension crates are crates/*-py, and the built lib must be copied over the matching breezy/_*_rs*.so symlink in your worktree) but prefer Python-side changes. (3) Put the current working directory first on sys.path in your demo (sys.path.insert(0, os.getcwd())) so that it exercises the worktree and not the installed copy. (4) Never use `git stash` (the stash is shared between worktrees).')
