#!/bin/sh
# tryseed.sh <patch.diff> <checks...> — run checks against a scratch worktree with the patch applied (never touches /repo's working tree)
WT=/tmp/try-wt
[ -d $WT ] || /verif/tools/mkwt.sh $WT >/dev/null
git -C $WT checkout -q --detach $(git -C /repo rev-parse HEAD) 2>/dev/null
git -C $WT checkout -q -- . ; git -C $WT clean -fdq
P=$1; shift
git -C $WT apply "$P" || { echo "patch does not apply"; exit 3; }
for f in /repo/breezy/*.so; do [ -e $WT/breezy/$(basename $f) ] || ln -s $f $WT/breezy/; done
VERIF_REPO=$WT /verif/check "$@" | grep -v "KNOWN-FINDING\|info \["
git -C $WT checkout -q -- . ; git -C $WT clean -fdq
