#!/usr/bin/env python3
"""verify_seed.py <src_dir> <PROP> <name> [--tests "<pytest args>"] [--selftest "<brz selftest args>"]

Confirms a seeded change independently in a fresh scratch worktree of /repo:
  1. demo passes on the clean tree, fails with the patch;
  2. the given existing tests have identical outcomes with and without it;
  3. which /verif checks fire with the patch applied to the scratch tree (VERIF_REPO).
Then stores it as /verif/seeded/<name>/ (patch.diff, demo, notes, meta.json).
The scratch worktree is removed afterwards.
"""
import json, os, shutil, subprocess, sys, tempfile, time

VERIF = os.path.dirname(os.path.dirname(os.path.abspath(__file__)))


def sh(cmd, cwd=None, timeout=3600, env=None):
    p = subprocess.run(cmd, shell=True, cwd=cwd, capture_output=True, text=True, timeout=timeout, env=env)
    return p.returncode, (p.stdout + p.stderr)


def _verdict(summary):
    """The OK / FAILED part of a selftest summary (the 'Ran n tests' line can fall outside the captured tail)."""
    toks = (summary or "").split()
    return " ".join(t for i, t in enumerate(toks) if not (t == "Ran" or (i and toks[i - 1] == "Ran") or (i > 1 and toks[i - 2] == "Ran")))


def main():
    a = sys.argv[1:]
    src, prop, name = a[0], a[1], a[2]
    tests = selftest = None
    checks = prop
    i = 3
    while i < len(a):
        if a[i] == "--tests":
            tests = a[i + 1]
        elif a[i] == "--selftest":
            selftest = a[i + 1]
        elif a[i] == "--checks":
            checks = a[i + 1]
        i += 2
    demo = next((f for f in ("demo.py", "demo_test.py") if os.path.exists(os.path.join(src, f))), None)
    assert demo, "no demo in " + src
    wt = tempfile.mkdtemp(prefix="vseed-", dir="/tmp")
    os.rmdir(wt)
    meta = {"property": prop, "name": name, "ran": []}
    try:
        rc, out = sh(f"{VERIF}/tools/mkwt.sh {wt}")
        assert rc == 0, out
        shutil.copy(os.path.join(src, demo), os.path.join(wt, demo))
        env = dict(os.environ, PYTHONPATH=wt)
        rc0, out0 = sh(f"/venv/bin/python {demo}", cwd=wt, timeout=900, env=env)
        meta["ran"].append({"cmd": f"python {demo} (clean)", "rc": rc0, "tail": out0[-300:]})
        t_clean = s_clean = None
        if tests:
            rc, out = sh(f"/venv/bin/python -m pytest -q -p no:cacheprovider -n 6 {tests} --junitxml={wt}/clean.xml", cwd=wt, env=env)
            t_clean = out.strip().splitlines()[-1] if out.strip() else ""
        if selftest:
            rc, out = sh(f"/venv/bin/python -m breezy selftest {selftest} 2>&1 | tail -n 4", cwd=wt, env=env)
            s_clean = " ".join(l.split(" in ")[0] for l in out.strip().splitlines() if l.startswith(("Ran", "OK", "FAILED")))
        rc, out = sh(f"git apply {os.path.abspath(src)}/patch.diff", cwd=wt)
        assert rc == 0, "patch does not apply: " + out
        rc, out = sh("/venv/bin/python -m compileall -q breezy >/dev/null; echo ok", cwd=wt)
        rc1, out1 = sh(f"/venv/bin/python {demo}", cwd=wt, timeout=900, env=env)
        meta["ran"].append({"cmd": f"python {demo} (patched)", "rc": rc1, "tail": out1[-400:]})
        meta["demo_clean_rc"], meta["demo_patched_rc"] = rc0, rc1
        if tests:
            rc, out = sh(f"/venv/bin/python -m pytest -q -p no:cacheprovider -n 6 {tests} --junitxml={wt}/patched.xml", cwd=wt, env=env)
            t_patched = out.strip().splitlines()[-1] if out.strip() else ""
            rc, d = sh(f"python3 {VERIF}/tools/junit_diff.py {wt}/clean.xml {wt}/patched.xml")
            meta["tests"] = {"pytest_args": tests, "clean": t_clean, "patched": t_patched, "outcomes_identical": rc == 0, "diff": d[-600:]}
        if selftest:
            rc, out = sh(f"/venv/bin/python -m breezy selftest {selftest} 2>&1 | tail -n 4", cwd=wt, env=env)
            s_patched = " ".join(l.split(" in ")[0] for l in out.strip().splitlines() if l.startswith(("Ran", "OK", "FAILED")))
            meta["selftest"] = {"args": selftest, "clean": s_clean, "patched": s_patched, "outcomes_identical": _verdict(s_clean) == _verdict(s_patched) and "OK" in s_patched}
        # which checks fire
        fired = {}
        for c in checks.split(","):
            rc, out = sh(f"./check {c} --tier quick", cwd=VERIF, env=dict(os.environ, VERIF_REPO=wt))
            fired[c] = {"rc": rc, "lines": [l.strip()[:300] for l in out.splitlines() if "[" + c + "/" in l or l.startswith(("VIOLATION", "ANALYSIS-ERROR"))][:8]}
        meta["checks_on_patched_tree"] = fired
        sh(f"git -C {VERIF} checkout -- evidence", cwd=VERIF)
    finally:
        sh(f"git -C /repo worktree remove --force {wt}")
        shutil.rmtree(wt, ignore_errors=True)
    ok = meta.get("demo_clean_rc") == 0 and meta.get("demo_patched_rc") not in (0, None)
    if "tests" in meta:
        ok = ok and meta["tests"]["outcomes_identical"]
    if "selftest" in meta:
        ok = ok and meta["selftest"]["outcomes_identical"]
    meta["confirmed"] = bool(ok)
    meta["detected"] = any(v["rc"] == 1 for v in meta["checks_on_patched_tree"].values())
    dst = os.path.join(VERIF, "seeded", name)
    os.makedirs(dst, exist_ok=True)
    for f in ("patch.diff", demo, "notes.md"):
        if os.path.exists(os.path.join(src, f)) and os.path.abspath(src) != os.path.abspath(dst):
            shutil.copy(os.path.join(src, f), os.path.join(dst, f))
    with open(os.path.join(dst, "meta.json"), "w") as f:
        json.dump(meta, f, indent=1)
        f.write("\n")
    print(json.dumps({k: meta[k] for k in ("confirmed", "detected", "demo_clean_rc", "demo_patched_rc")}), json.dumps(meta.get("tests", {}))[:300], json.dumps(meta.get("selftest", {}))[:300])
    for c, v in meta["checks_on_patched_tree"].items():
        print(" ", c, "rc", v["rc"], *v["lines"][:3], sep="\n    ")


if __name__ == "__main__":
    main()
