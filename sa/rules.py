"""Rule-kind helpers (K1–K3) on top of sa.cfg; every helper records exactly one
obligation in the Ctx and returns its outcome.  Empty anchor sets are analysis
errors (exit 2), never passes."""

import ast

from .astutil import call_attr, call_name, call_recv, dotted, norm, short
from .cfg import build_cfg
from .index import AnchorMissing


def fn_cfg(ctx, rel, qual, fallible=None, with_is_scope=True, roles=None):
    """Function, its CFG and its display name.  With `roles` (see astutil.bind_roles) the locals are first renamed to
    their role names, so that the rules below can name them without depending on what the source calls them."""
    fn = ctx.repo.func(rel, qual)
    if roles:
        from .astutil import bind_roles, canonicalise

        fn = canonicalise(fn, bind_roles(fn, roles, f"{rel}:{qual}"))
    g = build_cfg(fn, fallible=fallible, with_is_scope=with_is_scope)
    ctx.fact(len(g.nodes))
    return fn, g, f"{rel}:{qual}"


def calling(g, attr=None, recv=None, name=None, argpred=None, kinds=None):
    """Node ids containing a call that matches all given criteria."""

    def as_set(x):
        return None if x is None else ({x} if isinstance(x, str) else set(x))

    attr, recv, name = as_set(attr), as_set(recv), as_set(name)
    out = []
    for n in g.nodes:
        if kinds and n.kind not in kinds:
            continue
        for c in n.calls():
            if attr is not None and call_attr(c) not in attr:
                continue
            if recv is not None and call_recv(c) not in recv:
                continue
            if name is not None and call_name(c) not in name:
                continue
            if argpred is not None and not argpred(c):
                continue
            out.append(n.id)
            break
    return out


def need(where, nodes, what):
    if not nodes:
        raise AnchorMissing(f"{where}: expected construct not found: {what}")
    return nodes


def describe(g, nodes):
    return "; ".join(f"L{g.nodes[i].lineno}:{g.nodes[i].text()}" for i in list(nodes)[:4])


def k1_before(ctx, rule, where, g, a, b, what, src=None, per_iteration=False):
    """Every path from entry (or src) to a b-node passes an a-node."""
    a, b = set(a), set(b) - set(a)
    bad_witness = None
    ok = True
    if per_iteration:
        for bn in sorted(b):
            loops = g.loops_of(bn)
            # innermost loop that encloses b and at least one a-node
            shared = [l for l in loops if any(l in g.loops_of(an) for an in a)]
            s = [shared[-1]] if shared else [g.entry]
            r = g.reach(s, avoid=a, include_src=True)
            if bn in r:
                ok = False
                bad_witness = g.path(s, [bn], avoid=a)
                break
    else:
        s = [g.entry] if src is None else list(src)
        r = g.reach(s, avoid=a, include_src=True)
        hit = sorted(b & r)
        if hit:
            ok = False
            bad_witness = g.path(s, hit, avoid=a)
    return ctx.check(rule, where, ok, what, construct=describe(g, b), message=f"ordering violated — {what}", witness=g.show_path(bad_witness) if bad_witness else None)


def k1_never_after(ctx, rule, where, g, a, b, what):
    """No b-node is reachable once an a-node has executed."""
    r = g.reach(list(a))
    hit = sorted(set(b) & r)
    w = g.path(list(a), hit) if hit else None
    return ctx.check(rule, where, not hit, what, construct=describe(g, hit), message=f"ordering violated — {what}", witness=g.show_path(w) if w else None)


def k3_after(ctx, rule, where, g, a, r, what, exits=None):
    """After any a-node every path to an exit passes an r-node."""
    ok, w = g.always_after(a, r, exits)
    return ctx.check(rule, where, ok, what, construct=describe(g, a), message=f"obligation not met on some exit — {what}", witness=g.show_path(w) if w else None)


def k2_unreachable(ctx, rule, where, g, env, b, what):
    """Under the assumptions `env` no b-node is reachable from entry."""
    g2 = g.assume(env)
    r = g2.reachable_from_entry()
    hit = sorted(set(b) & r)
    w = g2.path([g2.entry], hit) if hit else None
    return ctx.check(rule, where, not hit, what, construct=describe(g, hit), message=f"guard missing — {what}", witness=g.show_path(w) if w else None)


def effect_signature(fn):
    """Source-order sequence of the events of a function body that survive renaming of locals, introduction of
    temporaries, comments, docstrings and annotations: callee names, attribute stores/deletes on self, control transfers,
    comparison / boolean operators and constants."""
    import ast as _ast

    ev = []

    def visit(n):
        post = None
        if isinstance(n, (_ast.FunctionDef, _ast.AsyncFunctionDef, _ast.Lambda)) and n is not fn:
            ev.append("def")
        # expression operators are emitted after their operands (evaluation order): `t = f(); if t is None:` and
        # `if f() is None:` give the same sequence
        if isinstance(n, _ast.Call):
            d = dotted(n.func)
            post = "call " + (d if d and (d.startswith("self.") or "." not in d or d.split(".")[0] in {"os", "osutils", "errors", "stat", "shutil", "trace", "urlutils"}) else "." + (call_attr(n) or "?"))
        elif isinstance(n, _ast.Attribute) and isinstance(n.ctx, (_ast.Store, _ast.Del)) and dotted(n):
            post = ("store " if isinstance(n.ctx, _ast.Store) else "del ") + dotted(n)
        elif isinstance(n, _ast.Subscript) and isinstance(n.ctx, (_ast.Store, _ast.Del)) and dotted(n.value) and dotted(n.value).startswith("self."):
            post = ("store " if isinstance(n.ctx, _ast.Store) else "del ") + dotted(n.value) + "[]"
        elif isinstance(n, (_ast.Continue, _ast.Break, _ast.Try, _ast.With, _ast.For, _ast.ExceptHandler)):
            ev.append(type(n).__name__.lower() + (" " + "|".join(handler_types_(n)) if isinstance(n, _ast.ExceptHandler) else ""))
        elif isinstance(n, (_ast.Return, _ast.Raise, _ast.Yield, _ast.YieldFrom)):
            post = type(n).__name__.lower()
        elif isinstance(n, _ast.Compare):
            post = "cmp " + " ".join(type(o).__name__ for o in n.ops)
        elif isinstance(n, _ast.BoolOp):
            post = type(n.op).__name__.lower()
        elif isinstance(n, _ast.UnaryOp) and isinstance(n.op, _ast.Not):
            post = "not"
        elif isinstance(n, _ast.Constant) and not isinstance(n.value, type(None)):
            ev.append("const " + repr(n.value)[:40])
        fields = list(_ast.iter_fields(n))
        if isinstance(n, (_ast.If, _ast.While, _ast.IfExp)):
            visit(n.test)
            ev.append(type(n).__name__.lower())
            fields = [(k, v) for k, v in fields if k != "test"]
        if isinstance(n, _ast.Assign):
            fields = [("value", n.value), ("targets", n.targets)]
        for f_, v in fields:
            if f_ in ("annotation", "returns", "decorator_list"):
                continue
            for c in v if isinstance(v, list) else [v]:
                if isinstance(c, _ast.AST):
                    visit(c)
        if post:
            ev.append(post)

    def handler_types_(h):
        from .astutil import handler_types

        return sorted(handler_types(h))

    body = [s for s in fn.body if not (isinstance(s, _ast.Expr) and isinstance(s.value, _ast.Constant))]
    for s in body:
        visit(s)
    return ev


def clone_agreement(ctx, rule, rel_a, rel_b, quals, why):
    """K7 for cloned siblings: each qualified function in `quals` exists in both modules and the two bodies have the
    same effect signature (see effect_signature: renaming locals, temporaries, comments, docstrings do not matter).  An
    edit made to both siblings passes; a behavioural edit made to one is reported with the first differing event."""
    for q in quals:
        a, b = ctx.repo.func(rel_a, q), ctx.repo.func(rel_b, q)
        sa_, sb_ = effect_signature(a), effect_signature(b)
        same = sa_ == sb_
        first = ""
        if not same:
            for i in range(max(len(sa_), len(sb_))):
                x = sa_[i] if i < len(sa_) else "<end>"
                y = sb_[i] if i < len(sb_) else "<end>"
                if x != y:
                    first = f"event #{i}: {rel_a} has `{x}` (L{a.lineno}+) where {rel_b} has `{y}` (L{b.lineno}+)"
                    break
        ctx.check(rule, f"{rel_a}:{q}", same, f"`{q}` does the same thing in both transform families ({why})", construct=first, message=f"sibling implementations of `{q}` have diverged — {first}. The two families share this logic; a change made to one of them changes what one tree format computes but not the other")


def test_nodes(g, pred):
    return [n.id for n in g.nodes if n.kind == "test" and pred(n.ast)]


def mentions(expr, *names):
    from .astutil import dotted_in

    ds = dotted_in(expr)
    return any(n in ds for n in names)


def edges_out(g, nid, label):
    return [(nid, b, l) for (b, l) in g.succ[nid] if l == label]


def guarded_by(ctx, rule, where, g, b, guard_pred, polarity, what):
    """Every path entry->b takes the `polarity` ('T'/'F') edge of some test
    node satisfying guard_pred (control dependence on the guard)."""
    cut = set()
    tests = test_nodes(g, guard_pred)
    for t in tests:
        cut |= set(edges_out(g, t, polarity))
    g2 = g.copy_without(cut)
    r = g2.reachable_from_entry()
    hit = sorted(set(b) & r)
    w = g2.path([g2.entry], hit) if hit else None
    return ctx.check(rule, where, bool(tests) and not hit, what, construct=describe(g, hit or b), message=f"not control-dependent on the required test — {what}", witness=g.show_path(w) if w else None)
