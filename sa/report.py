"""Per-run context: obligations, violations, information, evidence."""

import json
import os
import time

from .index import AnalysisError, Repo

VERIF = os.path.dirname(os.path.dirname(os.path.abspath(__file__)))


class Violation:
    def __init__(self, prop, rule, where, construct, message, witness=None):
        self.prop = prop
        self.rule = rule
        self.where = where
        self.construct = construct
        self.message = message
        self.witness = witness

    @property
    def key(self):
        return f"{self.prop}/{self.rule}/{self.where}"

    def as_dict(self):
        d = {"key": self.key, "rule": self.rule, "where": self.where, "construct": self.construct, "message": self.message}
        if self.witness:
            d["witness"] = self.witness
        return d

    def line(self):
        s = f"{self.where}: [{self.prop}/{self.rule}] {self.message}"
        if self.construct:
            s += f" | construct: {self.construct}"
        if self.witness:
            s += f" | path: {self.witness}"
        return s


class Ctx:
    def __init__(self, prop, tier="quick", repo=None, quiet=False):
        self.prop = prop
        self.tier = tier
        self.repo = repo or Repo()
        self.quiet = quiet
        self.obligations = []  # (rule, where, what, ok)
        self.violations = []
        self.infos = []
        self.samples = []
        self.evaluations = 0
        self.extra = {}
        self.t0 = time.time()

    # -- recording ----------------------------------------------------------
    def fact(self, n=1):
        self.evaluations += n

    def check(self, rule, where, cond, what, construct=None, message=None, witness=None):
        """Register one obligation (a rule instance at a site) and its
        outcome.  Returns cond."""
        cond = bool(cond)
        self.obligations.append((rule, where, what, cond))
        self.evaluations += 1
        if not cond:
            self.violations.append(Violation(self.prop, rule, where, construct or "", message or ("violated: " + what), witness))
        return cond

    def violation(self, rule, where, construct, message, witness=None):
        self.obligations.append((rule, where, message, False))
        self.violations.append(Violation(self.prop, rule, where, construct or "", message, witness))

    def info(self, rule, where, message):
        self.infos.append({"rule": rule, "where": where, "message": message})

    def sample(self, obj):
        if len(self.samples) < 12:
            self.samples.append(obj)

    def require(self, cond, message):
        """Fail closed: the analysis itself cannot proceed."""
        if not cond:
            raise AnalysisError(message)

    # -- summary --------------------------------------------------------------
    def counts(self):
        n = len(self.obligations)
        ok = sum(1 for o in self.obligations if o[3])
        distinct = len({(o[0], o[1], o[2]) for o in self.obligations})
        return n, ok, distinct


def load_known_findings():
    p = os.path.join(VERIF, "known_findings.json")
    if not os.path.exists(p):
        return {"findings": [], "fixed": []}
    with open(p) as f:
        return json.load(f)


def write_evidence(path, prop, tier, seed, coverage, assumptions, wall, violations):
    os.makedirs(os.path.dirname(path), exist_ok=True)
    ev = {
        "property_id": prop,
        "tier": tier,
        "seed": seed,
        "level": "other",
        "coverage": coverage,
        "assumptions": assumptions,
        "wall_s": round(wall, 3),
        "violations": violations,
    }
    tmp = path + ".tmp"
    with open(tmp, "w") as f:
        json.dump(ev, f, indent=1, sort_keys=False, default=str)
        f.write("\n")
    os.replace(tmp, path)
