"""./check <ID> [--tier quick|thorough] [--replay path] | --all | --calibrate | --list"""

import importlib
import json
import os
import sys
import time
import traceback

from .index import AnalysisError
from .report import Ctx, VERIF, load_known_findings, write_evidence
from . import selftest

COMMON_ASSUMPTIONS = [
    "static analysis of /repo's current source text only; breezy is never imported or executed by the check",
    "libraries outside /repo (bzrformats, dulwich, dromedary, merge3, patiencediff, fastbencode) behave as documented",
    "callee resolution is by name / in-repo MRO; dynamic dispatch outside the tabled receivers is not followed",
    "transport rename/put_file atomicity and the Python/Rust compilers are trusted",
]


def prop_modules():
    d = os.path.join(VERIF, "sa", "props")
    ids = sorted(f[:-3] for f in os.listdir(d) if f.startswith("c") and f.endswith(".py") and f[1:3].isdigit())
    return ids


def load(pid):
    name = pid.lower()
    try:
        return importlib.import_module(f"sa.props.{name}")
    except ModuleNotFoundError as e:
        if e.name and e.name.endswith(name):
            return None
        raise


def run_one(pid, tier, replay=None):
    t0 = time.time()
    seed = int(os.environ.get("VERIF_SEED", "0") or 0)
    ev_path = os.path.join(VERIF, "evidence", f"{pid}.json")
    mod = load(pid)
    if mod is None:
        print(f"ANALYSIS-ERROR property={pid} no checker module (property not claimed)")
        return 2
    ctx = Ctx(pid, tier)
    err = None
    try:
        mod.run(ctx)
        floor = getattr(mod, "FLOOR", 1)
        n, ok, distinct = ctx.counts()
        if n < floor and not ctx.violations:
            raise AnalysisError(f"only {n} rule instances matched, hand-confirmed floor is {floor}: a rule is passing vacuously or an anchor moved")
    except AnalysisError as e:
        err = f"{e}"
    except Exception as e:  # checker bug: never let a traceback look like a violation
        err = f"internal error {type(e).__name__}: {e}"
        traceback.print_exc(file=sys.stderr)

    st_results, st_failed = [], 0
    if tier == "thorough" and err is None:
        try:
            st_results, st_failed = selftest.run_selftests(mod, ctx)
        except Exception as e:
            err = f"self-test harness error {type(e).__name__}: {e}"
            traceback.print_exc(file=sys.stderr)
        if st_failed and err is None:
            bad = [r for r in st_results if r["status"] == "failed"]
            err = "self-test failed (checker regression): " + "; ".join(f"{r['mutant']}: {r.get('detail','')}" for r in bad)

    known = load_known_findings()
    known_keys = {k["key"]: k for k in known.get("findings", []) if k.get("property") == pid}
    listed = [v for v in ctx.violations if v.key in known_keys]
    unlisted = [v for v in ctx.violations if v.key not in known_keys]

    n, ok, distinct = ctx.counts()
    rules = sorted({o[0] for o in ctx.obligations})
    coverage = {
        "explanation": getattr(mod, "EXPLANATION", "").strip(),
        "technique": getattr(mod, "TECHNIQUE", ""),
        "obligations": n,
        "discharged": ok,
        "evaluations": ctx.evaluations,
        "distinct_nontrivial": distinct,
        "rule": "one obligation per (rule, function/table, instance) found in /repo's source on this run; "
        "distinct = distinct (rule, site, statement) triples; every instance of each rule in the named functions is enumerated, none sampled",
        "rules_applied": rules,
        "samples": ctx.samples or [{"rule": o[0], "where": o[1], "what": o[2], "ok": o[3]} for o in ctx.obligations[:8]],
        "obligation_list": [{"rule": o[0], "where": o[1], "what": o[2], "ok": o[3]} for o in ctx.obligations][:400],
        "information": ctx.infos[:60],
        "files_analysed": dict(sorted(ctx.repo.consulted.items())),
        "exhaustive": bool(getattr(mod, "EXHAUSTIVE", False)),
        "violations_found": [v.as_dict() for v in ctx.violations],
        "known_findings_matched": [v.key for v in listed],
    }
    coverage.update(ctx.extra)
    if tier == "thorough":
        coverage["selftest"] = {
            "mutants": len(st_results),
            "ok": sum(1 for r in st_results if r["status"] == "ok"),
            "skipped": sum(1 for r in st_results if r["status"] == "skipped"),
            "failed": sum(1 for r in st_results if r["status"] == "failed"),
            "results": st_results,
        }
    if err:
        coverage["analysis_error"] = err
    assumptions = COMMON_ASSUMPTIONS + list(getattr(mod, "ASSUMPTIONS", []))
    write_evidence(ev_path, pid, tier, seed, coverage, assumptions, time.time() - t0, len(unlisted))

    print(f"[{pid}] tier={tier} rules={','.join(rules)} obligations={n} discharged={ok} facts={ctx.evaluations} files={len(ctx.repo.consulted)} wall={time.time()-t0:.2f}s")
    for i in ctx.infos[:20]:
        print(f"  info [{i['rule']}] {i['where']}: {i['message']}")
    if tier == "thorough":
        for r in st_results:
            print(f"  selftest {r['status']:7s} {r['kind']:9s} {r['mutant']}" + (f" — {r.get('detail','')}" if r["status"] != "ok" else ""))
    if err and not unlisted:
        print(f"ANALYSIS-ERROR property={pid} {err}")
        return 2
    if err:
        print(f"  note: analysis stopped early ({err}); violations found before that point are reported")
    for v in listed:
        print(f"KNOWN-FINDING: property={pid} {v.key} — {known_keys[v.key].get('what', v.message)}")
    if unlisted:
        rp_dir = os.path.join(VERIF, "replay")
        os.makedirs(rp_dir, exist_ok=True)
        rp = os.path.join(rp_dir, f"{pid}.json")
        with open(rp, "w") as f:
            json.dump({"property": pid, "violations": [v.as_dict() for v in unlisted]}, f, indent=1)
            f.write("\n")
        for v in unlisted:
            print("  " + v.line())
        print(f"VIOLATION property={pid} replay={rp}")
        return 1
    return 0


def main(argv=None):
    argv = list(sys.argv[1:] if argv is None else argv)
    tier = os.environ.get("VERIF_TIER") or "quick"
    replay = None
    ids = []
    i = 0
    mode = "run"
    while i < len(argv):
        a = argv[i]
        if a == "--tier":
            tier = argv[i + 1]
            i += 2
            continue
        if a == "--replay":
            replay = argv[i + 1]
            i += 2
            continue
        if a == "--all":
            ids = [x.upper() for x in prop_modules()]
        elif a == "--calibrate":
            mode = "calibrate"
        elif a == "--list":
            mode = "list"
        else:
            ids.append(a.upper())
        i += 1
    if tier not in ("quick", "thorough"):
        tier = "quick"
    if mode == "list":
        print("\n".join(x.upper() for x in prop_modules()))
        return 0
    if mode == "calibrate":
        mods = [load(x.upper()) for x in prop_modules()]
        d = selftest.calibrate([m for m in mods if m])
        print(f"calibrated {len(d)} files")
        return 0
    if replay:
        with open(replay) as f:
            print(f.read())
    if not ids:
        print("usage: ./check <ID>... [--tier quick|thorough]", file=sys.stderr)
        return 2
    worst = 0
    for pid in ids:
        rc = run_one(pid, tier, replay)
        worst = max(worst, rc)
    return worst


if __name__ == "__main__":
    try:
        rc = main()
    except Exception as e:
        traceback.print_exc(file=sys.stderr)
        print(f"ANALYSIS-ERROR {type(e).__name__}: {e}")
        rc = 2
    sys.stdout.flush()
    sys.exit(rc)
