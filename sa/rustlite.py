"""E6 — Rust-lite: just enough lexing of .rs files to find a function body and
the early-return guards / string keys in it.  Not a Rust parser: it handles
line and block comments, string / raw-string / char literals vs lifetimes and
brace matching, which is what the five Rust anchors need."""

import re

from .index import AnalysisError, AnchorMissing


def strip(src):
    """Replace comments by spaces and string literal *contents* by a
    placeholder table, keeping offsets line-compatible.  Returns (code,
    strings) where each literal appears in code as "§<n>§"."""
    out = []
    strings = []
    i, n = 0, len(src)
    while i < n:
        c = src[i]
        if src.startswith("//", i):
            j = src.find("\n", i)
            j = n if j < 0 else j
            i = j
            continue
        if src.startswith("/*", i):
            depth, j = 1, i + 2
            while j < n and depth:
                if src.startswith("/*", j):
                    depth += 1
                    j += 2
                elif src.startswith("*/", j):
                    depth -= 1
                    j += 2
                else:
                    j += 1
            out.append("\n" * src.count("\n", i, j))
            i = j
            continue
        m = re.match(r'b?r(#*)"', src[i:])
        if m and (i == 0 or not (src[i - 1].isalnum() or src[i - 1] == "_")):
            hashes = m.group(1)
            end = src.find('"' + hashes, i + m.end())
            if end < 0:
                raise AnalysisError("unterminated raw string")
            strings.append(src[i + m.end() : end])
            out.append(f"§{len(strings)-1}§")
            i = end + 1 + len(hashes)
            continue
        if c == '"' or (c == "b" and i + 1 < n and src[i + 1] == '"' and (i == 0 or not (src[i - 1].isalnum() or src[i - 1] == "_"))):
            j = i + (2 if c == "b" else 1)
            buf = []
            while j < n and src[j] != '"':
                if src[j] == "\\" and j + 1 < n:
                    buf.append(src[j : j + 2])
                    j += 2
                else:
                    buf.append(src[j])
                    j += 1
            strings.append("".join(buf))
            out.append(f"§{len(strings)-1}§")
            i = j + 1
            continue
        if c == "'":
            # char literal or lifetime
            m = re.match(r"'(\\.[^']*|[^'\\])'", src[i:])
            if m:
                out.append("'c'")
                i += m.end()
                continue
        out.append(c)
        i += 1
    return "".join(out), strings


def match_brace(code, open_idx):
    depth = 0
    for j in range(open_idx, len(code)):
        if code[j] == "{":
            depth += 1
        elif code[j] == "}":
            depth -= 1
            if depth == 0:
                return j
    raise AnalysisError("unbalanced braces")


class RustFile:
    def __init__(self, repo, rel):
        self.rel = rel
        self.src = repo.text(rel)
        self.code, self.strings = strip(self.src)

    def fn_body(self, name):
        """Code of the body (between the braces) of the first `fn name`."""
        m = re.search(r"\bfn\s+" + re.escape(name) + r"\b[^;{]*\{", self.code)
        if not m:
            raise AnchorMissing(f"{self.rel}: fn {name} not found")
        o = m.end() - 1
        c = match_brace(self.code, o)
        return self.code[o + 1 : c]

    def lit(self, token):
        m = re.fullmatch(r"§(\d+)§", token.strip())
        return self.strings[int(m.group(1))] if m else None

    def literals_in(self, code):
        return [self.strings[int(x)] for x in re.findall(r"§(\d+)§", code)]


def top_level_statements(body):
    """Split a block body into top-level statements (by ';' or a closing
    brace of a block statement at depth 0)."""
    stmts = []
    depth = 0
    cur = []
    i = 0
    while i < len(body):
        ch = body[i]
        cur.append(ch)
        if ch in "{([":
            depth += 1
        elif ch in "})]":
            depth -= 1
            if depth == 0 and ch == "}":
                # block statement ends unless followed by else / method chain / ;
                rest = body[i + 1 :].lstrip()
                if not (rest.startswith("else") or rest.startswith(".") or rest.startswith(";") or rest.startswith("?") or rest.startswith(")") or rest.startswith(",")):
                    s = "".join(cur).strip()
                    if s:
                        stmts.append(s)
                    cur = []
        elif ch == ";" and depth == 0:
            s = "".join(cur).strip()
            if s:
                stmts.append(s)
            cur = []
        i += 1
    s = "".join(cur).strip()
    if s:
        stmts.append(s)
    return stmts


def early_return_guard(stmt):
    """For `if COND { ... return X; }` (no else) -> (COND, X) else None."""
    m = re.match(r"if\s+(.*?)\s*\{(.*)\}\s*$", stmt, re.S)
    if not m:
        return None
    cond, inner = m.group(1), m.group(2)
    # make sure the brace we split on is the block's (cond has balanced parens)
    if cond.count("(") != cond.count(")") or "{" in cond:
        return None
    if re.search(r"\}\s*else\b", inner):
        return None
    r = re.search(r"\breturn\s+([^;]*);\s*$", inner.strip(), re.S)
    if not r:
        r2 = re.search(r"\bcontinue\s*;\s*$", inner.strip())
        if r2:
            return (" ".join(cond.split()), "continue")
        return None
    return (" ".join(cond.split()), " ".join(r.group(1).split()))
