"""E1 — repository index / resolver.

Lazy: a module is parsed when first asked for.  `Repo(root, overlay)` lets the
self-test harness substitute the text of single files without touching /repo.
Everything fails closed: a missing file, class or function raises
AnchorMissing, which the CLI maps to exit 2 (ANALYSIS-ERROR), never to a pass.
"""

import ast
import glob
import hashlib
import os

from .astutil import dotted


class AnalysisError(Exception):
    """The analysis cannot give a verdict (exit 2)."""


class AnchorMissing(AnalysisError):
    pass


REPO_ROOT = os.environ.get("VERIF_REPO", "/repo")


def _normalise_tests(tree):
    """Shape normalisation applied to every module before any rule looks at it (positions are kept):
    `if not C: A else: B`  (two non-empty arms, B not an elif chain)  becomes  `if C: B else: A`, and `not not C` becomes
    C.  Which arm a programmer writes first is not a property of the program; rules are written against the positive
    form only."""
    # `x: T = v` is the assignment `x = v` (annotations carry no behaviour): rules look at ast.Assign only
    for parent in ast.walk(tree):
        for field in ("body", "orelse", "finalbody"):
            stmts = getattr(parent, field, None)
            if isinstance(stmts, list):
                for i, st in enumerate(stmts):
                    if isinstance(st, ast.AnnAssign) and st.value is not None and st.simple:
                        stmts[i] = ast.copy_location(ast.Assign(targets=[st.target], value=st.value, type_comment=None), st)
        if isinstance(parent, ast.Try):
            for h in parent.handlers:
                for i, st in enumerate(h.body):
                    if isinstance(st, ast.AnnAssign) and st.value is not None and st.simple:
                        h.body[i] = ast.copy_location(ast.Assign(targets=[st.target], value=st.value, type_comment=None), st)
    # `x = E` immediately followed by `return x` is `return E` (x a plain local name)
    def _inline_returns(stmts):
        i = 0
        while i + 1 < len(stmts):
            a, b = stmts[i], stmts[i + 1]
            if isinstance(a, ast.Assign) and len(a.targets) == 1 and isinstance(a.targets[0], ast.Name) and isinstance(b, ast.Return) and isinstance(b.value, ast.Name) and b.value.id == a.targets[0].id:
                stmts[i : i + 2] = [ast.copy_location(ast.Return(value=a.value), a)]
            i += 1

    for parent in ast.walk(tree):
        for field in ("body", "orelse", "finalbody"):
            stmts = getattr(parent, field, None)
            if isinstance(stmts, list) and stmts and isinstance(stmts[0], ast.stmt):
                _inline_returns(stmts)
    # `t = E` immediately followed by `if <test using t once>:` where t is read nowhere else in the function: the
    # temporary is inlined into the test
    def _blocks(node):
        for parent in ast.walk(node):
            for field in ("body", "orelse", "finalbody"):
                stmts = getattr(parent, field, None)
                if isinstance(stmts, list) and stmts and isinstance(stmts[0], ast.stmt):
                    yield stmts

    for fn in [n for n in ast.walk(tree) if isinstance(n, (ast.FunctionDef, ast.AsyncFunctionDef))]:
        loads = {}
        for n in ast.walk(fn):
            if isinstance(n, ast.Name) and isinstance(n.ctx, ast.Load):
                loads[n.id] = loads.get(n.id, 0) + 1
        pairs = {}
        for stmts in _blocks(fn):
            for i in range(len(stmts) - 1):
                a, b = stmts[i], stmts[i + 1]
                if isinstance(a, ast.Assign) and len(a.targets) == 1 and isinstance(a.targets[0], ast.Name) and isinstance(b, (ast.If, ast.While)) and not isinstance(b, ast.While):
                    x = a.targets[0].id
                    if sum(1 for n in ast.walk(b.test) if isinstance(n, ast.Name) and n.id == x) == 1:
                        pairs.setdefault(x, []).append((stmts, a, b))
        for x, ps in pairs.items():
            if loads.get(x, 0) != len(ps):
                continue
            if not all(any(a is s_ for s_ in stmts) for stmts, a, b in ps):
                continue  # already inlined while handling the enclosing function
            for stmts, a, b in ps:
                class _Sub(ast.NodeTransformer):
                    def visit_Name(self, n, _x=x, _v=a.value):
                        return _v if n.id == _x and isinstance(n.ctx, ast.Load) else n

                b.test = _Sub().visit(b.test)
                del stmts[[k for k, s_ in enumerate(stmts) if s_ is a][0]]
    # `for t in X:` whose first statement is `a, b = t` (t read nowhere else in the loop body) is `for a, b in X:`
    for n in ast.walk(tree):
        if isinstance(n, (ast.For, ast.AsyncFor)) and isinstance(n.target, ast.Name) and n.body and isinstance(n.body[0], ast.Assign) and len(n.body[0].targets) == 1 and isinstance(n.body[0].targets[0], (ast.Tuple, ast.List)) and isinstance(n.body[0].value, ast.Name) and n.body[0].value.id == n.target.id:
            t_ = n.target.id
            others = sum(1 for st in n.body[1:] + n.orelse for m in ast.walk(st) if isinstance(m, ast.Name) and m.id == t_)
            if others == 0 and len(n.body) > 1:
                n.target = n.body[0].targets[0]
                del n.body[0]
    # `t = <call>` immediately followed by a simple statement that reads t exactly once, every read and every
    # assignment of t in the function being such a pair: the temporary is inlined (`_a = g(x); f(a, _a)` is
    # `f(a, g(x))`).  Whether a call's argument is first given a name is not a property of the program.
    _NEST = (ast.Lambda, ast.GeneratorExp, ast.ListComp, ast.SetComp, ast.DictComp)
    for fn in [n for n in ast.walk(tree) if isinstance(n, (ast.FunctionDef, ast.AsyncFunctionDef))]:
        for _round in range(4):
            loads, stores = {}, {}
            for n in ast.walk(fn):
                if isinstance(n, ast.Name):
                    d_ = loads if isinstance(n.ctx, ast.Load) else stores
                    d_[n.id] = d_.get(n.id, 0) + 1
            params = {a_.arg for a_ in ast.walk(fn) if isinstance(a_, ast.arg)}
            pairs = {}
            for stmts in _blocks(fn):
                for i in range(len(stmts) - 1):
                    a, b = stmts[i], stmts[i + 1]
                    if (
                        isinstance(a, ast.Assign)
                        and len(a.targets) == 1
                        and isinstance(a.targets[0], ast.Name)
                        and isinstance(a.value, ast.Call)
                        and isinstance(b, (ast.Expr, ast.Assign, ast.AugAssign, ast.Return))
                        and b.value is not None
                        and not any(isinstance(n, (ast.Yield, ast.YieldFrom, ast.Await)) for n in ast.walk(a.value))
                    ):
                        x = a.targets[0].id
                        uses = [n for n in ast.walk(b.value) if isinstance(n, ast.Name) and n.id == x and isinstance(n.ctx, ast.Load)]
                        nested = any(isinstance(n, _NEST) and any(isinstance(m, ast.Name) and m.id == x for m in ast.walk(n)) for n in ast.walk(b.value))
                        restored = isinstance(b, ast.Assign) and any(isinstance(n, ast.Name) and n.id == x for t in b.targets for n in ast.walk(t))
                        if len(uses) == 1 and not nested and not restored and x not in params:
                            pairs.setdefault(x, []).append((stmts, a, b))
            done = False
            for x, ps in pairs.items():
                if loads.get(x, 0) != len(ps) or stores.get(x, 0) != len(ps):
                    continue
                if not all(any(a is s_ for s_ in stmts) for stmts, a, b in ps):
                    continue
                for stmts, a, b in ps:
                    class _Sub2(ast.NodeTransformer):
                        def visit_Name(self, n, _x=x, _v=a.value):
                            return _v if n.id == _x and isinstance(n.ctx, ast.Load) else n

                    b.value = _Sub2().visit(b.value)
                    del stmts[[k for k, s_ in enumerate(stmts) if s_ is a][0]]
                done = True
            if not done:
                break
    # `if a:` whose only statement is an else-less `if b: S` (and no else itself) is `if a and b: S`
    changed = True
    while changed:
        changed = False
        for n in ast.walk(tree):
            if isinstance(n, ast.If) and not n.orelse and len(n.body) == 1 and isinstance(n.body[0], ast.If) and not n.body[0].orelse:
                inner = n.body[0]
                vals = (n.test.values if isinstance(n.test, ast.BoolOp) and isinstance(n.test.op, ast.And) else [n.test]) + (inner.test.values if isinstance(inner.test, ast.BoolOp) and isinstance(inner.test.op, ast.And) else [inner.test])
                n.test = ast.copy_location(ast.BoolOp(op=ast.And(), values=vals), n.test)
                n.body = inner.body
                changed = True
    # `CONST == x` is `x == CONST`
    for n in ast.walk(tree):
        if isinstance(n, ast.Compare) and len(n.ops) == 1 and isinstance(n.ops[0], (ast.Eq, ast.NotEq)) and isinstance(n.left, ast.Constant) and not isinstance(n.comparators[0], ast.Constant):
            n.left, n.comparators[0] = n.comparators[0], n.left
    for n in ast.walk(tree):
        if isinstance(n, (ast.If, ast.IfExp)):
            while isinstance(n.test, ast.UnaryOp) and isinstance(n.test.op, ast.Not) and isinstance(n.test.operand, ast.UnaryOp) and isinstance(n.test.operand.op, ast.Not):
                n.test = n.test.operand.operand
        if isinstance(n, ast.If) and n.orelse and isinstance(n.test, ast.UnaryOp) and isinstance(n.test.op, ast.Not) and not (len(n.orelse) == 1 and isinstance(n.orelse[0], ast.If)):
            n.test = n.test.operand
            n.body, n.orelse = n.orelse, n.body
        elif isinstance(n, ast.IfExp) and isinstance(n.test, ast.UnaryOp) and isinstance(n.test.op, ast.Not):
            n.test = n.test.operand
            n.body, n.orelse = n.orelse, n.body


class Module:
    def __init__(self, rel, src):
        self.rel = rel
        self.src = src
        try:
            self.tree = ast.parse(src, filename=rel)
        except SyntaxError as e:
            raise AnalysisError(f"{rel}: does not parse: {e}")
        _normalise_tests(self.tree)
        self._defs = None
        self._imports = None

    # -- definitions -------------------------------------------------------
    def _index(self):
        if self._defs is not None:
            return
        defs = {}

        def visit(body, prefix):
            for n in body:
                if isinstance(n, (ast.FunctionDef, ast.AsyncFunctionDef, ast.ClassDef)):
                    q = prefix + n.name
                    # first definition wins unless a later one replaces it at
                    # the same level (python semantics: last wins)
                    defs[q] = n
                    if isinstance(n, ast.ClassDef):
                        visit(n.body, q + ".")
                elif isinstance(n, (ast.If, ast.Try)):
                    # defs under `if TYPE_CHECKING` / try-import fallbacks
                    for field in ("body", "orelse", "finalbody"):
                        visit(getattr(n, field, []) or [], prefix)
                    if isinstance(n, ast.Try):
                        for h in n.handlers:
                            visit(h.body, prefix)

        visit(self.tree.body, "")
        self._defs = defs

    def get(self, qual):
        self._index()
        return self._defs.get(qual)

    def qualnames(self):
        self._index()
        return list(self._defs)

    def classes(self):
        self._index()
        return {q: n for q, n in self._defs.items() if isinstance(n, ast.ClassDef)}

    def functions(self):
        self._index()
        return {q: n for q, n in self._defs.items() if not isinstance(n, ast.ClassDef)}

    # -- imports -----------------------------------------------------------
    def imports(self):
        """local name -> (module dotted path, attr or None)."""
        if self._imports is not None:
            return self._imports
        pkg = self.rel[:-3].replace("/", ".")
        if pkg.endswith(".__init__"):
            pkg_parts = pkg.split(".")[:-1]
        else:
            pkg_parts = pkg.split(".")[:-1]
        out = {}
        for n in ast.walk(self.tree):
            if isinstance(n, ast.Import):
                for a in n.names:
                    if a.asname:
                        out[a.asname] = (a.name, None)
                    else:
                        out[a.name.split(".")[0]] = (a.name.split(".")[0], None)
            elif isinstance(n, ast.ImportFrom):
                if n.level:
                    base = pkg_parts[: len(pkg_parts) - (n.level - 1)]
                    mod = ".".join(base + ([n.module] if n.module else []))
                else:
                    mod = n.module or ""
                for a in n.names:
                    out[a.asname or a.name] = (mod, a.name)
        # lazy_import blocks: lazy_import(globals(), """ ... """)
        for n in ast.walk(self.tree):
            if isinstance(n, ast.Call) and dotted(n.func) in ("lazy_import", "lazy_import.lazy_import") and len(n.args) == 2:
                txt = n.args[1]
                if isinstance(txt, ast.Constant) and isinstance(txt.value, str):
                    try:
                        sub = ast.parse(_dedent(txt.value))
                    except SyntaxError:
                        continue
                    for m in ast.walk(sub):
                        if isinstance(m, ast.Import):
                            for a in m.names:
                                if a.asname:
                                    out[a.asname] = (a.name, None)
                                else:
                                    out[a.name.split(".")[0]] = (a.name.split(".")[0], None)
                        elif isinstance(m, ast.ImportFrom):
                            for a in m.names:
                                out[a.asname or a.name] = (m.module or "", a.name)
        self._imports = out
        return out


def _dedent(s):
    import textwrap

    return textwrap.dedent(s)


class Repo:
    def __init__(self, root=None, overlay=None):
        self.root = root or REPO_ROOT
        self.overlay = dict(overlay or {})
        self._mods = {}
        self._texts = {}
        self._all = None
        self.consulted = {}  # rel -> sha256 of the text that was analysed

    # -- files -------------------------------------------------------------
    def exists(self, rel):
        return rel in self.overlay or os.path.isfile(os.path.join(self.root, rel))

    def text(self, rel):
        if rel in self._texts:
            return self._texts[rel]
        if rel in self.overlay:
            s = self.overlay[rel]
        else:
            p = os.path.join(self.root, rel)
            if not os.path.isfile(p):
                raise AnchorMissing(f"file {rel} not found under {self.root}")
            with open(p, encoding="utf-8") as f:
                s = f.read()
        self._texts[rel] = s
        self.consulted[rel] = hashlib.sha256(s.encode("utf-8")).hexdigest()[:16]
        return s

    def module(self, rel):
        m = self._mods.get(rel)
        if m is None:
            m = Module(rel, self.text(rel))
            self._mods[rel] = m
        return m

    def with_overlay(self, overlay):
        """A new Repo sharing parsed modules except for the overlaid files."""
        r = Repo(self.root, overlay)
        for rel, m in self._mods.items():
            if rel not in overlay:
                r._mods[rel] = m
                r._texts[rel] = self._texts.get(rel, m.src)
        return r

    def python_files(self, include_tests=False, sub="breezy"):
        if self._all is None:
            files = []
            base = os.path.join(self.root, sub)
            for p in glob.glob(os.path.join(base, "**", "*.py"), recursive=True):
                rel = os.path.relpath(p, self.root)
                files.append(rel)
            for rel in self.overlay:
                if rel.endswith(".py") and rel not in files:
                    files.append(rel)
            self._all = sorted(files)
        if include_tests:
            return list(self._all)
        return [f for f in self._all if "/tests/" not in f and not f.endswith("/tests.py")]

    # -- anchors -----------------------------------------------------------
    def node(self, rel, qual):
        n = self.module(rel).get(qual)
        if n is None:
            raise AnchorMissing(f"{rel}:{qual} not found")
        return n

    def func(self, rel, qual):
        n = self.node(rel, qual)
        if not isinstance(n, (ast.FunctionDef, ast.AsyncFunctionDef)):
            raise AnchorMissing(f"{rel}:{qual} is not a function")
        return n

    def cls(self, rel, qual):
        n = self.node(rel, qual)
        if not isinstance(n, ast.ClassDef):
            raise AnchorMissing(f"{rel}:{qual} is not a class")
        return n

    def has(self, rel, qual):
        return self.exists(rel) and self.module(rel).get(qual) is not None

    # -- module path helpers -----------------------------------------------
    def rel_of_module(self, modname):
        """'breezy.bzr.remote' -> 'breezy/bzr/remote.py' if it exists in repo."""
        base = modname.replace(".", "/")
        for cand in (base + ".py", base + "/__init__.py"):
            if self.exists(cand):
                return cand
        return None

    # -- class hierarchy -----------------------------------------------------
    def resolve_name(self, rel, name):
        """Resolve a (possibly dotted) name used in module `rel` to
        (rel2, qualname) of a definition inside the repo, or None."""
        mod = self.module(rel)
        parts = name.split(".")
        if mod.get(name) is not None:
            return (rel, name)
        imps = mod.imports()
        head = parts[0]
        if head in imps:
            m, attr = imps[head]
            rest = parts[1:]
            if attr is not None:
                # from m import attr  -> attr may be a module or a definition
                r2 = self.rel_of_module(m + "." + attr)
                if r2 is not None:
                    if not rest:
                        return (r2, "")
                    q = ".".join(rest)
                    if self.module(r2).get(q) is not None:
                        return (r2, q)
                    return self._reexport(r2, q)
                r2 = self.rel_of_module(m)
                if r2 is not None:
                    q = ".".join([attr] + rest)
                    if self.module(r2).get(q) is not None:
                        return (r2, q)
                    return self._reexport(r2, q)
                return None
            else:
                # `import a.b.c` binds 'a' -> package a; `import a.b as x`
                # binds x -> module a.b
                cand = m.split(".") + parts[1:]
                for i in range(len(cand), 0, -1):
                    r2 = self.rel_of_module(".".join(cand[:i]))
                    if r2 is not None:
                        q = ".".join(cand[i:])
                        if not q:
                            return (r2, "")
                        if self.module(r2).get(q) is not None:
                            return (r2, q)
                        return self._reexport(r2, q)
                return None
        return None

    def _reexport(self, rel, qual, depth=0):
        """Follow `from x import Y` re-exports in module rel."""
        if depth > 4:
            return None
        head = qual.split(".")[0]
        imps = self.module(rel).imports()
        if head in imps:
            r = self.resolve_name(rel, qual)
            return r
        return None

    def bases(self, rel, qual):
        """Resolved base classes of class (rel, qual): list of (rel2, qual2)
        for those defined in the repo; unresolved bases are returned as
        (None, text)."""
        c = self.cls(rel, qual)
        out = []
        for b in c.bases:
            d = dotted(b)
            if d is None:
                out.append((None, ast.unparse(b)))
                continue
            r = self.resolve_name(rel, d)
            if r is not None and r[1] and isinstance(self.module(r[0]).get(r[1]), ast.ClassDef):
                out.append(r)
            else:
                out.append((None, d))
        return out

    def mro(self, rel, qual, _seen=None):
        """Approximate MRO (depth-first, left-to-right, duplicates removed
        keeping the last occurrence, like C3 for the diamond shapes used in
        breezy).  Only in-repo classes are listed."""
        order = []

        def dfs(r, q, seen):
            if (r, q) in seen:
                return
            seen = seen | {(r, q)}
            order.append((r, q))
            for br, bq in self.bases(r, q):
                if br is not None:
                    dfs(br, bq, seen)

        dfs(rel, qual, frozenset())
        # keep last occurrence of duplicates
        out = []
        for i, x in enumerate(order):
            if x not in order[i + 1 :]:
                out.append(x)
        return out

    def resolve_method(self, rel, qual, name):
        """First (rel2, cls2, FunctionDef) in the MRO defining `name`."""
        for r, q in self.mro(rel, qual):
            n = self.module(r).get(q + "." + name)
            if isinstance(n, (ast.FunctionDef, ast.AsyncFunctionDef)):
                return (r, q, n)
        return None

    def all_classes(self, include_tests=False):
        """[(rel, qual, ClassDef)] over every python file in breezy/."""
        out = []
        for rel in self.python_files(include_tests):
            for q, n in self.module(rel).classes().items():
                out.append((rel, q, n))
        return out

    def subclasses(self, rel, qual, include_tests=False):
        """All classes in the repo whose MRO contains (rel, qual)."""
        target = (rel, qual)
        out = []
        for r, q, _ in self.all_classes(include_tests):
            if (r, q) == target:
                continue
            try:
                if target in self.mro(r, q):
                    out.append((r, q))
            except AnalysisError:
                continue
        return out
