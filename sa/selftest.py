"""E7 — seeded-violation twins and neutral edits (thorough tier).

A Mutant is a one-place textual edit of one source file of /repo.  It is applied
to an in-memory overlay (nothing is written anywhere), the edited text must
still parse, and the property's rules are re-run on the overlaid repository.

  must-fire mutant : some violation whose rule is in `expect` (and whose
                     `where` contains `where`, if given) must appear that was
                     not reported on the untouched tree;
  neutral mutant   : the set of violation keys must equal the untouched tree's.

Strictness: the edit anchors (`old` text) are tied to today's source.  When the
file still has the digest recorded in sa/selftest_digests.json a mutant that
does not apply or does not behave is a broken checker (exit 2).  When the file
has been edited since, a mutant that no longer applies is only reported as
skipped — the verdict on the edited tree comes from the rules, not from the
self-test.
"""

import ast
import hashlib
import json
import os

from .index import AnalysisError
from .report import Ctx, VERIF

DIGESTS = os.path.join(VERIF, "sa", "selftest_digests.json")


class Mutant:
    def __init__(self, name, file, old, new, expect=None, where=None, neutral=False, count=1, note=""):
        self.name = name
        self.file = file
        self.old = old
        self.new = new
        self.expect = [expect] if isinstance(expect, str) else (expect or [])
        self.where = where
        self.neutral = neutral
        self.count = count
        self.note = note


def _digest(text):
    return hashlib.sha256(text.encode("utf-8")).hexdigest()[:16]


def load_digests():
    if os.path.exists(DIGESTS):
        with open(DIGESTS) as f:
            return json.load(f)
    return {}


def run_selftests(mod, base_ctx):
    """Returns (results, n_failed_strict).  results: list of dicts."""
    muts = getattr(mod, "MUTANTS", [])
    digests = load_digests()
    base_keys = {v.key for v in base_ctx.violations}
    results = []
    failed = 0
    for m in muts:
        res = {"mutant": m.name, "file": m.file, "kind": "neutral" if m.neutral else "must-fire"}
        try:
            text = base_ctx.repo.text(m.file)
        except AnalysisError as e:
            res["status"] = "skipped"
            res["detail"] = str(e)
            results.append(res)
            continue
        strict = digests.get(m.file) == _digest(text)
        n = text.count(m.old)
        if n != m.count:
            res["status"] = "failed" if strict else "skipped"
            res["detail"] = f"edit anchor occurs {n} times (expected {m.count})"
            if strict:
                failed += 1
            results.append(res)
            continue
        new_text = text.replace(m.old, m.new)
        if m.file.endswith(".py"):
            try:
                ast.parse(new_text)
            except SyntaxError as e:
                res["status"] = "failed"
                res["detail"] = f"mutant does not parse: {e}"
                failed += 1
                results.append(res)
                continue
        repo2 = base_ctx.repo.with_overlay({m.file: new_text})
        ctx2 = Ctx(base_ctx.prop, "quick", repo2, quiet=True)
        err = None
        try:
            mod.run(ctx2)
        except AnalysisError as e:
            err = str(e)
        keys2 = {v.key for v in ctx2.violations}
        if m.neutral:
            okay = err is None and keys2 == base_keys
            res["status"] = "ok" if okay else "failed"
            if not okay:
                res["detail"] = err or f"violations changed: +{sorted(keys2 - base_keys)} -{sorted(base_keys - keys2)}"
        else:
            new = [v for v in ctx2.violations if v.key not in base_keys]
            hit = [v for v in new if (not m.expect or v.rule in m.expect) and (m.where is None or m.where in v.where)]
            if "ANALYSIS-ERROR" in m.expect and err is not None:
                hit = [err]
            okay = bool(hit)
            res["status"] = "ok" if okay else "failed"
            if okay:
                res["fired"] = hit[0] if isinstance(hit[0], str) else hit[0].line()
            else:
                res["detail"] = err or ("rule did not fire; new violations: " + "; ".join(v.key for v in new) if new else "rule did not fire")
        if res["status"] == "failed":
            if strict:
                failed += 1
            else:
                res["status"] = "skipped"
                res["detail"] = "(file edited since calibration) " + res.get("detail", "")
        results.append(res)
    return results, failed


def calibrate(mods):
    """Record digests of every file that any mutant edits."""
    from .index import Repo

    repo = Repo()
    d = load_digests()
    for mod in mods:
        for m in getattr(mod, "MUTANTS", []):
            d[m.file] = _digest(repo.text(m.file))
    with open(DIGESTS, "w") as f:
        json.dump(d, f, indent=1, sort_keys=True)
        f.write("\n")
    return d
