"""AST helpers shared by all rules (pure stdlib)."""

import ast

_SKIP_NESTED = (ast.FunctionDef, ast.AsyncFunctionDef, ast.ClassDef, ast.Lambda)


def dotted(node):
    """'a.b.c' for Name/Attribute chains, else None.

    Calls in the chain are rendered with '()' so `self.repo().x` gives
    'self.repo().x'; subscripts give '[]'.
    """
    parts = []
    while True:
        if isinstance(node, ast.Attribute):
            parts.append(node.attr)
            node = node.value
        elif isinstance(node, ast.Name):
            parts.append(node.id)
            break
        elif isinstance(node, ast.Call):
            inner = dotted(node.func)
            if inner is None:
                return None
            parts.append(inner + "()")
            break
        elif isinstance(node, ast.Subscript):
            inner = dotted(node.value)
            if inner is None:
                return None
            parts.append(inner + "[]")
            break
        else:
            return None
    return ".".join(reversed(parts))


def call_name(call):
    return dotted(call.func)


def call_attr(call):
    """Last component of the callee: 'commit' for self.builder.commit(...)."""
    f = call.func
    if isinstance(f, ast.Attribute):
        return f.attr
    if isinstance(f, ast.Name):
        return f.id
    return None


def call_recv(call):
    """Dotted receiver of a method call ('self.builder'), '' for plain names."""
    f = call.func
    if isinstance(f, ast.Attribute):
        return dotted(f.value)
    return ""


def norm(node):
    """Normalised source text of a node (position independent)."""
    if node is None:
        return ""
    if isinstance(node, str):
        return node
    try:
        return ast.unparse(node)
    except Exception:  # pragma: no cover
        return ast.dump(node)


def short(node, n=100):
    s = " ".join(norm(node).split())
    return s if len(s) <= n else s[: n - 3] + "..."


def walk_own(node, include_root=True):
    """Like ast.walk but does not descend into nested defs/classes/lambdas
    (the root itself is always expanded)."""
    stack = [node]
    first = True
    while stack:
        n = stack.pop()
        if not first and isinstance(n, _SKIP_NESTED):
            if include_root:
                yield n
            continue
        if include_root or not first:
            yield n
        first = False
        stack.extend(reversed(list(ast.iter_child_nodes(n))))


def calls_in(node):
    """All Call nodes inside `node` in source order, not entering nested defs."""
    out = [n for n in walk_own(node) if isinstance(n, ast.Call)]
    out.sort(key=lambda c: (getattr(c, "lineno", 0), getattr(c, "col_offset", 0)))
    return out


def names_in(node):
    return {n.id for n in walk_own(node) if isinstance(n, ast.Name)}


def dotted_in(node):
    """All dotted names (maximal Name/Attribute chains) that appear in node."""
    out = set()
    for n in walk_own(node):
        if isinstance(n, (ast.Name, ast.Attribute)):
            d = dotted(n)
            if d:
                out.add(d)
    return out


def str_consts(node):
    out = []
    for n in walk_own(node):
        if isinstance(n, ast.Constant) and isinstance(n.value, (str, bytes)):
            out.append(n.value)
    return out


def const_value(node, default=None):
    if isinstance(node, ast.Constant):
        return node.value
    return default


def is_const(node, value):
    return isinstance(node, ast.Constant) and node.value == value and type(node.value) is type(value)


def stmts_of(fn):
    """Body statements of a function, skipping the docstring."""
    body = list(fn.body)
    if body and isinstance(body[0], ast.Expr) and isinstance(body[0].value, ast.Constant) and isinstance(body[0].value.value, str):
        body = body[1:]
    return body


def iter_stmts(stmts):
    """Every statement (recursively) in a statement list, not entering defs."""
    for s in stmts:
        yield s
        if isinstance(s, _SKIP_NESTED):
            continue
        for field in ("body", "orelse", "finalbody"):
            sub = getattr(s, field, None)
            if isinstance(sub, list):
                yield from iter_stmts(sub)
        if isinstance(s, ast.Try):
            for h in s.handlers:
                yield from iter_stmts(h.body)


def assigned_names(fn):
    """Names (and dotted attribute targets) assigned anywhere in the function."""
    out = set()
    for n in walk_own(fn):
        targets = []
        if isinstance(n, ast.Assign):
            targets = n.targets
        elif isinstance(n, (ast.AugAssign, ast.AnnAssign)):
            targets = [n.target]
        elif isinstance(n, (ast.For, ast.comprehension)):
            targets = [n.target]
        elif isinstance(n, ast.With):
            targets = [i.optional_vars for i in n.items if i.optional_vars is not None]
        elif isinstance(n, ast.NamedExpr):
            targets = [n.target]
        for t in targets:
            for m in ast.walk(t):
                if isinstance(m, (ast.Name, ast.Attribute)) and isinstance(getattr(m, "ctx", None), ast.Store):
                    d = dotted(m)
                    if d:
                        out.add(d)
    return out


def param_names(fn):
    a = fn.args
    names = [x.arg for x in a.posonlyargs + a.args + a.kwonlyargs]
    if a.vararg:
        names.append(a.vararg.arg)
    if a.kwarg:
        names.append(a.kwarg.arg)
    return names


def handler_types(handler):
    """Exception type names caught by an ExceptHandler ([] for bare except)."""
    t = handler.type
    if t is None:
        return []
    if isinstance(t, ast.Tuple):
        return [dotted(e) or norm(e) for e in t.elts]
    return [dotted(t) or norm(t)]


def handler_is_catch_all(handler, broad=("Exception", "BaseException")):
    ts = handler_types(handler)
    if not ts:
        return True
    return any(t.split(".")[-1] in broad for t in ts)


# ---- role binding: find a local by what it is bound to, not by what it is called -----------------------------------
def loop_targets(fn, iter_pred):
    """Target names (flattened) of the for-loops of `fn` whose iterable satisfies iter_pred(norm(iter), iter_node).
    Returns a list of lists (one per loop, source order)."""
    out = []
    for n in walk_own(fn):
        if isinstance(n, (ast.For, ast.AsyncFor)) and iter_pred(norm(n.iter), n.iter):
            t = n.target
            out.append([norm(e) for e in t.elts] if isinstance(t, (ast.Tuple, ast.List)) else [norm(t)])
    return out


def bound_names(fn, value_pred, nested=False):
    """Names `x` of assignments `x = <value>` / `x: T = <value>` / `with <value> as x` / `x := <value>` in `fn` whose
    value satisfies value_pred(norm(value), value_node); source order, duplicates removed.  For tuple targets the
    whole tuple's element names are returned as a tuple."""
    out = []
    walker = ast.walk(fn) if nested else walk_own(fn)
    for n in walker:
        pairs = []
        if isinstance(n, ast.Assign):
            pairs = [(t, n.value) for t in n.targets]
        elif isinstance(n, ast.AnnAssign) and n.value is not None:
            pairs = [(n.target, n.value)]
        elif isinstance(n, ast.NamedExpr):
            pairs = [(n.target, n.value)]
        elif isinstance(n, (ast.With, ast.AsyncWith)):
            pairs = [(i.optional_vars, i.context_expr) for i in n.items if i.optional_vars is not None]
        for t, v in pairs:
            if value_pred(norm(v), v):
                name = tuple(norm(e) for e in t.elts) if isinstance(t, (ast.Tuple, ast.List)) else norm(t)
                if name not in out:
                    out.append(name)
    return out


def one(names, what, where=""):
    """The single element of `names`, else an analysis error (fail closed: the role could not be bound)."""
    from .index import AnchorMissing

    if len(names) != 1:
        raise AnchorMissing(f"{where}: expected exactly one {what}, found {list(names)}")
    return names[0]


class RoleBinding(dict):
    """role -> current local name; .fn is a private copy of the function when a role had to be given a local by
    hoisting its (inlined) expression, else None.  canonicalise() uses that copy."""

    fn = None


def bind_roles(fn, roles, where=""):
    """Resolve role names to the current local names of `fn`.

    roles: ordered mapping  role -> spec, spec one of
        ("assign", pattern[, idx])   target of an assignment / with-as / walrus whose value matches (idx: tuple element)
        ("for", pattern[, idx])      target of a for loop whose iterable matches
        ("recv", attr, argpattern)   receiver of a call  <recv>.<attr>(<arg0 matching>, ...)
        ("subscript", key)           the name X of a store  X[<key>] = ...
        ("return", None, idx)        idx-th element of the (single) tuple shape the function returns
    pattern: str compared with norm(value) after substituting {role} by the names bound so far; a str starting with
    "~" is a regular expression (fullmatch, after substitution, other text NOT escaped); or a callable(norm, node).
    Every role must bind to exactly one name (fail closed).  Returns {role: current_name}."""
    import copy as _copy
    import re as _re

    from .index import AnchorMissing

    bound = RoleBinding()
    orig_fn = fn

    def _hoist(role, m):
        """The index normaliser inlines single-use call temporaries; a role that is written as an assignment may therefore
        have no local on this tree.  If exactly one call expression matches the role's pattern, give it a local named
        after the role in a private copy of the function (`role = <expr>` before the statement that uses it)."""
        nonlocal fn
        work = _copy.deepcopy(fn) if fn is orig_fn else fn
        hits = []
        for blk_owner in ast.walk(work):
            lists = [getattr(blk_owner, f, None) for f in ("body", "orelse", "finalbody")]
            if isinstance(blk_owner, ast.Try):
                lists += [h.body for h in blk_owner.handlers]
            for stmts in lists:
                if not isinstance(stmts, list):
                    continue
                for i, st in enumerate(stmts):
                    if not isinstance(st, (ast.Expr, ast.Assign, ast.AugAssign, ast.Return, ast.If, ast.While, ast.Raise, ast.With, ast.For, ast.Assert)):
                        continue
                    roots = [getattr(st, f, None) for f in ("value", "test", "exc", "iter")] + ([i_.context_expr for i_ in st.items] if isinstance(st, ast.With) else [])
                    for root in roots:
                        if root is None:
                            continue
                        for n in ast.walk(root):
                            if isinstance(n, ast.Call) and m(norm(n), n) and not (isinstance(st, ast.Assign) and n is st.value and len(st.targets) == 1 and isinstance(st.targets[0], ast.Name)):
                                hits.append((stmts, st, n))
        if len(hits) != 1:
            return None
        stmts, st, node = hits[0]
        used = {n.id for n in ast.walk(work) if isinstance(n, ast.Name)} | {a.arg for a in ast.walk(work) if isinstance(a, ast.arg)}
        name = role if role not in used else f"_role_{role}"
        if name in used:
            return None

        class _Rep(ast.NodeTransformer):
            def visit_Call(self, n):
                if n is node:
                    return ast.copy_location(ast.Name(id=name, ctx=ast.Load()), n)
                return self.generic_visit(n)

        asg = ast.copy_location(ast.Assign(targets=[ast.copy_location(ast.Name(id=name, ctx=ast.Store()), node)], value=node, type_comment=None), st)
        _Rep().visit(st)
        stmts.insert([k for k, s_ in enumerate(stmts) if s_ is st][0], asg)
        fn = work
        return name

    def matcher(pat):
        if callable(pat):
            return pat
        p = pat
        for r, cur in bound.items():
            p = p.replace("{" + r + "}", cur)
        if p.startswith("~"):
            rx = _re.compile(p[1:], _re.S)
            return lambda t, n: rx.fullmatch(t) is not None
        return lambda t, n: t == p

    for role, spec in roles.items():
        kind = spec[0]
        m = matcher(spec[1]) if kind not in ("recv", "return", "subscript", "recv_arg") else None
        idx = spec[2] if len(spec) > 2 and kind not in ("recv", "recv_arg") else None
        if kind == "assign":
            cands = bound_names(fn, m, nested=True)
        elif kind == "for":
            cands = [tuple(t) if len(t) > 1 else t[0] for t in loop_targets_nested(fn, m)]
        elif kind == "return":
            if idx is None:
                cands = list(dict.fromkeys(r.value.id for r in walk_own(fn) if isinstance(r, ast.Return) and isinstance(r.value, ast.Name)))
            else:
                cands = list(dict.fromkeys(tuple(norm(e) for e in r.value.elts) for r in walk_own(fn) if isinstance(r, ast.Return) and isinstance(r.value, ast.Tuple)))
        elif kind == "recv_arg":
            # the plain name passed as the idx-th positional argument of a call to <...>.<attr>(...)
            cands = list(dict.fromkeys(c.args[spec[2]].id for c in ast.walk(fn) if isinstance(c, ast.Call) and (call_attr(c) == spec[1] or norm(c.func) == spec[1]) and len(c.args) > spec[2] and isinstance(c.args[spec[2]], ast.Name)))
            idx = None
        elif kind == "subscript":
            cands = list(dict.fromkeys(norm(n.value) for n in ast.walk(fn) if isinstance(n, ast.Subscript) and isinstance(n.ctx, ast.Store) and isinstance(n.slice, ast.Constant) and n.slice.value == spec[1] and isinstance(n.value, ast.Name)))
        elif kind == "recv":
            am = matcher(spec[2])
            cands = []
            for c in ast.walk(fn):
                if isinstance(c, ast.Call) and call_attr(c) == spec[1] and c.args and am(norm(c.args[0]), c.args[0]) and call_recv(c) and call_recv(c) not in cands:
                    cands.append(call_recv(c))
        else:
            raise ValueError(kind)
        if idx is not None:
            cands = [c[idx] for c in cands if isinstance(c, tuple) and len(c) > idx]
        cands = list(dict.fromkeys(cands))
        if kind == "assign" and not cands and idx is None:
            h_ = _hoist(role, m)
            if h_ is not None:
                cands = [h_]
        if len(cands) != 1 or not isinstance(cands[0], str) or not cands[0].isidentifier():
            raise AnchorMissing(f"{where}: cannot bind role `{role}` ({spec[:2]}): candidates {cands}")
        bound[role] = cands[0]
    bound.fn = fn if fn is not orig_fn else None
    return bound


def loop_targets_nested(fn, iter_pred):
    out = []
    for n in ast.walk(fn):
        if isinstance(n, (ast.For, ast.AsyncFor, ast.comprehension)) and iter_pred(norm(n.iter), n.iter):
            t = n.target
            out.append([norm(e) for e in t.elts] if isinstance(t, (ast.Tuple, ast.List)) else [norm(t)])
    return out


def canonicalise(fn, bound):
    """Copy of `fn` in which every local currently called bound[role] is called `role` (positions preserved).  Rules
    written against the role names then do not depend on what the locals happen to be called.  A role name that is
    already used by a *different* local would be captured: that is reported as an analysis error."""
    import copy

    from .index import AnalysisError

    if getattr(bound, "fn", None) is not None:
        fn = bound.fn
    ren = {cur: role for role, cur in bound.items() if cur != role}
    if not ren:
        return fn
    # names of the function's own scope (a nested def's parameter of the same name shadows, it does not clash)
    names = {n.id for n in walk_own(fn) if isinstance(n, ast.Name)} | {a.arg for a in fn.args.args + fn.args.kwonlyargs + fn.args.posonlyargs}
    clash = [r for r in ren.values() if r in names and r not in ren]
    if clash:
        raise AnalysisError(f"{fn.name}: role name(s) {clash} are used by other locals; cannot canonicalise")
    new = copy.deepcopy(fn)
    for n in ast.walk(new):
        if isinstance(n, ast.Name) and n.id in ren:
            n.id = ren[n.id]
        elif isinstance(n, ast.arg) and n.arg in ren:
            n.arg = ren[n.arg]
    return new


def fold_module_constants(mod_tree, fn):
    """Copy of `fn` in which loads of module-level names bound (once) to str/bytes/int constants — or to `+`
    concatenations of such — are replaced by the constant.  `x == _BACKSLASH` then reads as `x == '\\\\'`: naming a
    literal does not change what a rule sees."""
    import copy

    consts = {}
    counts = {}
    for s in mod_tree.body:
        if isinstance(s, ast.Assign) and len(s.targets) == 1 and isinstance(s.targets[0], ast.Name):
            counts[s.targets[0].id] = counts.get(s.targets[0].id, 0) + 1

    def ev(e):
        if isinstance(e, ast.Constant) and isinstance(e.value, (str, bytes, int)) and not isinstance(e.value, bool):
            return e.value
        if isinstance(e, ast.Name) and e.id in consts:
            return consts[e.id]
        if isinstance(e, ast.BinOp) and isinstance(e.op, ast.Add):
            a, b = ev(e.left), ev(e.right)
            if a is not None and b is not None and type(a) is type(b):
                return a + b
        return None

    for s in mod_tree.body:
        if isinstance(s, ast.Assign) and len(s.targets) == 1 and isinstance(s.targets[0], ast.Name) and counts[s.targets[0].id] == 1:
            v = ev(s.value)
            if v is not None:
                consts[s.targets[0].id] = v
    if not consts:
        return fn
    local = {n.id for n in ast.walk(fn) if isinstance(n, ast.Name) and isinstance(n.ctx, ast.Store)} | {a.arg for a in ast.walk(fn) if isinstance(a, ast.arg)}

    class R(ast.NodeTransformer):
        def visit_Name(self, n):
            if isinstance(n.ctx, ast.Load) and n.id in consts and n.id not in local:
                return ast.copy_location(ast.Constant(value=consts[n.id]), n)
            return n

    return R().visit(copy.deepcopy(fn))
