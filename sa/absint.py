"""E4 — abstract evaluator over a restricted statement language.

Used to *extract decision tables / transition systems* from function ASTs:
the caller enumerates a finite abstract domain (equality partitions of the
value parameters, membership bits of set elements, a widened counter, ...)
and this evaluator computes the function's outcome for each abstract input by
structural evaluation of the AST.  It never imports or runs breezy code; any
construct outside the supported language raises Unsupported (-> exit 2), never
a guess.

Supported: if/elif/else, for over finite values, bounded while, assignment
(names, tuples, attributes of Obj, subscripts), augmented assignment, return,
raise, try/except/finally (by exception class name), assert, pass, del;
expressions: constants, names, tuples/lists/sets/dicts, comparisons, boolean
operators, not, +/-, conditional expressions, comprehensions, subscripts,
attribute loads on Obj, calls to a small set of builtins and container
methods, and calls routed to caller-supplied hooks.
"""

import ast
import re

from .astutil import dotted, norm
from .index import AnalysisError


class Unsupported(AnalysisError):
    pass


class Raised(Exception):
    """The evaluated code raised an exception (abstractly)."""

    def __init__(self, name, args=(), node=None):
        super().__init__(name)
        self.name = name
        self.args_ = args
        self.node = node


class _Return(Exception):
    def __init__(self, value):
        self.value = value


class _Break(Exception):
    pass


class _Continue(Exception):
    pass


class Obj:
    """A mutable record standing for `self` (or another tracked object)."""

    def __init__(self, name="obj", **fields):
        object.__setattr__(self, "_name", name)
        object.__setattr__(self, "_f", dict(fields))

    def get(self, k):
        return self._f[k]

    def has(self, k):
        return k in self._f

    def set(self, k, v):
        self._f[k] = v

    def snapshot(self):
        return tuple(sorted((k, _freeze(v)) for k, v in self._f.items()))

    def __repr__(self):
        return f"<{self._name} {self._f}>"


def _freeze(v):
    if isinstance(v, (list, tuple)):
        return tuple(_freeze(x) for x in v)
    if isinstance(v, (set, frozenset)):
        return frozenset(_freeze(x) for x in v)
    if isinstance(v, dict):
        return tuple(sorted((k, _freeze(x)) for k, x in v.items()))
    if isinstance(v, Obj):
        return ("obj", v._name, v.snapshot())
    return v


class Opaque:
    """A value about which nothing is known; using it in a test is Unsupported."""

    def __init__(self, label="?"):
        self.label = label

    def __repr__(self):
        return f"<opaque {self.label}>"


_BUILTINS = {
    "len": len,
    "set": set,
    "frozenset": frozenset,
    "list": list,
    "tuple": tuple,
    "sorted": sorted,
    "reversed": lambda x: list(reversed(x)),
    "bool": bool,
    "min": min,
    "max": max,
    "sum": sum,
    "any": any,
    "all": all,
    "dict": dict,
    "enumerate": lambda x: list(enumerate(x)),
    "zip": lambda *a: list(zip(*a)),
    "range": lambda *a: list(range(*a)),
    "int": int,
    "str": str,
    "iter": iter,
    "next": next,
    "bytes": bytes,
    "bytearray": bytearray,
    "isinstance": isinstance,
}

_SAFE_METHODS = {
    list: {"append", "extend", "pop", "index", "count", "copy", "insert", "remove", "sort", "reverse"},
    set: {"add", "pop", "update", "difference", "difference_update", "union", "intersection", "intersection_update", "discard", "remove", "copy", "issubset", "issuperset", "symmetric_difference", "clear"},
    frozenset: {"difference", "union", "intersection", "issubset", "issuperset", "symmetric_difference"},
    dict: {"get", "items", "keys", "values", "pop", "setdefault", "update", "copy"},
    tuple: {"index", "count"},
    str: {"startswith", "endswith", "split", "join", "strip", "lower", "upper", "encode", "format", "replace", "lstrip", "rstrip", "find", "rfind", "index", "rindex", "count", "partition", "rpartition", "rsplit", "splitlines", "isdigit"},
    bytes: {"startswith", "endswith", "split", "join", "strip", "decode", "replace", "lstrip", "rstrip", "find", "rfind", "index", "rindex", "count", "partition", "rpartition", "rsplit", "splitlines"},
    bytearray: {"append", "extend"},
    re.Pattern: {"match", "fullmatch", "search", "sub", "split", "findall"},
    re.Match: {"end", "start", "group", "groups", "span"},
}


def module_regex_hook(mod_tree):
    """name_hook resolving module-level `NAME = re.compile(<constants>)` (and
    plain constant) assignments to their value."""
    table = {}
    for s in mod_tree.body:
        if isinstance(s, ast.Assign) and len(s.targets) == 1 and isinstance(s.targets[0], ast.Name):
            v = s.value
            if isinstance(v, ast.Constant):
                table[s.targets[0].id] = v.value
            elif isinstance(v, ast.Call) and dotted(v.func) == "re.compile" and v.args and isinstance(v.args[0], ast.Constant):
                flags = 0
                ok = True
                for a in v.args[1:]:
                    d = dotted(a) or ""
                    if d.startswith("re.") and hasattr(re, d[3:]):
                        flags |= getattr(re, d[3:])
                    else:
                        ok = False
                if ok:
                    table[s.targets[0].id] = re.compile(v.args[0].value, flags)

    def hook(name):
        return table.get(name, NotImplemented)

    return hook


class Interp:
    def __init__(self, call_hook=None, name_hook=None, attr_hook=None, loop_bound=64, trace=None):
        """call_hook(interp, call_node, dotted_name, args, kwargs) -> value or
        NotImplemented; may raise Raised.
        name_hook(name) -> value or NotImplemented for free names.
        attr_hook(obj, attr) -> value or NotImplemented."""
        self.call_hook = call_hook
        self.name_hook = name_hook
        self.attr_hook = attr_hook
        self.loop_bound = loop_bound
        self.trace = trace
        self.steps = 0

    # -- entry ----------------------------------------------------------------
    def call(self, fn, args):
        """Evaluate function AST `fn` with env `args` (dict). Returns the
        returned value (None on fall-through); Raised propagates."""
        env = dict(args)
        # defaults for missing parameters
        a = fn.args
        pos = a.posonlyargs + a.args
        for p, d in zip(pos[len(pos) - len(a.defaults) :], a.defaults):
            if p.arg not in env:
                env[p.arg] = self.expr(d, {})
        for p, d in zip(a.kwonlyargs, a.kw_defaults):
            if p.arg not in env and d is not None:
                env[p.arg] = self.expr(d, {})
        for p in pos + a.kwonlyargs:
            if p.arg not in env:
                raise Unsupported(f"{fn.name}: no abstract value for parameter {p.arg}")
        try:
            self.block(fn.body, env)
        except _Return as r:
            return r.value
        return None

    # -- statements -------------------------------------------------------------
    def block(self, stmts, env):
        for s in stmts:
            self.stmt(s, env)

    def stmt(self, s, env):
        self.steps += 1
        if self.steps > 200000:
            raise Unsupported("evaluation step budget exceeded")
        if isinstance(s, ast.Expr):
            if isinstance(s.value, ast.Constant):
                return
            self.expr(s.value, env)
        elif isinstance(s, ast.Assign):
            v = self.expr(s.value, env)
            for t in s.targets:
                self.assign(t, v, env)
        elif isinstance(s, (ast.Import, ast.ImportFrom)):
            return  # imported names are resolved by the name hook (or are free names when used)
        elif isinstance(s, ast.AnnAssign):
            if s.value is not None:
                self.assign(s.target, self.expr(s.value, env), env)
        elif isinstance(s, ast.AugAssign):
            cur = self.expr(_load(s.target), env)
            rhs = self.expr(s.value, env)
            self.assign(s.target, self.binop(s.op, cur, rhs, s), env)
        elif isinstance(s, ast.If):
            if self.truth(self.expr(s.test, env), s.test):
                self.block(s.body, env)
            else:
                self.block(s.orelse, env)
        elif isinstance(s, ast.For):
            it = self.expr(s.iter, env)
            if isinstance(it, dict):
                it = list(it.keys())
            if isinstance(it, Opaque):
                raise Unsupported(f"for over opaque value at line {s.lineno}")
            broke = False
            for x in list(it):
                self.assign(s.target, x, env)
                try:
                    self.block(s.body, env)
                except _Break:
                    broke = True
                    break
                except _Continue:
                    continue
            if not broke:
                self.block(s.orelse, env)
        elif isinstance(s, ast.While):
            n = 0
            broke = False
            while self.truth(self.expr(s.test, env), s.test):
                n += 1
                if n > self.loop_bound:
                    raise Unsupported(f"while loop exceeded bound at line {s.lineno}")
                try:
                    self.block(s.body, env)
                except _Break:
                    broke = True
                    break
                except _Continue:
                    continue
            if not broke:
                self.block(s.orelse, env)
        elif isinstance(s, ast.Return):
            raise _Return(self.expr(s.value, env) if s.value is not None else None)
        elif isinstance(s, ast.Raise):
            if s.exc is None:
                cur = env.get("__exc__")
                if cur is None:
                    raise Unsupported("bare raise outside handler")
                raise cur
            name, args = self.exc_of(s.exc, env)
            raise Raised(name, args, s)
        elif isinstance(s, ast.Pass):
            return
        elif isinstance(s, ast.Break):
            raise _Break()
        elif isinstance(s, ast.Continue):
            raise _Continue()
        elif isinstance(s, ast.Assert):
            if not self.truth(self.expr(s.test, env), s.test):
                raise Raised("AssertionError", (), s)
        elif isinstance(s, ast.Try):
            self.try_(s, env)
        elif isinstance(s, ast.Delete):
            for t in s.targets:
                if isinstance(t, ast.Subscript):
                    c = self.expr(t.value, env)
                    k = self.expr(t.slice, env)
                    try:
                        del c[k]
                    except KeyError:
                        raise Raised("KeyError", (k,), s)
                elif isinstance(t, ast.Name):
                    env.pop(t.id, None)
                else:
                    raise Unsupported(f"del target {norm(t)}")
        elif isinstance(s, (ast.Import, ast.ImportFrom, ast.Global, ast.Nonlocal)):
            return
        elif isinstance(s, ast.With):
            # context managers are opaque: evaluate items through the call hook, run the body
            for item in s.items:
                v = self.expr(item.context_expr, env)
                if item.optional_vars is not None:
                    self.assign(item.optional_vars, v, env)
            self.block(s.body, env)
        else:
            raise Unsupported(f"statement {type(s).__name__} at line {getattr(s,'lineno',0)}: {norm(s)[:80]}")

    def try_(self, s, env):
        try:
            try:
                self.block(s.body, env)
            except Raised as r:
                for h in s.handlers:
                    if self.handler_matches(h, r):
                        if h.name:
                            env[h.name] = r
                        old = env.get("__exc__")
                        env["__exc__"] = r
                        try:
                            self.block(h.body, env)
                        finally:
                            env["__exc__"] = old
                        break
                else:
                    raise
            else:
                self.block(s.orelse, env)
        finally:
            if s.finalbody:
                self.block(s.finalbody, env)

    #: exception class name -> names of its bases, supplied by the caller when
    #: handlers catch base classes
    exc_parents = {}

    def handler_matches(self, h, r):
        if h.type is None:
            return True
        ts = h.type.elts if isinstance(h.type, ast.Tuple) else [h.type]
        names = {(dotted(t) or norm(t)).split(".")[-1] for t in ts}
        if names & {"Exception", "BaseException"}:
            return True
        cur = r.name.split(".")[-1]
        seen = set()
        stack = [cur]
        while stack:
            c = stack.pop()
            if c in seen:
                continue
            seen.add(c)
            if c in names:
                return True
            stack.extend(self.exc_parents.get(c, ()))
        return False

    def exc_of(self, node, env):
        if isinstance(node, ast.Call):
            name = dotted(node.func) or norm(node.func)
            args = []
            for a in node.args:
                try:
                    args.append(self.expr(a, env))
                except AnalysisError:
                    args.append(Opaque(norm(a)))
            return name, tuple(args)
        if isinstance(node, ast.Name) and isinstance(env.get(node.id), Raised):
            r = env[node.id]
            return r.name, r.args_
        return dotted(node) or norm(node), ()

    # -- assignment -------------------------------------------------------------
    def assign(self, t, v, env):
        if isinstance(t, ast.Name):
            env[t.id] = v
        elif isinstance(t, (ast.Tuple, ast.List)):
            vals = list(v)
            if len(vals) != len(t.elts):
                raise Raised("ValueError", ("unpack",), t)
            for e, x in zip(t.elts, vals):
                self.assign(e, x, env)
        elif isinstance(t, ast.Attribute):
            o = self.expr(t.value, env)
            if isinstance(o, Obj):
                o.set(t.attr, v)
            else:
                raise Unsupported(f"attribute store on non-tracked object: {norm(t)}")
        elif isinstance(t, ast.Subscript):
            c = self.expr(t.value, env)
            k = self.expr(t.slice, env)
            c[k] = v
        elif isinstance(t, ast.Starred):
            raise Unsupported("starred assignment")
        else:
            raise Unsupported(f"assignment target {norm(t)}")

    # -- expressions --------------------------------------------------------------
    def truth(self, v, node):
        if isinstance(v, Opaque):
            raise Unsupported(f"branch on opaque value {v.label} in `{norm(node)[:80]}`")
        return bool(v)

    def expr(self, e, env):
        m = getattr(self, "e_" + type(e).__name__, None)
        if m is None:
            raise Unsupported(f"expression {type(e).__name__}: {norm(e)[:80]}")
        return m(e, env)

    def e_Constant(self, e, env):
        return e.value

    def e_Name(self, e, env):
        if e.id in env:
            return env[e.id]
        if self.name_hook is not None:
            v = self.name_hook(e.id)
            if v is not NotImplemented:
                return v
        if e.id in ("True", "False", "None"):
            return {"True": True, "False": False, "None": None}[e.id]
        if e.id in _BUILTINS:
            return _BUILTINS[e.id]
        raise Unsupported(f"free name {e.id}")

    def e_Tuple(self, e, env):
        return tuple(self.expr(x, env) for x in e.elts)

    def e_List(self, e, env):
        return [self.expr(x, env) for x in e.elts]

    def e_Set(self, e, env):
        return {self.expr(x, env) for x in e.elts}

    def e_Dict(self, e, env):
        return {self.expr(k, env): self.expr(v, env) for k, v in zip(e.keys, e.values)}

    def e_JoinedStr(self, e, env):
        return Opaque("fstring")

    def e_IfExp(self, e, env):
        return self.expr(e.body, env) if self.truth(self.expr(e.test, env), e.test) else self.expr(e.orelse, env)

    def e_BoolOp(self, e, env):
        if isinstance(e.op, ast.And):
            v = True
            for x in e.values:
                v = self.expr(x, env)
                if not self.truth(v, x):
                    return v
            return v
        v = False
        for x in e.values:
            v = self.expr(x, env)
            if self.truth(v, x):
                return v
        return v

    def e_UnaryOp(self, e, env):
        v = self.expr(e.operand, env)
        if isinstance(e.op, ast.Not):
            return not self.truth(v, e.operand)
        if isinstance(e.op, ast.USub):
            return -v
        raise Unsupported(f"unary {norm(e)}")

    def binop(self, op, a, b, node):
        if isinstance(a, Opaque) or isinstance(b, Opaque):
            return Opaque(norm(node)[:40])
        try:
            if isinstance(op, ast.Add):
                return a + b
            if isinstance(op, ast.Sub):
                return a - b
            if isinstance(op, ast.BitOr):
                return a | b
            if isinstance(op, ast.BitAnd):
                return a & b
            if isinstance(op, ast.BitXor):
                return a ^ b
            if isinstance(op, ast.Mult):
                return a * b
            if isinstance(op, ast.Mod):
                if isinstance(a, (str, bytes)):
                    try:
                        return a % b
                    except Exception:
                        return Opaque("format")
                return a % b
        except TypeError as ex:
            raise Unsupported(f"binop type error in {norm(node)[:60]}: {ex}")
        raise Unsupported(f"binop {type(op).__name__}")

    def e_BinOp(self, e, env):
        return self.binop(e.op, self.expr(e.left, env), self.expr(e.right, env), e)

    def e_Compare(self, e, env):
        left = self.expr(e.left, env)
        for op, rn in zip(e.ops, e.comparators):
            right = self.expr(rn, env)
            if isinstance(left, Opaque) or isinstance(right, Opaque):
                if isinstance(op, (ast.Is, ast.IsNot)) and (left is None or right is None):
                    r = isinstance(op, ast.IsNot)
                else:
                    raise Unsupported(f"comparison on opaque value: {norm(e)[:80]}")
            elif isinstance(op, ast.Eq):
                r = left == right
            elif isinstance(op, ast.NotEq):
                r = left != right
            elif isinstance(op, ast.In):
                r = left in right
            elif isinstance(op, ast.NotIn):
                r = left not in right
            elif isinstance(op, ast.Is):
                r = left is right or (_scalar(left) and _scalar(right) and left == right and type(left) is type(right))
            elif isinstance(op, ast.IsNot):
                r = not (left is right or (_scalar(left) and _scalar(right) and left == right and type(left) is type(right)))
            elif isinstance(op, ast.Lt):
                r = left < right
            elif isinstance(op, ast.LtE):
                r = left <= right
            elif isinstance(op, ast.Gt):
                r = left > right
            elif isinstance(op, ast.GtE):
                r = left >= right
            else:
                raise Unsupported(f"compare op {type(op).__name__}")
            if not r:
                return False
            left = right
        return True

    def _comp(self, gens, env, emit):
        def rec(i, env2):
            if i == len(gens):
                emit(env2)
                return
            g = gens[i]
            it = self.expr(g.iter, env2)
            if isinstance(it, dict):
                it = list(it.keys())
            for x in list(it):
                env3 = dict(env2)
                self.assign(g.target, x, env3)
                if all(self.truth(self.expr(c, env3), c) for c in g.ifs):
                    rec(i + 1, env3)

        rec(0, dict(env))

    def e_ListComp(self, e, env):
        out = []
        self._comp(e.generators, env, lambda en: out.append(self.expr(e.elt, en)))
        return out

    def e_GeneratorExp(self, e, env):
        return self.e_ListComp(e, env)

    def e_SetComp(self, e, env):
        out = set()
        self._comp(e.generators, env, lambda en: out.add(self.expr(e.elt, en)))
        return out

    def e_DictComp(self, e, env):
        out = {}

        def emit(en):
            out[self.expr(e.key, en)] = self.expr(e.value, en)

        self._comp(e.generators, env, emit)
        return out

    def e_Subscript(self, e, env):
        c = self.expr(e.value, env)
        if isinstance(e.slice, ast.Slice):
            lo = self.expr(e.slice.lower, env) if e.slice.lower else None
            hi = self.expr(e.slice.upper, env) if e.slice.upper else None
            st = self.expr(e.slice.step, env) if e.slice.step else None
            return c[lo:hi:st]
        k = self.expr(e.slice, env)
        if isinstance(c, Opaque):
            return Opaque(norm(e)[:40])
        try:
            return c[k]
        except KeyError:
            raise Raised("KeyError", (k,), e)
        except IndexError:
            raise Raised("IndexError", (k,), e)

    def e_Attribute(self, e, env):
        o = self.expr(e.value, env)
        if isinstance(o, Obj):
            if o.has(e.attr):
                return o.get(e.attr)
            if self.attr_hook is not None:
                v = self.attr_hook(o, e.attr)
                if v is not NotImplemented:
                    return v
            raise Unsupported(f"untracked attribute {o._name}.{e.attr}")
        if self.attr_hook is not None:
            v = self.attr_hook(o, e.attr)
            if v is not NotImplemented:
                return v
        if isinstance(o, Raised) and e.attr in ("args",):
            return o.args_
        raise Unsupported(f"attribute load {norm(e)[:60]}")

    def e_Call(self, e, env):
        name = dotted(e.func)
        # evaluate args lazily only after hook decided? hooks usually want values
        def ev_args():
            args = []
            for a in e.args:
                if isinstance(a, ast.Starred):
                    args.extend(self.expr(a.value, env))
                else:
                    args.append(self.expr(a, env))
            kwargs = {k.arg: self.expr(k.value, env) for k in e.keywords if k.arg}
            return args, kwargs

        if self.call_hook is not None:
            v = self.call_hook(self, e, name, ev_args, env)
            if v is not NotImplemented:
                return v
        if isinstance(e.func, ast.Name):
            f = self.e_Name(e.func, env)
            if f in _BUILTINS.values():
                args, kwargs = ev_args()
                if any(isinstance(a, Opaque) for a in args):
                    return Opaque(norm(e)[:40])
                return f(*args, **kwargs)
            raise Unsupported(f"call to {name}")
        if isinstance(e.func, ast.Attribute):
            recv = self.expr(e.func.value, env)
            meth = e.func.attr
            for ty, allowed in _SAFE_METHODS.items():
                if type(recv) is ty and meth in allowed:
                    args, kwargs = ev_args()
                    try:
                        return getattr(recv, meth)(*args, **kwargs)
                    except KeyError as ex:
                        raise Raised("KeyError", ex.args, e)
                    except IndexError as ex:
                        raise Raised("IndexError", ex.args, e)
                    except ValueError as ex:
                        raise Raised("ValueError", ex.args, e)
            raise Unsupported(f"method call {norm(e)[:70]} on {type(recv).__name__}")
        raise Unsupported(f"call {norm(e)[:70]}")

    def e_Lambda(self, e, env):
        raise Unsupported("lambda")

    def e_NamedExpr(self, e, env):
        v = self.expr(e.value, env)
        self.assign(e.target, v, env)
        return v


def _scalar(v):
    return v is None or isinstance(v, (bool, int, str, bytes))


def _load(t):
    """Copy of an assignment target with Load context (for AugAssign)."""
    t2 = ast.parse(norm(t), mode="eval").body
    return t2


def set_partitions(n):
    """All set partitions of range(n) as restricted-growth strings."""

    def rec(prefix, mx):
        if len(prefix) == n:
            yield tuple(prefix)
            return
        for v in range(mx + 2):
            yield from rec(prefix + [v], max(mx, v))

    if n == 0:
        yield ()
        return
    yield from rec([0], 0)
