"""E2 — statement-level control-flow graph with exception edges.

Nodes are simple statements, the header expression of compound statements
(`if`/`while` tests, `for` iteration, `with` enter/exit, `except` clause
entries) and four synthetic nodes: entry, exit (normal return / fall-through),
raise_exit (exception propagates out of the function) and, per `with`, a
with-exit node.  `finally` blocks and `with` exits are *copied once per
continuation kind* (normal / exception / return / break / continue) so that a
path query never mixes continuations.

Exception edges (label 'X'):
  * a `raise` statement always has one;
  * every statement lexically inside a `try` body or a `with` body that is not
    trivially safe has one to each handler (and outwards unless a handler
    catches Exception/BaseException/everything);
  * outside any try/with, only statements for which the caller-supplied
    `fallible(stmt)` predicate is true.
This is the fault model written down in DESIGN.md section 9.

Queries are plain reachability with node / edge removal, which is all the rule
kinds K1–K3 need:
  K1  "A before B"            : B unreachable from entry once A-nodes are removed
  K2  "B only under guard g"  : B unreachable from entry in cfg.assume({g: False})
  K3  "after A every exit passes R": no exit reachable from A once R-nodes are removed
"""

import ast

from .astutil import calls_in, call_attr, dotted, call_name, handler_is_catch_all, norm, short, walk_own
from .index import AnalysisError


class Node:
    __slots__ = ("id", "kind", "ast", "label", "lineno", "extra")

    def __init__(self, id, kind, astnode=None, label="", extra=None):
        self.id = id
        self.kind = kind  # entry exit raise_exit stmt test for with_enter with_exit handler
        self.ast = astnode
        self.label = label
        self.lineno = getattr(astnode, "lineno", 0)
        self.extra = extra

    def expr(self):
        """The part of the AST evaluated *at this node* (header only for
        compound statements)."""
        a = self.ast
        if a is None:
            return None
        if self.kind == "test":
            return a  # already the test expression
        if self.kind == "for":
            return a.iter
        if self.kind in ("with_enter", "with_exit"):
            return a.context_expr
        if self.kind == "handler":
            return a.type
        return a

    def calls(self):
        e = self.expr()
        if e is None or self.kind == "with_exit" or isinstance(e, (ast.FunctionDef, ast.AsyncFunctionDef, ast.ClassDef)):
            return []  # a nested def is a definition, not an execution of its body
        return calls_in(e)

    def text(self):
        e = self.expr()
        pre = {"test": "test ", "for": "for-iter ", "with_enter": "with ", "with_exit": "end-with ", "handler": "except "}.get(self.kind, "")
        if e is None:
            return pre + self.kind if not pre else pre.strip()
        return pre + short(e, 90)

    def __repr__(self):
        return f"<{self.id}:{self.kind}:{self.text()}@{self.lineno}>"


class CFG:
    def __init__(self, name=""):
        self.name = name
        self.nodes = []
        self.succ = {}  # id -> list[(id, label)]
        self.entry = self._new("entry").id
        self.exit = self._new("exit").id
        self.raise_exit = self._new("raise_exit").id
        self._removed_edges = set()

    def _new(self, kind, astnode=None, label="", extra=None):
        if extra is None:
            extra = tuple(getattr(self, "_cur_loops", ()))
        n = Node(len(self.nodes), kind, astnode, label, extra)
        self.nodes.append(n)
        self.succ[n.id] = []
        return n

    def _edge(self, a, b, label=""):
        if (b, label) not in self.succ[a]:
            self.succ[a].append((b, label))

    # -- views ------------------------------------------------------------
    def edges(self, n):
        return [(b, l) for (b, l) in self.succ[n] if (n, b, l) not in self._removed_edges]

    def copy_without(self, edges):
        c = CFG.__new__(CFG)
        c.name = self.name
        c.nodes = self.nodes
        c.succ = self.succ
        c.entry, c.exit, c.raise_exit = self.entry, self.exit, self.raise_exit
        c._removed_edges = set(self._removed_edges) | set(edges)
        return c

    def assume(self, env):
        """Prune test edges contradicted by `env` (normalised expr text ->
        bool).  Three-valued: unknown tests keep both edges."""
        cut = set()
        for n in self.nodes:
            if n.kind != "test":
                continue
            v = eval3(n.ast, env)
            if v is True:
                cut |= {(n.id, b, l) for (b, l) in self.succ[n.id] if l == "F"}
            elif v is False:
                cut |= {(n.id, b, l) for (b, l) in self.succ[n.id] if l == "T"}
        return self.copy_without(cut)

    def without_exc_edges(self):
        cut = {(a, b, l) for a in self.succ for (b, l) in self.succ[a] if l == "X"}
        return self.copy_without(cut)

    # -- queries ----------------------------------------------------------
    def find(self, pred, kinds=None):
        out = []
        for n in self.nodes:
            if kinds and n.kind not in kinds:
                continue
            try:
                ok = pred(n)
            except Exception:
                ok = False
            if ok:
                out.append(n.id)
        return out

    def find_calls(self, attr=None, name=None, recv=None, pred=None):
        """Node ids whose own expression contains a matching call."""
        out = []
        for n in self.nodes:
            for c in n.calls():
                if attr is not None and call_attr(c) not in ((attr,) if isinstance(attr, str) else attr):
                    continue
                if name is not None and call_name(c) not in ((name,) if isinstance(name, str) else name):
                    continue
                if recv is not None:
                    from .astutil import call_recv

                    if call_recv(c) not in ((recv,) if isinstance(recv, str) else recv):
                        continue
                if pred is not None and not pred(c):
                    continue
                out.append(n.id)
                break
        return out

    def reach(self, srcs, avoid=(), include_src=False, labels_excluded=()):
        """Nodes reachable from any of `srcs` by >=1 edge (or 0 if
        include_src) without entering nodes in `avoid`."""
        if isinstance(srcs, int):
            srcs = [srcs]
        avoid = set(avoid)
        seen = set()
        stack = []
        for s in srcs:
            if s in avoid:
                continue  # a start that is itself avoided is not a way through
            if include_src:
                seen.add(s)
            stack.append(s)
        visited_src = set()
        while stack:
            n = stack.pop()
            if n in visited_src:
                continue
            visited_src.add(n)
            for b, l in self.edges(n):
                if l in labels_excluded or b in avoid:
                    continue
                if b not in seen:
                    seen.add(b)
                stack.append(b)
        return seen

    def reachable_from_entry(self, avoid=()):
        return self.reach([self.entry], avoid=avoid, include_src=True)

    def path(self, srcs, dsts, avoid=()):
        """A witness path (list of node ids) from a src to a dst, or None."""
        if isinstance(srcs, int):
            srcs = [srcs]
        dsts = set([dsts] if isinstance(dsts, int) else dsts)
        avoid = set(avoid)
        from collections import deque

        prev = {}
        dq = deque()
        for s in srcs:
            prev[s] = None
            dq.append(s)
        while dq:
            n = dq.popleft()
            for b, l in self.edges(n):
                if b in avoid or b in prev:
                    continue
                prev[b] = n
                if b in dsts:
                    p = [b]
                    while prev[p[-1]] is not None:
                        p.append(prev[p[-1]])
                    return list(reversed(p))
                dq.append(b)
        return None

    def show_path(self, p):
        return " -> ".join(f"L{self.nodes[i].lineno}:{self.nodes[i].text()}" if self.nodes[i].ast is not None else self.nodes[i].kind for i in p)

    # K1
    def always_before(self, a_nodes, b_nodes):
        """Every path entry->b passes an a-node.  Returns (ok, witness)."""
        a_nodes = set(a_nodes)
        b_nodes = set(b_nodes) - a_nodes
        r = self.reach([self.entry], avoid=a_nodes, include_src=True)
        bad = sorted(b_nodes & r)
        if not bad:
            return True, None
        return False, self.path([self.entry], bad, avoid=a_nodes)

    # K3
    def always_after(self, a_nodes, r_nodes, exits=None):
        """After any a-node, every path to an exit passes an r-node."""
        if exits is None:
            exits = [self.exit, self.raise_exit]
        r_nodes = set(r_nodes)
        got = self.reach(list(a_nodes), avoid=r_nodes)
        bad = sorted(set(exits) & got)
        if not bad:
            return True, None
        return False, self.path(list(a_nodes), bad, avoid=r_nodes)

    def loops_of(self, nid):
        """Ids of the loop headers enclosing node nid (outermost first)."""
        e = self.nodes[nid].extra
        return e if isinstance(e, tuple) else ()

    def live_nodes(self):
        return self.reachable_from_entry()


# ---------------------------------------------------------------------------
# three-valued evaluation of branch tests under assumptions


def eval3(expr, env):
    """True / False / None(unknown).  env: normalised text -> bool, or
    text + ' is None' style keys are derived automatically from a None value
    (env value may be True, False or the string 'None'/'notNone')."""
    key = norm(expr)
    if key in env and isinstance(env[key], bool):
        return env[key]
    # an assumption stated about `not <expr>` decides <expr> as well (test nodes hold conditions without leading nots)
    for nk in ("not " + key, f"not ({key})"):
        if nk in env and isinstance(env[nk], bool):
            return not env[nk]
    if isinstance(expr, ast.Constant):
        return bool(expr.value)
    if isinstance(expr, ast.UnaryOp) and isinstance(expr.op, ast.Not):
        v = eval3(expr.operand, env)
        return None if v is None else (not v)
    if isinstance(expr, ast.BoolOp):
        vals = [eval3(v, env) for v in expr.values]
        if isinstance(expr.op, ast.And):
            if any(v is False for v in vals):
                return False
            if all(v is True for v in vals):
                return True
            return None
        else:
            if any(v is True for v in vals):
                return True
            if all(v is False for v in vals):
                return False
            return None
    if isinstance(expr, ast.Compare) and len(expr.ops) == 1:
        left, op, right = expr.left, expr.ops[0], expr.comparators[0]
        # the complementary comparison (a == b / a != b, in / not in, is / is not) known in env decides this one too
        _COMP = {ast.Eq: ast.NotEq, ast.NotEq: ast.Eq, ast.In: ast.NotIn, ast.NotIn: ast.In, ast.Is: ast.IsNot, ast.IsNot: ast.Is}
        if type(op) in _COMP:
            ck = norm(ast.Compare(left=left, ops=[_COMP[type(op)]()], comparators=[right]))
            if ck in env and isinstance(env[ck], bool):
                return not env[ck]
            if isinstance(op, (ast.Eq, ast.NotEq)):
                # symmetric operands
                sk = norm(ast.Compare(left=right, ops=[type(op)()], comparators=[left]))
                if sk in env and isinstance(env[sk], bool):
                    return env[sk]
                sck = norm(ast.Compare(left=right, ops=[_COMP[type(op)]()], comparators=[left]))
                if sck in env and isinstance(env[sck], bool):
                    return not env[sck]
        lk = norm(left)
        if isinstance(right, ast.Constant) and right.value is None and lk in env:
            v = env[lk]
            isnone = None
            if v == "None":
                isnone = True
            elif v == "notNone" or v is True:
                isnone = False
            elif v is False:
                isnone = None  # falsy is not necessarily None
            if isnone is not None:
                if isinstance(op, (ast.Is, ast.Eq)):
                    return isnone
                if isinstance(op, (ast.IsNot, ast.NotEq)):
                    return not isnone
    if key in env and env[key] == "None":
        return False
    if key in env and env[key] == "notNone":
        return None
    return None


# ---------------------------------------------------------------------------
# builder

_SAFE_STMTS = (ast.Pass, ast.Break, ast.Continue, ast.Global, ast.Nonlocal, ast.Import, ast.ImportFrom)


def _trivially_safe(stmt):
    if isinstance(stmt, _SAFE_STMTS):
        return True
    if isinstance(stmt, ast.Assign):
        # name = constant / name
        if all(isinstance(t, ast.Name) for t in stmt.targets) and isinstance(stmt.value, (ast.Constant, ast.Name)):
            return True
    if isinstance(stmt, ast.Expr) and isinstance(stmt.value, ast.Constant):
        return True
    if isinstance(stmt, ast.Return) and (stmt.value is None or isinstance(stmt.value, (ast.Constant, ast.Name))):
        return True
    return False


class _Ctx:
    __slots__ = ("on_exc", "on_return", "on_break", "on_continue", "guarded")

    def __init__(self, on_exc, on_return, on_break=None, on_continue=None, guarded=False):
        self.on_exc = on_exc
        self.on_return = on_return
        self.on_break = on_break
        self.on_continue = on_continue
        self.guarded = guarded

    def replace(self, **kw):
        c = _Ctx(self.on_exc, self.on_return, self.on_break, self.on_continue, self.guarded)
        for k, v in kw.items():
            setattr(c, k, v)
        return c


class Builder:
    def __init__(self, fn, fallible=None, with_is_scope=True, catch_all=("Exception", "BaseException")):
        self.fn = fn
        self.fallible = fallible or (lambda stmt: False)
        self.with_is_scope = with_is_scope
        self.catch_all = catch_all
        self.g = CFG(getattr(fn, "name", "<body>"))

    def build(self):
        g = self.g
        ctx = _Ctx(
            on_exc=lambda src, lab="X": g._edge(src, g.raise_exit, lab),
            on_return=lambda src: g._edge(src, g.exit, ""),
        )
        body = self.fn.body if hasattr(self.fn, "body") else self.fn
        dangling = self._block(body, [(g.entry, "")], ctx)
        for src, lab in dangling:
            g._edge(src, g.exit, lab)
        return g

    # dangling: list of (node id, edge label) waiting for their successor
    def _connect(self, dangling, target):
        for src, lab in dangling:
            self.g._edge(src, target, lab)

    def _may_raise(self, stmt, ctx):
        if isinstance(stmt, ast.Raise):
            return True
        if ctx.guarded and not _trivially_safe(stmt):
            return True
        return bool(self.fallible(stmt))

    def _block(self, stmts, dangling, ctx):
        for s in stmts:
            if not dangling:
                # unreachable code: still build it (detached) so that anchors
                # are found, but nothing flows into it
                pass
            dangling = self._stmt(s, dangling, ctx)
        return dangling

    def _simple(self, s, dangling, ctx, kind="stmt"):
        n = self.g._new(kind, s)
        self._connect(dangling, n.id)
        if self._may_raise(s, ctx):
            ctx.on_exc(n.id)
        return n

    def _stmt(self, s, dangling, ctx):
        g = self.g
        if isinstance(s, ast.Return):
            n = self._simple(s, dangling, ctx)
            ctx.on_return(n.id)
            return []
        if isinstance(s, ast.Raise):
            n = g._new("stmt", s)
            self._connect(dangling, n.id)
            ctx.on_exc(n.id)
            return []
        if isinstance(s, ast.Break):
            n = g._new("stmt", s)
            self._connect(dangling, n.id)
            if ctx.on_break is None:
                raise AnalysisError("break outside loop")
            ctx.on_break(n.id)
            return []
        if isinstance(s, ast.Continue):
            n = g._new("stmt", s)
            self._connect(dangling, n.id)
            if ctx.on_continue is None:
                raise AnalysisError("continue outside loop")
            ctx.on_continue(n.id)
            return []
        if isinstance(s, ast.If):
            # a test node holds the condition without leading `not`s; its T / F edges say whether *that* condition is
            # true or false (so `if not c: A` has A on the F edge of the node for c): rules never have to know which
            # way round a guard was written
            cond, tl, fl = _strip_not(s.test)
            t = g._new("test", cond)
            self._connect(dangling, t.id)
            if ctx.guarded or self.fallible(ast.Expr(value=s.test)):
                if calls_in(s.test):
                    ctx.on_exc(t.id)
            cv = _const_truth(s.test)
            out = []
            if cv is not False:
                out += self._block(s.body, [(t.id, tl)], ctx)
            if cv is not True:
                if s.orelse:
                    out += self._block(s.orelse, [(t.id, fl)], ctx)
                else:
                    out.append((t.id, fl))
            return out
        if isinstance(s, ast.While):
            cond, tl, fl = _strip_not(s.test)
            t = g._new("test", cond)
            self._connect(dangling, t.id)
            if ctx.guarded and calls_in(s.test):
                ctx.on_exc(t.id)
            after = []
            lctx = ctx.replace(on_break=lambda src: after.append((src, "")), on_continue=lambda src: g._edge(src, t.id, ""))
            cv = _const_truth(s.test)
            g._cur_loops = tuple(getattr(g, "_cur_loops", ())) + (t.id,)
            body_out = self._block(s.body, [(t.id, tl)], lctx) if cv is not False else []
            g._cur_loops = g._cur_loops[:-1]
            self._connect(body_out, t.id)
            if cv is not True:
                if s.orelse:
                    after += self._block(s.orelse, [(t.id, fl)], ctx)
                else:
                    after.append((t.id, fl))
            return after
        if isinstance(s, (ast.For, ast.AsyncFor)):
            h = g._new("for", s)
            self._connect(dangling, h.id)
            if ctx.guarded and calls_in(s.iter):
                ctx.on_exc(h.id)
            after = []
            lctx = ctx.replace(on_break=lambda src: after.append((src, "")), on_continue=lambda src: g._edge(src, h.id, ""))
            g._cur_loops = tuple(getattr(g, "_cur_loops", ())) + (h.id,)
            first = [(h.id, "T")]
            if isinstance(s.iter, (ast.Tuple, ast.List)) and s.iter.elts and not any(isinstance(e, ast.Starred) for e in s.iter.elts):
                # literal non-empty sequence: the body runs at least once, so
                # the first visit of the header has no 'exhausted' edge
                h0 = g._new("for", s, label="first")
                for src, lab in list(dangling):
                    g.succ[src] = [(b if b != h.id or l != lab else h0.id, l) for (b, l) in g.succ[src]]
                first = [(h0.id, "T")]
            body_out = self._block(s.body, first, lctx)
            g._cur_loops = g._cur_loops[:-1]
            self._connect(body_out, h.id)
            if first[0][0] != h.id:
                # h is reached only by loop-back edges; give it its own body edge
                body_entry = [b for (b, l) in g.succ[first[0][0]] if l == "T"]
                for b in body_entry:
                    g._edge(h.id, b, "T")
            if s.orelse:
                after += self._block(s.orelse, [(h.id, "F")], ctx)
            else:
                after.append((h.id, "F"))
            return after
        if isinstance(s, (ast.With, ast.AsyncWith)):
            return self._with(s, 0, dangling, ctx)
        if isinstance(s, ast.Try) or s.__class__.__name__ == "TryStar":
            return self._try(s, dangling, ctx)
        if s.__class__.__name__ == "Match":
            raise AnalysisError(f"unsupported statement 'match' at line {s.lineno}")
        # simple statement (Assign, Expr, AugAssign, Assert, Delete, defs, ...)
        n = self._simple(s, dangling, ctx)
        return [(n.id, "")]

    # -- with ---------------------------------------------------------------
    def _with(self, s, idx, dangling, ctx):
        g = self.g
        if idx >= len(s.items):
            return self._block(s.body, dangling, ctx)
        item = s.items[idx]
        enter = g._new("with_enter", item)
        self._connect(dangling, enter.id)
        if self._may_raise(ast.Expr(value=item.context_expr), ctx):
            ctx.on_exc(enter.id)
        copies = {}

        def exit_copy(kind, cont):
            """with-exit node for continuation `kind`; `cont(node_id)` wires
            its successor.  Built once per kind."""
            if kind not in copies:
                x = g._new("with_exit", item, label=kind)
                copies[kind] = x.id
                cont(x.id)
            return copies[kind]

        inner = _Ctx(
            on_exc=lambda src, lab="X": g._edge(src, exit_copy("exc", lambda x: ctx.on_exc(x)), lab),
            on_return=lambda src: g._edge(src, exit_copy("return", lambda x: ctx.on_return(x)), ""),
            on_break=(lambda src: g._edge(src, exit_copy("break", lambda x: ctx.on_break(x)), "")) if ctx.on_break else None,
            on_continue=(lambda src: g._edge(src, exit_copy("continue", lambda x: ctx.on_continue(x)), "")) if ctx.on_continue else None,
            guarded=ctx.guarded or self.with_is_scope,
        )
        out = self._with(s, idx + 1, [(enter.id, "")], inner)
        after = []
        if out:
            x = g._new("with_exit", item, label="normal")
            self._connect(out, x.id)
            after.append((x.id, ""))
        # contextlib.suppress(...) swallows the listed exceptions: execution also continues after the with
        ce = item.context_expr
        if isinstance(ce, ast.Call) and (dotted(ce.func) or "").split(".")[-1] == "suppress" and "exc" in copies:
            after.append((copies["exc"], "S"))
        return after

    # -- try ----------------------------------------------------------------
    def _try(self, s, dangling, ctx):
        g = self.g
        has_finally = bool(s.finalbody)
        fin_copies = {}

        def finally_copy(kind, cont):
            """Entry node id of the finally-copy for continuation `kind`."""
            if kind not in fin_copies:
                marker = g._new("stmt", ast.Pass(lineno=s.finalbody[0].lineno, col_offset=0), label="finally:" + kind)
                fin_copies[kind] = marker.id
                out = self._block(s.finalbody, [(marker.id, "")], ctx)
                for src, lab in out:
                    cont(src, lab)
            return fin_copies[kind]

        if has_finally:
            octx = _Ctx(
                on_exc=lambda src, lab="X": g._edge(src, finally_copy("exc", lambda a, l: ctx.on_exc(a)), lab),
                on_return=lambda src: g._edge(src, finally_copy("return", lambda a, l: ctx.on_return(a)), ""),
                on_break=(lambda src: g._edge(src, finally_copy("break", lambda a, l: ctx.on_break(a)), "")) if ctx.on_break else None,
                on_continue=(lambda src: g._edge(src, finally_copy("continue", lambda a, l: ctx.on_continue(a)), "")) if ctx.on_continue else None,
                guarded=ctx.guarded,
            )
        else:
            octx = ctx

        handler_entries = []
        for h in s.handlers:
            hn = g._new("handler", h)
            handler_entries.append((h, hn.id))
        caught_all = any(handler_is_catch_all(h, self.catch_all) for h in s.handlers)

        def body_exc(src, lab="X"):
            for h, hid in handler_entries:
                g._edge(src, hid, lab)
            if not caught_all:
                octx.on_exc(src, lab)

        bctx = octx.replace(on_exc=body_exc, guarded=True)
        out = self._block(s.body, dangling, bctx)
        if s.orelse:
            out = self._block(s.orelse, out, octx)
        for h, hid in handler_entries:
            out += self._block(h.body, [(hid, "")], octx)
        if has_finally:
            if out:
                results = []
                entry = finally_copy("normal", lambda a, l: results.append((a, l)))
                self._connect(out, entry)
                return results
            return []
        return out


def _strip_not(test):
    """(condition without leading nots, label of the edge taken when the *statement's* test is true, label when false)."""
    tl, fl = "T", "F"
    while isinstance(test, ast.UnaryOp) and isinstance(test.op, ast.Not):
        test = test.operand
        tl, fl = fl, tl
    return test, tl, fl


def _const_truth(expr):
    if isinstance(expr, ast.Constant):
        return bool(expr.value)
    return None


def build_cfg(fn, fallible=None, with_is_scope=True):
    return Builder(fn, fallible=fallible, with_is_scope=with_is_scope).build()


# convenience predicates ------------------------------------------------------


def node_calls(g, nid):
    return g.nodes[nid].calls()


def contains_call(attr=None, name=None):
    def pred(n):
        for c in n.calls():
            if attr is not None and call_attr(c) == attr:
                return True
            if name is not None and call_name(c) == name:
                return True
        return False

    return pred


def assigns_to(target_text):
    """Node predicate: simple statement assigning to the dotted target."""
    from .astutil import dotted

    def pred(n):
        a = n.ast
        if n.kind != "stmt":
            return False
        ts = []
        if isinstance(a, ast.Assign):
            ts = a.targets
        elif isinstance(a, (ast.AugAssign, ast.AnnAssign)):
            ts = [a.target]
        for t in ts:
            for m in ast.walk(t):
                if isinstance(m, (ast.Name, ast.Attribute)) and dotted(m) == target_text and isinstance(m.ctx, ast.Store):
                    return True
        return False

    return pred
