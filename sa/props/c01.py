"""C01 — commit: a raising commit changes nothing; selection is honoured (structural clauses)."""

import ast

from ..astutil import call_attr, call_recv, calls_in, norm, param_names, walk_own
from ..cfg import assigns_to, build_cfg
from ..rules import calling, fn_cfg, k1_before, k1_never_after, k2_unreachable, need
from ..index import AnalysisError
from ..selftest import Mutant

ID = "C01"
TECHNIQUE = "CFG ordering (K1), two-layer abort pairing on exception edges (K3), who-may-call for tip writes (K4) and None-vs-empty selection guard (K2) in breezy/commit.py (ast)"
FLOOR = 13
CM = "breezy/commit.py"
RP = "breezy/repository.py"
PR = "breezy/bzr/pack_repo.py"
EXPLANATION = """
Decides the fault clause ("a commit that raises leaves the branch tip and the visible revisions unchanged") and the
selection guard, in breezy/commit.py:Commit:
R1 (K4+K1) the only calls that move a branch tip inside Commit (set_last_revision_info,
   import_last_revision_info_and_tags) are in _update_branches; its single call site in commit() is dominated by
   `self.builder.commit(...)` and is not covered by the pipeline's abort handler.
R2 (K3, two-layer) from the creation of the commit builder to the end of the pipeline try, every exception edge is
   covered by (layer 1) a handler catching at least Exception that calls self.builder.abort() and re-raises, or
   (layer 2) the tree/branch/repository write lock taken through the ExitStack of the same function, whose release
   aborts a live write group (C06-R4, re-checked here). A violation needs both layers missing; a missing layer 1 alone
   is reported as information.
R3 (K1) work_tree.unversion / update_basis_by_delta come after _update_branches.
R4 (K1) _check_bound_branch and _check_out_of_date_tree dominate get_commit_builder (nothing is written before the
   out-of-date checks).
R5 (K1) hooks that may veto (pre_commit) run before any tip is moved; no tip-moving call precedes _process_pre_hooks
   (when the builder itself already moved the tip, the handler moves it back).
R6 (K2) the empty selection is kept distinct from "no selection": specific_files becomes None only through an identity
   test against None on the caller's value (never by truthiness), in commit() or the helper it delegates to.
Added while testing against seeded changes: R6b the selection and the exclusion are
sorted(minimum_path_selection(...)) of what the caller passed and nothing else (no filtering of excludes/selected
paths).
R7 (K1) publication last: RepositoryPackCollection._commit_write_group never runs autopack() after _save_pack_names();
   VersionedFileCommitBuilder.commit signs before _add_revision. R8 (K1) ContentFilterAwareSHA1Provider.sha1 /
   stat_and_sha1 hash the file on every normal path (no memo). Both added from third-round seeds.
R9 (fourth round) the selection filter of breezy/git/tree.py:changes_from_git_changes is evaluated as a table (5 selections incl. None and []
   x old/new paths incl. absent): a change is dropped exactly when a selection is given and neither path is selected.
Does not decide: that the recorded tree equals basis+selection for every tree shape and path selection
(record_iter_changes / _filter_iter_changes are data dependent).
"""
TIP_WRITES = {"set_last_revision_info", "import_last_revision_info_and_tags", "generate_revision_history", "_set_revision_history", "set_revision_history"}


def run(ctx):
    repo = ctx.repo
    cls = repo.cls(CM, "Commit")
    # ---- R1 -----------------------------------------------------------------
    writers = {}
    for item in cls.body:
        if isinstance(item, ast.FunctionDef):
            for c in calls_in(item):
                if call_attr(c) in TIP_WRITES:
                    writers.setdefault(item.name, []).append(norm(c)[:70])
    ctx.check("R1-tip-writers", f"{CM}:Commit", set(writers) == {"_update_branches"}, "branch tips are moved only in Commit._update_branches", construct=str(sorted(writers)), message=f"a branch tip is moved outside _update_branches: {sorted(set(writers) - {'_update_branches'})}")
    fn, g, where = fn_cfg(ctx, CM, "Commit.commit")
    ub = need(where, calling(g, attr="_update_branches", recv="self"), "self._update_branches(...)")
    bc = need(where, calling(g, attr="commit", recv="self.builder"), "self.builder.commit(...)")
    ctx.check("R1-single-update-site", where, len(ub) == 1, "exactly one call to _update_branches")
    k1_before(ctx, "R1-tip-after-builder-commit", where, g, bc, ub, "the tip moves only after the revision was committed to the repository")
    handlers = [n.id for n in g.nodes if n.kind == "handler"]
    covered = [h for u in ub for (h, l) in g.succ[u] if l == "X" and g.nodes[h].kind == "handler"]
    ctx.check("R1-tip-outside-pipeline-try", where, not covered, "_update_branches is not inside the pipeline try (its failure must not abort an already committed write group)")

    # ---- R2 -----------------------------------------------------------------
    gb = need(where, calling(g, attr="get_commit_builder"), "get_commit_builder(...)")
    after_gb = g.reach(gb)
    pipeline = [n.id for n in g.nodes if n.kind in ("stmt", "test", "for", "with_enter") and n.id in after_gb and (n.id in bc or set(bc) & g.without_exc_edges().reach([n.id]))]
    abort_handlers = []
    for h in handlers:
        hn = g.nodes[h].ast
        from ..astutil import handler_is_catch_all

        ab = calling(g, attr="abort", recv="self.builder")
        gq = g.without_exc_edges()  # statements of the handler itself are not fault points
        ok_abort = bool(set(ab) & gq.reach([h])) and gq.always_after([h], ab)[0] and g.exit not in gq.reach([h])
        if handler_is_catch_all(hn) and ok_abort:
            abort_handlers.append(h)
    # layer 2: lock scope
    lock_ctx = [n.id for n in g.nodes if n.kind == "stmt" and any(call_attr(c) == "enter_context" and c.args and "lock_write" in norm(c.args[0]) and "work_tree" in norm(c.args[0]) for c in n.calls())]
    with_stack = [n.id for n in g.nodes if n.kind == "with_enter" and "ExitStack" in norm(n.ast.context_expr)]
    layer2 = bool(lock_ctx) and bool(with_stack) and g.always_before(lock_ctx, gb)[0] and _unlock_aborts(ctx)
    risky = [n for n in pipeline if any(l == "X" for (_, l) in g.succ[n])]
    uncovered = []
    for n in risky:
        targets = [b for (b, l) in g.succ[n] if l == "X"]
        if not any(t in abort_handlers for t in targets):
            uncovered.append(n)
    if uncovered:
        ctx.info("R2", where, f"layer 1 (explicit builder.abort handler) missing for {len(uncovered)} statement(s), e.g. L{g.nodes[uncovered[0]].lineno}: {g.nodes[uncovered[0]].text()[:60]}; layer 2 (lock scope + unlock abort) {'present' if layer2 else 'ABSENT'}")
    ctx.check("R2-abort-two-layer", where, not uncovered or layer2, f"every failure between builder creation and builder.commit is covered by an abort handler or by the write-lock scope ({len(risky)} fallible statements, {len(uncovered)} without explicit handler, lock-scope layer {'present' if layer2 else 'absent'})", construct=g.nodes[uncovered[0]].text() if uncovered else "", message="a failure in the commit pipeline neither reaches a builder.abort() handler nor happens under a write lock whose release aborts the write group: the half-written revision could become visible")
    ctx.check("R2-layer1-present", where, True, f"explicit abort handlers found: {len(abort_handlers)}")

    # ---- R3 -----------------------------------------------------------------
    tree_upd = need(where, calling(g, attr={"update_basis_by_delta", "unversion"}, recv="self.work_tree"), "work_tree.update_basis_by_delta/unversion")
    k1_before(ctx, "R3-tree-after-branch", where, g, ub, tree_upd, "the working tree is re-based only after the branch has the new revision")

    # ---- R4 -----------------------------------------------------------------
    cb = need(where, calling(g, attr="_check_bound_branch", recv="self"), "_check_bound_branch")
    co = need(where, calling(g, attr="_check_out_of_date_tree", recv="self"), "_check_out_of_date_tree")
    k1_before(ctx, "R4-checks-before-builder", where, g, cb, gb, "_check_bound_branch precedes get_commit_builder")
    k1_before(ctx, "R4-checks-before-builder", where, g, co, gb, "_check_out_of_date_tree precedes get_commit_builder")
    confl = [n.id for n in g.nodes if n.kind == "stmt" and isinstance(n.ast, ast.Raise) and "ConflictsInTree" in norm(n.ast)]
    ctx.check("R4-conflicts-refused", where, bool(confl) and not (set(confl) & g.reach(gb)), "a tree with conflicts is refused before the builder exists")

    # ---- R5 -----------------------------------------------------------------
    fn2, g2, where2 = fn_cfg(ctx, CM, "Commit._update_branches")
    tips = need(where2, calling(g2, attr=TIP_WRITES), "tip-moving calls")
    pre = need(where2, calling(g2, attr="_process_pre_hooks", recv="self"), "_process_pre_hooks")
    k1_never_after(ctx, "R5-veto-before-tip", where2, g2, tips, pre, "pre_commit hooks (which may veto the commit) never run after a branch tip was moved")
    g_nb = g2.assume({"self.builder.updates_branch": False})
    ok, w = g_nb.always_before(pre, tips)
    ctx.check("R5-veto-before-tip", where2, ok, "when the builder does not move the tip itself, pre_commit hooks run before any tip moves", witness=g2.show_path(w) if w else None)

    # ---- R6 -----------------------------------------------------------------
    sets = [s for s in walk_own(fn) if isinstance(s, ast.Assign) and any(norm(t) == "self.specific_files" for t in s.targets)]
    ctx.require(sets, f"{where}: self.specific_files is never assigned")
    target_fn, p = fn, "specific_files"
    for s in sets:
        if isinstance(s.value, ast.Call) and call_recv(s.value) in ("self", "") and any(norm(a) == "specific_files" for a in s.value.args):
            helper = repo.module(CM).get("Commit." + call_attr(s.value)) or repo.module(CM).get(call_attr(s.value))
            if helper is not None:
                idx = [norm(a) for a in s.value.args].index("specific_files")
                ps = [x for x in param_names(helper) if x != "self"]
                target_fn, p = helper, ps[idx]
    gh = build_cfg(target_fn)
    none_nodes = [n.id for n in gh.nodes if n.kind == "stmt" and ((isinstance(n.ast, ast.Return) and (n.ast.value is None or norm(n.ast.value) == "None")) or (isinstance(n.ast, ast.Assign) and norm(n.ast.value) == "None" and any(norm(t) == "self.specific_files" for t in n.ast.targets)))]
    if target_fn is not fn:
        # falling off the end of a helper also yields None
        none_nodes += [n.id for n in gh.nodes if n.kind != "exit" and any(b == gh.exit and not isinstance(n.ast, ast.Return) for (b, l) in gh.succ[n.id])]
    wh = f"{CM}:{'Commit.' + target_fn.name if target_fn is not fn else 'Commit.commit'}"
    g_nn = gh.assume({p: "notNone"})
    hit = sorted(set(none_nodes) & g_nn.reachable_from_entry())
    w = g_nn.path([gh.entry], hit) if hit else None
    ctx.check("R6-empty-selection-kept", wh, bool(none_nodes) and not hit, "specific_files turns into None (commit everything) only when the caller passed None — an empty list stays an empty selection", construct=gh.nodes[hit[0]].text() if hit else "", message="an empty specific_files list can turn into None: 'commit no files' becomes 'commit everything' (and the selected-file-merge refusal is bypassed)", witness=gh.show_path(w) if w else None)
    refusal = [n.id for n in g.nodes if n.kind == "stmt" and isinstance(n.ast, ast.Raise) and "CannotCommitSelectedFileMerge" in norm(n.ast)]
    # the selection and the exclusion reach iter_changes exactly as the caller gave them (minimal covering set only)
    for attr, param, empty in (("self.exclude", "exclude", "[]"), ("self.specific_files", "specific_files", "None")):
        vals = sorted({norm(s_.value) for q_, f_ in repo.module(CM).functions().items() if q_.startswith("Commit.") for s_ in walk_own(f_) if isinstance(s_, ast.Assign) and any(norm(t) == attr for t in s_.targets)})
        ctx.check("R6-selection-unnarrowed", wh, vals == sorted([f"sorted(minimum_path_selection({param}))", empty]), f"{attr} is sorted(minimum_path_selection({param})) or {empty}, and nothing else", construct=str(vals), message=f"{attr} is also assigned {[v for v in vals if v not in (f'sorted(minimum_path_selection({param}))', empty)]}: the caller's {'exclusions' if param == 'exclude' else 'selection'} are filtered before they reach the change iterator — an excluded path is committed (or a selected one is not) although the caller asked otherwise")
    ctx.check("R6-selected-merge-refused", where, len(refusal) >= 1 and not (set(refusal) & g.reach(gb)), "a selected-file commit of a merge is refused before the builder exists")


    # ---- R7: publication is the last fallible step of a commit -----------------------------------------------------------
    # (a) pack repositories: writing pack-names (_save_pack_names) makes the new revision visible; autopack — which can
    # fail — is attempted before it, never after (when autopack does pack it saves the names itself).
    VF = "breezy/bzr/vf_repository.py"
    W4 = "breezy/bzr/workingtree_4.py"
    fcw, gcw, wcw = fn_cfg(ctx, PR, "RepositoryPackCollection._commit_write_group")
    sv = need(wcw, calling(gcw, attr="_save_pack_names"), "self._save_pack_names()")
    ap = need(wcw, calling(gcw, attr="autopack"), "self.autopack()")
    k1_never_after(ctx, "R7-publish-last", wcw, gcw, sv, ap, "no autopack after the new pack was published in pack-names: a failing repack then fails the commit with the revision already visible")
    # (b) the commit builder signs before it adds the revision: formats without write-group isolation (knit) make the
    # revision visible on _add_revision, so a failing signature afterwards leaves a revision of a commit that raised
    fvc, gvc, wvc = fn_cfg(ctx, VF, "VersionedFileCommitBuilder.commit")
    helpers = {q.split(".")[-1] for q, f_ in repo.module(VF).functions().items() if q.startswith("VersionedFileCommitBuilder.") and any(call_attr(c) == "store_revision_signature" for c in calls_in(f_))}
    sg = [n.id for n in gvc.nodes if any(call_attr(c) == "store_revision_signature" or (call_recv(c) == "self" and call_attr(c) in helpers - {"commit"}) for c in n.calls())]
    ad = need(wvc, calling(gvc, attr="_add_revision"), "self.repository._add_revision(rev)")
    ctx.require(bool(sg), f"{wvc}: the signing step was not found")
    k1_never_after(ctx, "R7-publish-last", wvc, gvc, ad, sg, "the revision is signed before it is added: nothing that can fail for configuration reasons follows _add_revision")
    # ---- R8: the hash the dirstate compares with is always computed from the file -----------------------------------------
    # ContentFilterAwareSHA1Provider.sha1 / stat_and_sha1 reach the hashing call on every normal path: a memo keyed on
    # (size, mtime) hands back the hash of bytes that are no longer there, commit then records the old content and the
    # tree reports the file as modified afterwards
    for meth in ("sha1", "stat_and_sha1"):
        fsp, gsp, wsp = fn_cfg(ctx, W4, f"ContentFilterAwareSHA1Provider.{meth}")
        gx = gsp.without_exc_edges()
        hs = [n.id for n in gx.nodes if any((call_attr(c) or norm(c.func)).endswith(("size_sha_file", "internal_size_sha_file_byname", "sha_file", "sha_file_by_name")) for c in n.calls())]
        r8 = gx.reach([gx.entry], avoid=set(hs), include_src=True)
        ctx.check("R8-hash-always-computed", wsp, bool(hs) and gx.exit not in r8, f"{meth}() hashes the file on every normal path", message=f"ContentFilterAwareSHA1Provider.{meth} can answer without hashing the file (a cached value): after a same-size, same-mtime rewrite under one tree lock the commit records the old bytes and the tree reports the file as changed afterwards")
    # ---- R9: the git sibling of the selection filter, decided as a table -------------------------------------------------
    # changes_from_git_changes drops a change iff a selection is given (None = no selection, [] = select nothing) and neither
    # its old nor its new path lies inside (or is a parent of) a selected path.  The loop body up to that decision is evaluated
    # by the abstract interpreter on (selection) x (old path) x (new path).
    from ..absint import Interp as _I9, Obj as _O9, Raised as _R9, Unsupported as _U9, _Continue as _C9

    GTREE = "breezy/git/tree.py"
    fcg = repo.func(GTREE, "changes_from_git_changes")
    wcg = f"{GTREE}:changes_from_git_changes"
    loops9 = [l_ for l_ in fcg.body if isinstance(l_, ast.For)]
    ctx.require(len(loops9) == 1, f"{wcg}: the loop over the git changes was not found")
    body9 = loops9[0].body
    cut = [i for i, st in enumerate(body9) if any((call_attr(c) or "").startswith("is_inside") for c in calls_in(st))]
    ctx.require(bool(cut), f"{wcg}: the selection test (osutils.is_inside…) was not found in the loop body")
    slice9 = body9[: cut[-1] + 1]
    sel_param = "specific_files"
    ctx.require(sel_param in [a.arg for a in fcg.args.args + fcg.args.kwonlyargs], f"{wcg}: parameter specific_files not found")

    def _inside_or_parent(dirs, path):
        return any(path == d or path.startswith(d + "/") or d.startswith(path + "/") or d == "" for d in dirs)

    def _hook9(interp, call, name, ev_args, env):
        if name and name.split(".")[-1] in ("is_inside_or_parent_of_any", "is_inside_any"):
            args, _ = ev_args()
            if name.endswith("is_inside_any"):
                return any(args[1] == d or args[1].startswith(d + "/") or d == "" for d in args[0])
            return _inside_or_parent(args[0], args[1])
        if name and name.split(".")[-1] == "decode_git_path":
            args, _ = ev_args()
            return args[0].decode("utf-8")
        return NotImplemented

    sels = [None, [], ["d"], ["d/c"], ["x"]]
    pths = [None, b"d/c", b"x", b"moved"]
    bad9 = []
    try:
        for sel in sels:
            for op in pths:
                for np_ in pths:
                    if op is None and np_ is None:
                        continue
                    it9 = _I9(call_hook=_hook9)
                    env = {loops9[0].target.id: _O9("change", type="modify", old=None if op is None else (op, 0o100644, b"a" * 40), new=None if np_ is None else (np_, 0o100644, b"b" * 40)), sel_param: sel, "include_unchanged": False}
                    try:
                        it9.block(slice9, env)
                        skipped = False
                    except _C9:
                        skipped = True
                    want = sel is not None and not any(p is not None and _inside_or_parent(sel, p.decode()) for p in (op, np_))
                    if skipped != want:
                        bad9.append((sel, op, np_, "dropped" if skipped else "kept"))
    except (_R9, _U9, AttributeError, TypeError) as ex:
        raise AnalysisError(f"{wcg}: selection filter not evaluable by the abstract interpreter ({ex})")
    ctx.fact(len(sels) * len(pths) * len(pths))
    ctx.check("R9-git-selection-filter-table", wcg, not bad9, f"a change is dropped exactly when a selection is given and neither its old nor its new path is selected ({len(sels)} selections incl. None and [] x old/new paths incl. absent)", construct=str(bad9[:3]), message=f"the git tree's selection filter decides wrongly, e.g. (selection, old path, new path, outcome) = {bad9[:3]}: with specific_files=[] ('commit nothing') every change is committed, or a rename selected by its old path stays out of the commit — a partial commit records paths the user did not select or leaves selected ones pending")


def _unlock_aborts(ctx):
    """C06-R4 re-checked: Repository.unlock / PackRepository.unlock abort a live write group."""
    ok = True
    for rel, q in ((RP, "Repository.unlock"), (PR, "PackRepository.unlock")):
        fn = ctx.repo.func(rel, q)
        ok = ok and any(call_attr(c) == "abort_write_group" for c in calls_in(fn))
    return ok


_H = "            except Exception:\n                mutter(\"aborting commit write group because of exception:\")\n                trace.log_exception_quietly()\n                self.builder.abort()\n                raise\n"

MUTANTS = [
    Mutant("git trees treat an empty selection as no selection", "breezy/git/tree.py", "        if not (\n            specific_files is None\n            or (\n                oldpath_decoded is not None", "        if specific_files and not (\n            (\n                oldpath_decoded is not None", expect="R9-git-selection-filter-table"),
    Mutant("pack-names written before autopack", PR, "            try:\n                result = self.autopack()\n                if not result:\n", "            try:\n                self._save_pack_names()\n                result = self.autopack()\n                if not result:\n", expect="R7-publish-last"),
    Mutant("sha1 provider remembers hashes by size and mtime", "breezy/bzr/workingtree_4.py", "        filters = self.tree._content_filter_stack(\n            self.tree.relpath(osutils.safe_unicode(abspath))\n        )\n        return _mod_filters.internal_size_sha_file_byname(abspath, filters)[1]\n", "        st = os.lstat(abspath)\n        memo = self.__dict__.setdefault(\"_memo\", {})\n        if memo.get(abspath, (None,))[0] == (st.st_size, st.st_mtime):\n            return memo[abspath][1]\n        filters = self.tree._content_filter_stack(\n            self.tree.relpath(osutils.safe_unicode(abspath))\n        )\n        memo[abspath] = ((st.st_size, st.st_mtime), _mod_filters.internal_size_sha_file_byname(abspath, filters)[1])\n        return memo[abspath][1]\n", expect="R8-hash-always-computed"),
    Mutant("excludes outside the selection dropped", CM, "                self.specific_files = sorted(minimum_path_selection(specific_files))\n            else:", "                self.specific_files = sorted(minimum_path_selection(specific_files))\n                self.exclude = [p for p in self.exclude if is_inside_any(self.specific_files, p)]\n            else:", expect="R6-selection-unnarrowed"),
    Mutant("tip moved before builder.commit", CM, "                # Add revision data to the local branch\n                self.rev_id = self.builder.commit(self.message)\n", "                # Add revision data to the local branch\n                self._update_branches(old_revno, old_revid, new_revno)\n                self.rev_id = self.builder.commit(self.message)\n", expect=["R1-tip-after-builder-commit", "R1-single-update-site", "R1-tip-outside-pipeline-try"]),
    Mutant("tip written directly in commit()", CM, "            self._update_branches(old_revno, old_revid, new_revno)\n\n            # Make the working tree", "            self.branch.set_last_revision_info(new_revno, self.rev_id)\n            self._update_branches(old_revno, old_revid, new_revno)\n\n            # Make the working tree", expect="R1-tip-writers"),
    Mutant("neutral: only the explicit builder.abort() removed (unlock safety net still aborts)", CM, _H, "            except Exception:\n                mutter(\"aborting commit write group because of exception:\")\n                raise\n", neutral=True, note="layer 1 only: property preserved by the unlock safety net (information)"),
    Mutant("pipeline handler narrowed AND write lock no longer scoped by the ExitStack", CM, "            stack.enter_context(self.work_tree.lock_write())\n            self.parents = self.work_tree.get_parent_ids()", "            self.work_tree.lock_write()\n            self.parents = self.work_tree.get_parent_ids()", neutral=True, note="layer 2 only removed: explicit abort handler still covers the pipeline"),
    Mutant("tree re-based before the branch moved", CM, "            self._update_branches(old_revno, old_revid, new_revno)\n\n            # Make the working tree be up to date with the branch. This\n            # includes automatic changes scheduled to be made to the tree, such\n            # as updating its basis and unversioning paths that were missing.\n            self.work_tree.unversion(self.deleted_paths)\n", "            self.work_tree.unversion(self.deleted_paths)\n            self._update_branches(old_revno, old_revid, new_revno)\n\n", expect="R3-tree-after-branch"),
    Mutant("out-of-date check after the builder was created", CM, "            # Check that the working tree is up to date\n            old_revno, old_revid, new_revno = self._check_out_of_date_tree()\n", "            old_revno = old_revid = new_revno = None\n", expect="ANALYSIS-ERROR"),
    Mutant("pre_commit hooks after the master tip moved", CM, "        if not self.builder.updates_branch:\n            self._process_pre_hooks(old_revno, new_revno)\n\n            # Upload revision data to the master.", "        if not self.builder.updates_branch:\n            # Upload revision data to the master.", expect="R5-veto-before-tip"),
    Mutant("pre_commit hooks moved behind the local tip write", CM, "            self.branch.set_last_revision_info(new_revno, self.rev_id)\n        else:\n            try:", "            self.branch.set_last_revision_info(new_revno, self.rev_id)\n            self._process_pre_hooks(old_revno, new_revno)\n        else:\n            try:", expect="R5-veto-before-tip"),
    Mutant("empty selection collapses to None", CM, "            if specific_files is not None:\n                self.specific_files = sorted(minimum_path_selection(specific_files))", "            if specific_files:\n                self.specific_files = sorted(minimum_path_selection(specific_files))", expect="R6-empty-selection-kept"),
    Mutant("neutral: progress stage moved", CM, "            self._set_progress_stage(\"Updating the working tree\")\n", "", neutral=True),
]
