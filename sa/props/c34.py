"""C34 — git commit import/export round trip: revision-property and metadata key tables."""

import ast
import re

from ..astutil import call_attr, call_recv, calls_in, const_value, norm, walk_own
from ..selftest import Mutant

ID = "C34"
TECHNIQUE = "writer/reader key-table extraction and comparison (K6) between import_commit / export_commit and the roundtrip metadata codec (ast)"
FLOOR = 14
MP = "breezy/git/mapping.py"
RT = "breezy/git/roundtrip.py"
EXPLANATION = """
K6 tables: (a) every revision-property key *written* by mapping.py:BzrGitMapping.import_commit is *read* by
export_commit (subscript / membership / .get on rev.properties), with one tabled exception: 'author' is read through
rev.get_apparent_authors(); keys that export_commit treats as mapping-owned (its mapping_properties set, which keeps them
out of the roundtrip metadata) are all written by import_commit; the mergetag key template is the same on both sides.
(b) roundtrip.py: the line keys emitted by generate_roundtripping_metadata equal the keys accepted by
parse_roundtripping_metadata (which raises on anything else), including the property- prefix; the metadata separator
literal is the same in inject_bzr_metadata and extract_bzr_metadata.
Does not decide: byte identity of the exported commit (values, encodings, timezones).
"""
READ_EXCEPTIONS = {"author": "read through rev.get_apparent_authors()"}


def written_keys(fn, recv_names):
    keys, templates = set(), set()
    for n in ast.walk(fn):  # includes the nested decode helper
        if isinstance(n, ast.Subscript) and isinstance(n.ctx, ast.Store) and norm(n.value) in recv_names:
            if isinstance(n.slice, ast.Constant):
                keys.add(n.slice.value)
            elif isinstance(n.slice, ast.BinOp) and isinstance(n.slice.left, ast.Constant):
                templates.add(n.slice.left.value)
    return keys, templates


def read_keys(fn, recv):
    keys, templates = set(), set()
    for n in walk_own(fn):
        if isinstance(n, ast.Subscript) and isinstance(n.ctx, ast.Load) and norm(n.value) == recv and isinstance(n.slice, ast.Constant):
            keys.add(n.slice.value)
        if isinstance(n, ast.Compare) and len(n.ops) == 1 and isinstance(n.ops[0], (ast.In, ast.NotIn)) and norm(n.comparators[0]) == recv and isinstance(n.left, ast.Constant):
            keys.add(n.left.value)
        if isinstance(n, ast.Call) and call_attr(n) == "get" and call_recv(n) == recv and n.args and isinstance(n.args[0], ast.Constant):
            keys.add(n.args[0].value)
        if isinstance(n, ast.BinOp) and isinstance(n.op, ast.Mod) and isinstance(n.left, ast.Constant) and isinstance(n.left.value, str) and "%d" in n.left.value:
            templates.add(n.left.value)
        if isinstance(n, ast.Assign) and isinstance(n.value, ast.Constant) and isinstance(n.value.value, str) and re.fullmatch(r"[a-z-]+-0", n.value.value):
            templates.add(n.value.value[:-1] + "%d")
    return keys, templates


def run(ctx):
    repo = ctx.repo
    fi = repo.func(MP, "BzrGitMapping._import_commit") if repo.has(MP, "BzrGitMapping._import_commit") else repo.func(MP, "BzrGitMapping.import_commit")
    fe = repo.func(MP, "BzrGitMapping._export_commit") if repo.has(MP, "BzrGitMapping._export_commit") else repo.func(MP, "BzrGitMapping.export_commit")
    wi = f"{MP}:BzrGitMapping.import_commit"
    we = f"{MP}:BzrGitMapping.export_commit"
    wk, wt = written_keys(fi, {"properties", "rev.properties"})
    rk, rt = read_keys(fe, "rev.properties")
    ctx.require(len(wk) >= 9, f"only {len(wk)} property keys written by import_commit (hand-confirmed: 10)")
    for k in sorted(wk):
        ok = k in rk or k in READ_EXCEPTIONS
        ctx.check("prop-written-is-read", wi, ok, f"property {k!r} written on import is read on export" + (f" ({READ_EXCEPTIONS[k]})" if k in READ_EXCEPTIONS and k not in rk else ""), construct=k, message=f"import_commit stores revision property {k!r} but export_commit never reads it: that part of the git commit cannot be reproduced")
    if "author" in wk:
        ctx.check("prop-written-is-read", we, any(call_attr(c) == "get_apparent_authors" for c in calls_in(fe)), "export reads the author through get_apparent_authors()")
    ctx.check("mergetag-template", wi, wt == rt and len(wt) == 1, f"mergetag key template {sorted(wt)} is the same on both sides ({sorted(rt)})", construct=f"{sorted(wt)} / {sorted(rt)}")
    mp = None
    for n in walk_own(fe):
        if isinstance(n, ast.Assign) and norm(n.targets[0]) == "mapping_properties" and isinstance(n.value, ast.Set):
            mp = {const_value(e) for e in n.value.elts}
    ctx.check("mapping-owned-keys", we, mp is not None and len(mp) >= 6, "export_commit keeps the mapping-owned keys out of the roundtrip metadata")
    # every written non-template key that is excluded from metadata is read (or it would be lost on export)
    if mp is not None:
        lost = sorted(k for k in wk if k not in mp and k not in rk and k not in READ_EXCEPTIONS)
        ctx.check("mapping-owned-keys", we, not lost, "no imported property is both unread and outside the metadata", construct=str(lost))
    # ---- roundtrip metadata ------------------------------------------------------
    fg = repo.func(RT, "generate_roundtripping_metadata")
    fp = repo.func(RT, "parse_roundtripping_metadata")
    gen = set()
    for n in walk_own(fg):
        if isinstance(n, ast.Constant) and isinstance(n.value, bytes):
            m = re.match(rb"^([a-z0-9-]+?)(-%s)?: %s\n$", n.value)
            if m:
                gen.add(m.group(1) + (b"-" if m.group(2) else b""))
    par = set()
    for n in walk_own(fp):
        if isinstance(n, ast.Compare) and norm(n.left) == "key" and isinstance(n.comparators[0], ast.Constant):
            par.add(n.comparators[0].value)
        if isinstance(n, ast.Call) and call_attr(n) == "startswith" and call_recv(n) == "key" and isinstance(n.args[0], ast.Constant):
            par.add(n.args[0].value)
    ctx.check("metadata-keys", f"{RT}:generate/parse_roundtripping_metadata", gen == par and len(gen) >= 4, f"line keys generated {sorted(gen)} == keys parsed {sorted(par)}", construct=f"{sorted(gen)} / {sorted(par)}", message=f"roundtrip metadata keys disagree: generated {sorted(gen)}, parsed {sorted(par)}")
    ctx.check("metadata-keys", f"{RT}:parse_roundtripping_metadata", any(isinstance(n, ast.Raise) for n in walk_own(fp)), "an unknown metadata line is an error, not silently dropped")
    pre = [n for n in walk_own(fp) if isinstance(n, ast.Subscript) and isinstance(n.slice, ast.Slice) and n.slice.lower is not None and "len(" in norm(n.slice.lower)]
    ctx.check("metadata-keys", f"{RT}:parse_roundtripping_metadata", len(pre) == 1 and norm(pre[0].slice.lower) == "len(b'property-')", "the property name is what follows the property- prefix")
    fx = repo.func(RT, "extract_bzr_metadata")
    fj = repo.func(RT, "inject_bzr_metadata")
    sx = {n.value for n in walk_own(fx) if isinstance(n, ast.Constant) and isinstance(n.value, bytes) and b"BZR" in n.value}
    sj = {n.value for n in walk_own(fj) if isinstance(n, ast.Constant) and isinstance(n.value, bytes) and b"BZR" in n.value}
    ctx.check("metadata-separator", f"{RT}:inject/extract_bzr_metadata", sx == sj and len(sx) == 1, f"separator {sorted(sj)} == {sorted(sx)}", construct=f"{sorted(sj)} / {sorted(sx)}", message="the metadata separator differs between inject_bzr_metadata and extract_bzr_metadata")
    ctx.sample({"written": sorted(wk), "read": sorted(rk), "metadata_keys": sorted(k.decode() for k in gen)})


MUTANTS = [
    Mutant("import writes a key export does not know", MP, "            properties[\"git-gpg-signature\"] = commit.gpgsig.decode(", "            properties[\"git-gpgsig\"] = commit.gpgsig.decode(", expect="prop-written-is-read"),
    Mutant("separator differs on one side", RT, "    return message + b\"\\n--BZR--\\n\" + rt_data", "    return message + b\"\\n--BZR-\\n\" + rt_data", expect="metadata-separator"),
    Mutant("parser forgets a key", RT, "        elif key == b\"testament3-sha1\":\n            ret.verifiers[b\"testament3-sha1\"] = value.strip()\n", "", expect="metadata-keys"),
    Mutant("mergetag template renamed on export", MP, "            propname = \"git-mergetag-%d\" % i", "            propname = \"git-merge-tag-%d\" % i", expect="mergetag-template"),
    Mutant("neutral: if-blocks of export_commit reordered", MP, "        commit._commit_timezone_neg_utc = \"commit-timezone-neg-utc\" in rev.properties\n", "        commit._commit_timezone_neg_utc = bool(\"commit-timezone-neg-utc\" in rev.properties)\n", neutral=True),
]
