"""C34 — git commit import/export round trip: revision-property and metadata key tables."""

import ast
import re

from ..astutil import call_attr, call_recv, calls_in, const_value, norm, walk_own
from ..rules import describe
from ..index import AnalysisError
from ..selftest import Mutant

ID = "C34"
TECHNIQUE = "writer/reader key-table extraction and comparison (K6) between import_commit / export_commit and the roundtrip metadata codec (ast)"
FLOOR = 36
MP = "breezy/git/mapping.py"
RT = "breezy/git/roundtrip.py"
EXPLANATION = """
K6 tables: (a) every revision-property key *written* by mapping.py:BzrGitMapping.import_commit is *read* by
export_commit (subscript / membership / .get on rev.properties), with one tabled exception: 'author' is read through
rev.get_apparent_authors(); keys that export_commit treats as mapping-owned (its mapping_properties set, which keeps them
out of the roundtrip metadata) are all written by import_commit; the mergetag key template is the same on both sides.
(b) roundtrip.py: the line keys emitted by generate_roundtripping_metadata equal the keys accepted by
parse_roundtripping_metadata (which raises on anything else), including the property- prefix; the metadata separator
literal is the same in inject_bzr_metadata and extract_bzr_metadata.
Added while testing against seeded changes: Also: each commit field is restored from its own property key only; the
decode helper retried with another encoding writes its outputs before reading them; encoding header values
import_commit does not use as a codec ('false') are not used as a codec by export_commit.
identity-verbatim (K8): the backward slice of `commit.author = …` and `commit.committer = …` in export_commit is
evaluated abstractly (the function ASTs are interpreted, nothing of the repository is executed) on well-formed
`Name <email>` identities with commas, quotes and non-ASCII letters under three encodings: the exported bytes are the
identity's own bytes.
field-set-before-read (K4): export_commit assigns every field of the fresh dulwich Commit() before reading it (fields
the constructor initialises — parsed from the installed dulwich source — and class-level members excepted).
Does not decide: byte identity of the whole exported commit (timezones, message, extra headers), malformed identities.
"""
READ_EXCEPTIONS = {"author": "read through rev.get_apparent_authors()"}


def written_keys(fn, recv_names):
    keys, templates = set(), set()
    for n in ast.walk(fn):  # includes the nested decode helper
        if isinstance(n, ast.Subscript) and isinstance(n.ctx, ast.Store) and norm(n.value) in recv_names:
            if isinstance(n.slice, ast.Constant):
                keys.add(n.slice.value)
            elif isinstance(n.slice, ast.BinOp) and isinstance(n.slice.left, ast.Constant):
                templates.add(n.slice.left.value)
    return keys, templates


def read_keys(fn, recv):
    keys, templates = set(), set()
    for n in walk_own(fn):
        if isinstance(n, ast.Subscript) and isinstance(n.ctx, ast.Load) and norm(n.value) == recv and isinstance(n.slice, ast.Constant):
            keys.add(n.slice.value)
        if isinstance(n, ast.Compare) and len(n.ops) == 1 and isinstance(n.ops[0], (ast.In, ast.NotIn)) and norm(n.comparators[0]) == recv and isinstance(n.left, ast.Constant):
            keys.add(n.left.value)
        if isinstance(n, ast.Call) and call_attr(n) == "get" and call_recv(n) == recv and n.args and isinstance(n.args[0], ast.Constant):
            keys.add(n.args[0].value)
        if isinstance(n, ast.BinOp) and isinstance(n.op, ast.Mod) and isinstance(n.left, ast.Constant) and isinstance(n.left.value, str) and "%d" in n.left.value:
            templates.add(n.left.value)
        if isinstance(n, ast.Assign) and isinstance(n.value, ast.Constant) and isinstance(n.value.value, str) and re.fullmatch(r"[a-z-]+-0", n.value.value):
            templates.add(n.value.value[:-1] + "%d")
    return keys, templates


def run(ctx):
    repo = ctx.repo
    fi = repo.func(MP, "BzrGitMapping._import_commit") if repo.has(MP, "BzrGitMapping._import_commit") else repo.func(MP, "BzrGitMapping.import_commit")
    fe = repo.func(MP, "BzrGitMapping._export_commit") if repo.has(MP, "BzrGitMapping._export_commit") else repo.func(MP, "BzrGitMapping.export_commit")
    wi = f"{MP}:BzrGitMapping.import_commit"
    we = f"{MP}:BzrGitMapping.export_commit"
    from ..astutil import bind_roles, canonicalise

    fe = canonicalise(fe, bind_roles(fe, {"commit": ("assign", "Commit()"), "metadata": ("assign", "CommitSupplement()"), "mapping_properties": ("assign", lambda t, n: isinstance(n, ast.Set) and "'author-timezone'" in t)}, we))
    fi = canonicalise(fi, bind_roles(fi, {"properties": ("subscript", "git-explicit-encoding")}, wi))
    wk, wt = written_keys(fi, {"properties", "rev.properties"})
    rk, rt = read_keys(fe, "rev.properties")
    ctx.require(len(wk) >= 9, f"only {len(wk)} property keys written by import_commit (hand-confirmed: 10)")
    for k in sorted(wk):
        ok = k in rk or k in READ_EXCEPTIONS
        ctx.check("prop-written-is-read", wi, ok, f"property {k!r} written on import is read on export" + (f" ({READ_EXCEPTIONS[k]})" if k in READ_EXCEPTIONS and k not in rk else ""), construct=k, message=f"import_commit stores revision property {k!r} but export_commit never reads it: that part of the git commit cannot be reproduced")
    if "author" in wk:
        ctx.check("prop-written-is-read", we, any(call_attr(c) == "get_apparent_authors" for c in calls_in(fe)), "export reads the author through get_apparent_authors()")
    # ---- each commit field is restored from its own property key only ---------------------------------------
    def _keys_of(node):
        ks, _ = read_keys(node, "rev.properties") if not isinstance(node, ast.expr) else read_keys(ast.Expr(value=node), "rev.properties")
        return ks

    def _walk_guarded(stmts, guards):
        for st in stmts:
            if isinstance(st, ast.If):
                gk = _keys_of(st.test)
                yield from _walk_guarded(st.body, guards + [gk] if gk else guards)
                yield from _walk_guarded(st.orelse, guards + [gk] if gk else guards)
            elif isinstance(st, (ast.With, ast.For, ast.While)):
                yield from _walk_guarded(st.body, guards)
            elif isinstance(st, ast.Try):
                yield from _walk_guarded(st.body, guards)
                for h in st.handlers:
                    yield from _walk_guarded(h.body, guards)
                yield from _walk_guarded(st.orelse, guards)
                yield from _walk_guarded(st.finalbody, guards)
            elif isinstance(st, ast.Assign) and any(norm(t).startswith("commit.") for t in st.targets):
                yield st, guards

    n_fields = 0
    for st, guards in _walk_guarded(fe.body, []):
        own = _keys_of(st.value)
        foreign = sorted({k for g_ in guards for k in g_} - own) if own else []
        n_fields += 1
        ctx.check("field-from-own-key", we, not foreign, f"`{norm(st.targets[0])}` is restored from {sorted(own) or 'the revision'} without depending on another property's presence", construct=norm(st)[:90], message=f"`{norm(st)[:80]}` is restored from {sorted(own)} only when {foreign} is present: import_commit records the two independently, so a commit that has one without the other exports with different bytes (another SHA-1)")
    ctx.require(n_fields >= 10, f"{we}: only {n_fields} commit field assignments found")
    # ---- identities stored verbatim on import come back byte-identical (K8 table over a program slice) ---------
    # import_commit stores commit.author / commit.committer decoded, export_commit re-encodes them.  The backward slice
    # of `commit.author = …` / `commit.committer = …` in export_commit is evaluated abstractly (helpers of mapping.py
    # included) on well-formed `Name <email>` identities — with commas, quotes and non-ASCII in the name — under the
    # implicit and an explicit encoding: the result must be the identity's own bytes.
    from ..absint import Interp, Obj, Raised, Unsupported

    def _loads(node):
        return {n.id for n in ast.walk(node) if isinstance(n, ast.Name) and isinstance(n.ctx, ast.Load)}

    def _slice(target):
        idx = [i for i, st in enumerate(fe.body) if isinstance(st, ast.Assign) and any(norm(t) == target for t in st.targets)]
        if len(idx) != 1:
            return None
        keep, need = [fe.body[idx[0]]], _loads(fe.body[idx[0]].value)
        for st in reversed(fe.body[: idx[0]]):
            stores = {n.id for n in ast.walk(st) if isinstance(n, ast.Name) and isinstance(n.ctx, ast.Store)}
            if isinstance(st, (ast.Assign, ast.If)) and stores & need:
                keep.insert(0, st)
                need |= _loads(st)
        return keep

    def _hook(interp, call, name, ev_args, env):
        if name and name.endswith(".get_apparent_authors"):
            return [env["rev"].get("_identity")]
        if name and "." not in name and repo.has(MP, name):
            f_ = repo.func(MP, name)
            args, kw = ev_args()
            ps = [a.arg for a in f_.args.args]
            return interp.call(f_, {**dict(zip(ps, args)), **kw})
        return NotImplemented

    rev_param = [a.arg for a in fe.args.args if a.arg != "self"][0]
    idents = ["A U Thor <a@example.com>", "Doe, John <j@example.com>", "Doe, John, Jr. <j@example.com>", 'J. R. "Bob" Dobbs <bob@example.com>', "Zo\xeb M\xfcller <z@example.com>", "Joe Example  <joe@example.com>", "Joe  Q.  Example <joe@example.com>", " Leading Blank <l@example.com>", "Trailing Tab\t <t@example.com>", " <nameless@example.com>", "No Mail <>"]
    for target in ("commit.author", "commit.committer"):
        sl = _slice(target)
        if sl is None:
            ctx.info("identity-verbatim", we, f"`{target}` is not assigned by exactly one top-level statement; slice not taken, not decided on this run")
            continue
        bad, evaluable = [], True
        n_rows = 0
        try:
            for props, enc in (({}, "utf-8"), ({"git-explicit-encoding": "iso-8859-1"}, "iso-8859-1"), ({"git-implicit-encoding": "latin1"}, "latin1")):
                for ident in idents:
                    rev = Obj("rev", properties=dict(props), committer=ident, _identity=ident)
                    commit = Obj("commit")
                    env = {rev_param: rev, "rev": rev, "commit": commit}
                    it_ = Interp(call_hook=_hook)
                    try:
                        it_.block(sl, env)
                        got = commit.get(target.split(".")[1])
                    except Raised as r_:
                        got = ("raises", r_.name)
                    n_rows += 1
                    if got != ident.encode(enc):
                        bad.append((ident, enc, got))
        except Unsupported as ex:
            evaluable = False
            raise AnalysisError(f"{we}: slice of `{target}` not evaluable by the abstract interpreter ({ex}) — hand-confirmed evaluable on the pinned tree, so the rule cannot be decided on this one")
        if evaluable:
            ctx.fact(n_rows)
            ctx.check("identity-verbatim", we, not bad, f"`{target}` reproduces a well-formed identity byte for byte ({n_rows} rows: {len(idents)} identities x 3 encodings; slice of {len(sl)} statements)", construct=str(bad[:2]), message=f"export_commit rewrites a well-formed identity: {bad[:2]} — a git commit whose author or committer has this form is exported with different bytes, hence another SHA-1")
    # ---- export_commit never reads a field of the commit it is building before it has set it (K4 def-use) --------
    # The object is a fresh dulwich Commit(): only the fields its constructor initialises (parsed from the installed
    # dulwich source, not imported) and class-level methods/properties exist before export_commit stores them.
    import importlib.util

    from ..cfg import build_cfg

    spec = importlib.util.find_spec("dulwich")
    dsrc = None
    if spec is not None and spec.submodule_search_locations:
        import os

        cand = os.path.join(list(spec.submodule_search_locations)[0], "objects.py")
        if os.path.exists(cand):
            dsrc = ast.parse(open(cand, encoding="utf-8").read())
    dcls = next((n for n in dsrc.body if isinstance(n, ast.ClassDef) and n.name == "Commit"), None) if dsrc is not None else None
    if dcls is None:
        ctx.info("field-set-before-read", we, "dulwich.objects.Commit source not found; not decided on this run")
    else:
        init = next((m for m in dcls.body if isinstance(m, ast.FunctionDef) and m.name == "__init__"), None)
        inited = {n.attr.lstrip("_") for n in ast.walk(init) if isinstance(n, ast.Attribute) and isinstance(n.ctx, ast.Store) and norm(n.value) == "self"} if init is not None else set()
        members = {m.name for m in dcls.body if isinstance(m, ast.FunctionDef)}
        g = build_cfg(fe)
        gx = g
        stores, loads = {}, {}
        for nd in g.nodes:
            if nd.ast is None or nd.kind not in ("stmt", "test", "return"):
                continue
            root = nd.ast
            for n in ast.walk(root) if not isinstance(root, (ast.FunctionDef, ast.ClassDef)) else []:
                if isinstance(n, ast.Attribute) and isinstance(n.value, ast.Name) and n.value.id == "commit":
                    (stores if isinstance(n.ctx, ast.Store) else loads).setdefault(n.attr, set()).add(nd.id)
        probing = set()
        for t in ast.walk(fe):
            if isinstance(t, ast.Try) and any("AttributeError" in norm(h.type) for h in t.handlers if h.type is not None):
                for n in ast.walk(t):
                    if isinstance(n, ast.Attribute) and isinstance(n.value, ast.Name) and n.value.id == "commit":
                        probing.add(n.attr)
        n_loads = 0
        for attr, at in sorted(loads.items()):
            if attr in members or attr.lstrip("_") in inited or attr in probing:
                continue
            n_loads += 1
            r_ = gx.reach([gx.entry], avoid=stores.get(attr, set()), include_src=True)
            early = sorted(set(at) & r_ - stores.get(attr, set()))
            w = gx.path([gx.entry], early, avoid=stores.get(attr, set())) if early else None
            ctx.check("field-set-before-read", f"{we}[commit.{attr}]", not early, f"commit.{attr} is assigned on every path before it is read", construct=describe(g, early) if early else "", message=f"export_commit reads commit.{attr} of the Commit() it has just created before assigning it (dulwich's constructor does not initialise it): the branch raises AttributeError, so a revision that takes it can never be exported — that commit cannot make the round trip", witness=g.show_path(w) if w else None)
        ctx.extra["commit_fields_read"] = n_loads
    # ---- the decode helper is retried with another encoding: it must not keep results of the failed attempt ------
    inner = [n for n in ast.walk(fi) if isinstance(n, ast.FunctionDef) and n is not fi and any(isinstance(x, ast.Nonlocal) for x in n.body)]
    retried = [n for n in inner if any(isinstance(l_, ast.For) and any(isinstance(c, ast.Call) and norm(c.func) == n.name for c in ast.walk(l_)) for l_ in ast.walk(fi))]
    ctx.require(len(retried) == 1, f"{wi}: the retried decode helper was not found")
    from ..cfg import build_cfg

    gd = build_cfg(retried[0])
    outs = [nm for x in retried[0].body if isinstance(x, ast.Nonlocal) for nm in x.names]
    for nm in outs:
        writes = {n.id for n in gd.nodes if n.kind == "stmt" and isinstance(n.ast, (ast.Assign, ast.AnnAssign, ast.AugAssign)) and any(isinstance(t, ast.Name) and t.id == nm and isinstance(t.ctx, ast.Store) for t in ast.walk(n.ast)) and not any(isinstance(t, ast.Name) and t.id == nm and isinstance(t.ctx, ast.Load) for t in ast.walk(n.ast))}
        reads = {n.id for n in gd.nodes if n.ast is not None and n.kind in ("stmt", "test", "for", "with_enter") and any(isinstance(t, ast.Name) and t.id == nm and isinstance(t.ctx, ast.Load) for t in ast.walk(n.ast))}
        early = sorted(reads & gd.reach([gd.entry], avoid=writes, include_src=True))
        ctx.check("retry-keeps-no-state", f"{wi}.{retried[0].name}", bool(writes) and not early, f"`{nm}` is written before it is read in every attempt", construct="; ".join(gd.nodes[i].text() for i in early), message=f"`{nm}` is read before this attempt assigned it ({'; '.join(gd.nodes[i].text() for i in early)}): the value decoded with the encoding that failed survives into the retry, so committer/author/message end up decoded with different encodings and the exported commit differs")
    # ---- special encoding values are special on both sides --------------------------------------------------
    special = set()
    for n in ast.walk(fi):
        if isinstance(n, ast.Compare) and len(n.ops) == 1 and isinstance(n.ops[0], (ast.Eq, ast.NotEq)) and norm(n.left) == "commit.encoding" and isinstance(n.comparators[0], ast.Constant) and isinstance(n.comparators[0].value, bytes):
            special.add(n.comparators[0].value.decode("ascii"))
    handled = set()
    for n in ast.walk(fe):
        if isinstance(n, ast.Compare) and len(n.ops) == 1 and isinstance(n.ops[0], (ast.Eq, ast.NotEq, ast.In, ast.NotIn)):
            for side in [n.left] + list(n.comparators):
                for c_ in ast.walk(side):
                    if isinstance(c_, ast.Constant) and isinstance(c_.value, (str, bytes)):
                        v = c_.value.decode("ascii") if isinstance(c_.value, bytes) else c_.value
                        if v in special:
                            handled.add(v)
    for v in sorted(special):
        ctx.check("encoding-special-values", we, v in handled, f"the encoding header value {v!r}, which import_commit does not use as a codec, is not used as a codec by export_commit either", construct=v, message=f"import_commit treats `encoding {v}` as 'no usable encoding' (it decodes with utf-8/latin1) but export_commit encodes with the stored value: a commit carrying `encoding {v}` is imported and then cannot be exported (LookupError: unknown encoding)")
    ctx.check("mergetag-template", wi, wt == rt and len(wt) == 1, f"mergetag key template {sorted(wt)} is the same on both sides ({sorted(rt)})", construct=f"{sorted(wt)} / {sorted(rt)}")
    mp = None
    for n in walk_own(fe):
        if isinstance(n, ast.Assign) and norm(n.targets[0]) == "mapping_properties" and isinstance(n.value, ast.Set):
            mp = {const_value(e) for e in n.value.elts}
    ctx.check("mapping-owned-keys", we, mp is not None and len(mp) >= 6, "export_commit keeps the mapping-owned keys out of the roundtrip metadata")
    # every written non-template key that is excluded from metadata is read (or it would be lost on export)
    if mp is not None:
        lost = sorted(k for k in wk if k not in mp and k not in rk and k not in READ_EXCEPTIONS)
        ctx.check("mapping-owned-keys", we, not lost, "no imported property is both unread and outside the metadata", construct=str(lost))
    # ---- roundtrip metadata ------------------------------------------------------
    fg = repo.func(RT, "generate_roundtripping_metadata")
    fp = repo.func(RT, "parse_roundtripping_metadata")
    gen = set()
    for n in walk_own(fg):
        if isinstance(n, ast.Constant) and isinstance(n.value, bytes):
            m = re.match(rb"^([a-z0-9-]+?)(-%s)?: %s\n$", n.value)
            if m:
                gen.add(m.group(1) + (b"-" if m.group(2) else b""))
    par = set()
    from ..astutil import bind_roles as _br, canonicalise as _cz

    fp = _cz(fp, _br(fp, {"key": ("assign", "~\\w+\\.split\\(b':', 1\\)", 0)}, f"{RT}:parse_roundtripping_metadata"))
    for n in walk_own(fp):
        if isinstance(n, ast.Compare) and norm(n.left) == "key" and isinstance(n.comparators[0], ast.Constant):
            par.add(n.comparators[0].value)
        if isinstance(n, ast.Call) and call_attr(n) == "startswith" and call_recv(n) == "key" and isinstance(n.args[0], ast.Constant):
            par.add(n.args[0].value)
    ctx.check("metadata-keys", f"{RT}:generate/parse_roundtripping_metadata", gen == par and len(gen) >= 4, f"line keys generated {sorted(gen)} == keys parsed {sorted(par)}", construct=f"{sorted(gen)} / {sorted(par)}", message=f"roundtrip metadata keys disagree: generated {sorted(gen)}, parsed {sorted(par)}")
    ctx.check("metadata-keys", f"{RT}:parse_roundtripping_metadata", any(isinstance(n, ast.Raise) for n in walk_own(fp)), "an unknown metadata line is an error, not silently dropped")
    pre = [n for n in walk_own(fp) if isinstance(n, ast.Subscript) and isinstance(n.slice, ast.Slice) and n.slice.lower is not None and "len(" in norm(n.slice.lower)]
    ctx.check("metadata-keys", f"{RT}:parse_roundtripping_metadata", len(pre) == 1 and norm(pre[0].slice.lower) == "len(b'property-')", "the property name is what follows the property- prefix")
    fx = repo.func(RT, "extract_bzr_metadata")
    fj = repo.func(RT, "inject_bzr_metadata")
    sx = {n.value for n in walk_own(fx) if isinstance(n, ast.Constant) and isinstance(n.value, bytes) and b"BZR" in n.value}
    sj = {n.value for n in walk_own(fj) if isinstance(n, ast.Constant) and isinstance(n.value, bytes) and b"BZR" in n.value}
    ctx.check("metadata-separator", f"{RT}:inject/extract_bzr_metadata", sx == sj and len(sx) == 1, f"separator {sorted(sj)} == {sorted(sx)}", construct=f"{sorted(sj)} / {sorted(sx)}", message="the metadata separator differs between inject_bzr_metadata and extract_bzr_metadata")
    ctx.sample({"written": sorted(wk), "read": sorted(rk), "metadata_keys": sorted(k.decode() for k in gen)})


MUTANTS = [
    Mutant("identity helper trims every trailing blank of the name", MP, '        if username.endswith(b" "):\n            username = username[:-1]\n', '        username = username.rstrip()\n', expect="identity-verbatim"),
    Mutant("committer timezone set after the author falls back to it", MP, "        commit.commit_timezone = rev.timezone\n        commit._author_timezone_neg_utc = \"author-timezone-neg-utc\" in rev.properties\n        if \"author-timezone\" in rev.properties:\n            commit.author_timezone = int(rev.properties[\"author-timezone\"])\n        else:\n            commit.author_timezone = commit.commit_timezone\n", "        commit._author_timezone_neg_utc = \"author-timezone-neg-utc\" in rev.properties\n        if \"author-timezone\" in rev.properties:\n            commit.author_timezone = int(rev.properties[\"author-timezone\"])\n        else:\n            commit.author_timezone = commit.commit_timezone\n        commit.commit_timezone = rev.timezone\n", expect="field-set-before-read", where="commit.commit_timezone"),
    Mutant("first author cut at any comma", MP, "        if \",\" in first_author and first_author.count(\">\") > 1:\n            first_author = first_author.split(\",\")[0]\n", "        if \",\" in first_author:\n            first_author = first_author.split(\",\")[0].strip()\n", expect="identity-verbatim"),
    Mutant("committer always encoded as utf-8", MP, "        commit.committer = fix_person_identifier(rev.committer.encode(encoding))\n", "        commit.committer = fix_person_identifier(rev.committer.encode(\"utf-8\"))\n", expect="identity-verbatim"),
    Mutant("neutral: authors list held in a local", MP, "        first_author = rev.get_apparent_authors()[0]\n", "        authors = rev.get_apparent_authors()\n        first_author = authors[0]\n", neutral=True),
    Mutant("author -0000 flag restored only with an author timezone", MP, "        commit._author_timezone_neg_utc = \"author-timezone-neg-utc\" in rev.properties\n        if \"author-timezone\" in rev.properties:\n            commit.author_timezone = int(rev.properties[\"author-timezone\"])\n", "        if \"author-timezone\" in rev.properties:\n            commit.author_timezone = int(rev.properties[\"author-timezone\"])\n            commit._author_timezone_neg_utc = \"author-timezone-neg-utc\" in rev.properties\n", expect="field-from-own-key"),
    Mutant("committer decoded only on the first attempt", MP, "            try:\n                committer = commit.committer.decode(encoding)\n", "            try:\n                if committer is None:\n                    committer = commit.committer.decode(encoding)\n", expect="retry-keeps-no-state"),
    Mutant("import writes a key export does not know", MP, "            properties[\"git-gpg-signature\"] = commit.gpgsig.decode(", "            properties[\"git-gpgsig\"] = commit.gpgsig.decode(", expect="prop-written-is-read"),
    Mutant("separator differs on one side", RT, "    return message + b\"\\n--BZR--\\n\" + rt_data", "    return message + b\"\\n--BZR-\\n\" + rt_data", expect="metadata-separator"),
    Mutant("parser forgets a key", RT, "        elif key == b\"testament3-sha1\":\n            ret.verifiers[b\"testament3-sha1\"] = value.strip()\n", "", expect="metadata-keys"),
    Mutant("mergetag template renamed on export", MP, "            propname = \"git-mergetag-%d\" % i", "            propname = \"git-merge-tag-%d\" % i", expect="mergetag-template"),
    Mutant("neutral: if-blocks of export_commit reordered", MP, "        commit._commit_timezone_neg_utc = \"commit-timezone-neg-utc\" in rev.properties\n", "        commit._commit_timezone_neg_utc = bool(\"commit-timezone-neg-utc\" in rev.properties)\n", neutral=True),
]
