"""C11 — add versions exactly the intended paths: exclusion guard set of the two recursive adders (sibling agreement)."""

import ast

from ..astutil import call_name, const_value, call_attr, call_recv, calls_in, norm, walk_own
from ..cfg import build_cfg
from ..rules import calling, need
from ..selftest import Mutant

ID = "C11"
TECHNIQUE = "guard dominance (K2) of every add site in the recursive walk by the four exclusion predicates, checked identically on the bzr and git siblings (K7) (ast)"
FLOOR = 16
BI = "breezy/bzr/inventorytree.py"
GW = "breezy/git/workingtree.py"
EXPLANATION = """
K7/K2, for bzr/inventorytree.py:_SmartAddHelper.add and git/workingtree.py:GitWorkingTree.smart_add, inside the recursive
part of the walk: a path is scheduled / added only when each of the four exclusion predicates named by the property is
false — (1) control filename (is_control_filename), (2) matched by an ignore pattern (is_ignored(...) is not None; the
ignored path is reported instead), (3) nested tree (ControlDirFormat.find_format succeeded: neither added nor descended
into), (4) conflict helper file (member of the set built from associated_filenames() of the tree's conflicts). The
ignore test is applied only to paths found by directory listing, never to the paths the user named explicitly
("even if it matches an ignore pattern"). AddAction.skip_file is a bzr-only extension point (noted, not required of git).
Added while testing against seeded changes: Also: _gather_dirs_to_add drops a named directory only on a component-
aware containment test (osutils.is_inside*); the git adder probes every non-root directory with
ControlDirFormat.find_format before listing it.
Third round: nested-probe-for-every-directory — the `if` tests that enclose the find_format probe inside the walk mention
only the kind variable and the directory being the tree root (both adders; a git adder without any find_format probe is
reported, not an analysis error). conflict-helpers-listed — the suffix table of Merge3Merger._dump_conflicts (OTHER, THIS,
BASE) is compared with associated_filenames() of every conflict class (bzr and git) whose kind is raised next to a
_dump_conflicts call: all suffixes must be listed, except the first of the order for kinds whose first helper is
versioned by the merger (contents conflict).
Fourth round: user-ignores-read-afresh — every path of ignores.get_user_ignores opens the file; conflict-list-from-raw-index —
GitWorkingTree.conflicts iterates self.index.iteritems().
Does not decide: parent-directory versioning, nor that nothing else becomes versioned (tree values).
"""


def _listing_loops(g):
    return [n.id for n in g.nodes if n.kind == "for" and "os.listdir" in norm(n.ast.iter)]


MG = "breezy/merge.py"
BC = "breezy/bzr/conflicts.py"


def _helper_suffixes(ctx):
    """conflict-helpers-listed: every helper file the merger leaves unversioned is named by the conflict's
    associated_filenames(), the list the recursive add excludes."""
    repo = ctx.repo
    fd = repo.func(MG, "Merge3Merger._dump_conflicts")
    order = []
    for n in walk_own(fd):
        if isinstance(n, ast.Assign) and isinstance(n.value, ast.List):
            order += [e.elts[0].value for e in n.value.elts if isinstance(e, ast.Tuple) and e.elts and isinstance(e.elts[0], ast.Constant) and isinstance(e.elts[0].value, str)]
    for c in calls_in(fd):
        if call_attr(c) == "append" and c.args and isinstance(c.args[0], ast.Tuple) and c.args[0].elts and isinstance(c.args[0].elts[0], ast.Constant) and isinstance(c.args[0].elts[0].value, str):
            order.append(c.args[0].elts[0].value)
    ctx.require(len(order) >= 3, f"{MG}:Merge3Merger._dump_conflicts: table of helper suffixes not found ({order})")
    # which kinds get the first helper of that order versioned (it then is not an unversioned helper)
    first_versioned = set()
    kinds = set()
    for q, f in repo.module(MG).functions().items():
        for blk in ast.walk(f):
            for body in (getattr(blk, "body", None), getattr(blk, "orelse", None)):
                if not isinstance(body, list):
                    continue
                has_dump = any(isinstance(s_, (ast.Assign, ast.Expr)) and any(call_attr(c) == "_dump_conflicts" for c in calls_in(s_)) for s_ in body)
                if not has_dump:
                    continue
                ks = [c.args[0].elts[0].value for s_ in body if isinstance(s_, ast.Expr) for c in calls_in(s_) if call_attr(c) == "append" and "_raw_conflicts" in (call_recv(c) or "") and c.args and isinstance(c.args[0], ast.Tuple) and isinstance(c.args[0].elts[0], ast.Constant)]
                ver = any(isinstance(s_, ast.For) and any(call_attr(c) == "version_file" for c in calls_in(s_)) and any(isinstance(b, ast.Break) for b in ast.walk(s_)) for s_ in body)
                for k in ks:
                    kinds.add(k)
                    if ver:
                        first_versioned.add(k)
    ctx.require(len(kinds) >= 2, f"{MG}: conflict kinds raised next to _dump_conflicts not found ({sorted(kinds)})")
    n_cls = 0
    for rel in (BC, GW):
        mod = repo.module(rel)
        consts = {norm(s_.targets[0]): s_.value for s_ in mod.tree.body if isinstance(s_, ast.Assign) and len(s_.targets) == 1 and isinstance(s_.value, (ast.Tuple, ast.List))}
        for cname in mod.classes():
            cls = mod.classes()[cname]
            own = [b for b in cls.body if isinstance(b, ast.FunctionDef) and b.name == "associated_filenames"]
            ts = [const_value(b.value) for b in cls.body if isinstance(b, ast.Assign) and norm(b.targets[0]) == "typestring"]
            if not own or not ts or ts[0] not in kinds:
                continue
            listed = set()
            for n in ast.walk(own[0]):
                if isinstance(n, ast.comprehension):
                    it = consts.get(norm(n.iter), n.iter)
                    if isinstance(it, (ast.Tuple, ast.List)):
                        listed |= {e.value for e in it.elts if isinstance(e, ast.Constant) and isinstance(e.value, str)}
                if isinstance(n, ast.BinOp) and isinstance(n.op, ast.Add) and isinstance(n.right, ast.Constant) and isinstance(n.right.value, str):
                    listed.add(n.right.value)
            required = ["." + s_ for s_ in (order[1:] if ts[0] in first_versioned else order)]
            n_cls += 1
            for suf in required:
                ctx.check("conflict-helpers-listed", f"{rel}:{cname}.associated_filenames[{suf}]", suf in listed, f"{cname} ({ts[0]}) names its {suf} helper file (the merger writes {order}{', the first existing one becomes versioned' if ts[0] in first_versioned else ''})", construct=str(sorted(listed)), message=f"after a {ts[0]} the merger can leave `<path>{suf}` behind as an unversioned helper file, but {cname}.associated_filenames() lists only {sorted(listed)}: the recursive add does not recognise it as a conflict helper and versions it")
    ctx.require(n_cls >= 4, f"only {n_cls} conflict classes with helper files found (hand-confirmed: TextConflict and ContentsConflict, bzr and git)")


def _probe_guard(fn, try_node):
    """Names loaded by the `if` tests that enclose the nested-tree probe inside its walk loop, and the names those tests
    compare with the constant "directory" (the kind variable, whatever it is called)."""
    parents = {}
    for n in ast.walk(fn):
        for c in ast.iter_child_nodes(n):
            parents[id(c)] = n
    names, kinds = set(), set()
    cur = try_node
    while id(cur) in parents and not isinstance(parents[id(cur)], (ast.For, ast.While, ast.FunctionDef)):
        par = parents[id(cur)]
        if isinstance(par, ast.If):
            in_body = any(cur is x for x in par.body)
            names |= {n.id for n in ast.walk(par.test) if isinstance(n, ast.Name)}
            for cmp_ in ast.walk(par.test):
                if isinstance(cmp_, ast.Compare) and isinstance(cmp_.left, ast.Name) and any(isinstance(c_, ast.Constant) and c_.value == "directory" for c_ in cmp_.comparators):
                    kinds.add(cmp_.left.id)
            if not in_body:
                names.add("<else-branch>")
        cur = par
    return names, kinds


def run(ctx):
    repo = ctx.repo
    _helper_suffixes(ctx)
    # ---------------- bzr --------------------------------------------------------------
    fn = repo.func(BI, "_SmartAddHelper.add")
    where = f"{BI}:_SmartAddHelper.add"
    g = build_cfg(fn)
    ctx.fact(len(g.nodes))
    from ..astutil import bound_names, loop_targets, one

    # role binding: the walk's locals are found by what they hold, not by their names
    tta = one(bound_names(fn, lambda t, n: t.startswith("list(self._gather_dirs_to_add(")), "things_to_add = list(self._gather_dirs_to_add(user_dirs))", where)
    wt_ = one(loop_targets(fn, lambda t, n: t == tta), "loop over things_to_add", where)
    ctx.require(len(wt_) == 4, f"{where}: the walk does not unpack (directory, inv_path, this_ie, parent_ie)")
    v_dir, _v_inv, v_ie, _v_par = wt_
    ff = [s_ for s_ in walk_own(fn) if isinstance(s_, ast.Try) and any(call_attr(c) == "find_format" for c in calls_in(s_))]
    ctx.require(len(ff) == 1, f"{where}: try block around find_format not found")
    v_sub = one([norm(x.targets[0]) for x in ff[0].body if isinstance(x, ast.Assign) and norm(x.value) == "True"], "sub_tree = True after find_format", where)
    v_glob = one(bound_names(fn, lambda t, n: ".is_ignored(" in t), "ignore_glob = self.tree.is_ignored(subp)", where)
    v_subp = one(bound_names(fn, lambda t, n: t.startswith(f"osutils.pathjoin({v_dir}, ")), "subp = osutils.pathjoin(directory, subf)", where)
    walk = [n.id for n in g.nodes if n.kind == "for" and norm(n.ast.iter) == tta]
    ctx.require(len(walk) >= 1, f"{where}: loop over things_to_add not found")
    add = need(where, [i for i in calling(g, attr="_add_one_and_parent", recv="self") if set(g.loops_of(i)) & set(walk)], "_add_one_and_parent inside the recursive walk")
    listing = need(where, _listing_loops(g), "os.listdir loop")
    sched = [n.id for n in g.nodes if n.kind == "stmt" and any(call_attr(c) == "append" and call_recv(c) == tta and len(c.args) == 1 and isinstance(c.args[0], ast.Tuple) and norm(c.args[0].elts[2]) == "None" for c in n.calls())]
    need(where, sched, "things_to_add.append((subp, …, None, …))")
    all_sched = calling(g, attr="append", recv=tta)

    def unreachable(env, nodes):
        return not (set(nodes) & g.assume(env).reachable_from_entry())

    ctx.check("control-files-excluded", where, unreachable({f"self.tree.is_control_filename({v_subp})": True}, [s for s in all_sched if g.loops_of(s) and g.loops_of(s)[-1] in listing]), "a control file found while recursing is never scheduled")
    ctx.check("ignored-excluded", where, unreachable({f"{v_glob} is not None": True, f"{v_glob} is None": False}, sched), "an ignored unversioned path found while recursing is never scheduled")
    ign = need(where, calling(g, attr="is_ignored"), "is_ignored(...)")
    ctx.check("ignored-reported", where, any(call_attr(c) == "append" and "self.ignored" in norm(c) for c in calls_in(fn)), "ignored paths are reported back")
    ctx.check("named-paths-not-ignore-tested", where, all(g.loops_of(i) and g.loops_of(i)[-1] in listing for i in ign), "is_ignored is applied only to paths found by listing a directory, not to the paths the user named", message="explicitly named paths are subjected to the ignore test")
    ctx.check("nested-trees-excluded", where, unreachable({f"{v_ie} is not None": False, f"{v_ie} is None": True, v_sub: True, f"not {v_sub}": False}, add) and unreachable({v_sub: True, f"not {v_sub}": False}, listing), "a nested tree is neither added nor descended into")
    ok = any("NotBranchError" in norm(h.type) and any(norm(x) == f"{v_sub} = False" for x in h.body) for h in ff[0].handlers)
    ctx.check("nested-trees-excluded", where, ok, "sub_tree is true exactly when a control directory format is found at the path")
    pn, pk = _probe_guard(fn, ff[0])
    extra = sorted(pn - pk - {v_dir})
    ctx.check("nested-probe-for-every-directory", where, not extra, f"whether a directory is probed for a control directory depends only on its kind and on `{v_dir}` being the tree root", construct=str(extra), message=f"the nested-tree probe is skipped depending on {extra}: a directory that is a nested tree but is not probed (already versioned, named explicitly, ...) counts as an ordinary directory, the walk descends into it and versions the nested tree's files and its control directory")
    ctx.check("conflict-helpers-excluded", where, unreachable({f"{v_dir} in self.conflicts_related": True}, add), "a conflict helper file is never added")
    makers = [(q, f) for q, f in repo.module(BI).functions().items() if any(norm(c.func) == "_SmartAddHelper" for c in calls_in(f))]
    ctx.check("conflict-helpers-excluded", f"{BI}:{makers[0][0] if makers else '?'}", bool(makers) and all("c.associated_filenames()" in norm(f) and "conflicts_related" in norm(f) for q, f in makers), "the helper-file set handed to _SmartAddHelper is built from the conflicts' associated_filenames()")
    ctx.info("skip_file", where, "AddAction.skip_file consulted: " + str(any(call_attr(c) == "skip_file" for c in calls_in(fn))))

    # ---- the named directories that are walked -------------------------------------------------------
    fgd = repo.func(BI, "_SmartAddHelper._gather_dirs_to_add")
    wg = f"{BI}:_SmartAddHelper._gather_dirs_to_add"
    alias = {norm(s_.targets[0]): norm(s_.value) for s_ in walk_own(fgd) if isinstance(s_, ast.Assign) and isinstance(s_.value, ast.Attribute)}
    COMPONENT_AWARE = {"osutils.is_inside", "osutils.is_inside_any", "osutils.is_inside_or_parent_of_any"}
    ifs = [n for n in walk_own(fgd) if isinstance(n, ast.If) and any(isinstance(y, ast.Yield) for b in n.body for y in ast.walk(b))]
    ok = len(ifs) == 1
    detail = ""
    if ok:
        tcalls = [alias.get(norm(c.func), norm(c.func)) for c in calls_in(ifs[0].test)]
        detail = str(tcalls)
        ok = bool(tcalls) and set(tcalls) <= COMPONENT_AWARE and not any(isinstance(x, (ast.Subscript,)) for x in ast.walk(ifs[0].test))
    ctx.check("named-dirs-all-walked", wg, ok, "a named directory is left out of the walk only when a component-aware containment test (osutils.is_inside*) says it lies inside the previously yielded one", construct=detail, message=f"the containment test that drops a named directory from the walk is not component-aware ({detail}): with a string prefix test `dir2` counts as inside `dir` and is never added")
    ys = [n for n in walk_own(fgd) if isinstance(n, ast.Yield)]
    _lt = loop_targets(fgd, lambda t, n: t == "sorted(user_dirs)")
    _ub = [b for b in bound_names(fgd, lambda t, n: bool(_lt) and t == f"user_dirs[{_lt[0][0]}]") if isinstance(b, tuple) and len(b) == 2]
    ctx.check("named-dirs-all-walked", wg, len(ys) == 1 and len(_lt) == 1 and len(_ub) == 1 and norm(ys[0].value) == f"({_lt[0][0]}, {_ub[0][0]}, {_ub[0][1]}, None)", "what is yielded is the named directory's own entry")

    # ---- fourth round: the sources of the exclusion predicates are read afresh -------------------------------------------
    # (a) the user-wide ignore file is opened on every call (no process-wide copy that outlives an edit of the file)
    IGF = "breezy/ignores.py"
    fgu, ggu, wgu = None, None, f"{IGF}:get_user_ignores"
    fgu = repo.func(IGF, "get_user_ignores")
    ggu = build_cfg(fgu)
    opens = [n.id for n in ggu.nodes if any(call_name(c) in ("open", "io.open") or call_attr(c) in ("open", "get_bytes", "get") and "transport" in (call_recv(c) or "") for c in n.calls())]
    rets_gu = [n.id for n in ggu.nodes if n.kind == "stmt" and isinstance(n.ast, ast.Return)]
    early_gu = sorted(set(rets_gu) & ggu.without_exc_edges().reach([ggu.entry], avoid=set(opens), include_src=True))
    mod_cache = any(isinstance(n_, ast.Global) for n_ in ast.walk(fgu))
    ctx.check("user-ignores-read-afresh", wgu, bool(opens) and not early_gu and not mod_cache, "every path of get_user_ignores opens the ignore file before it returns", construct="; ".join(ggu.nodes[i].text()[:50] for i in early_gu), message="get_user_ignores can answer without opening the user's ignore file (a copy kept for the life of the process): a rule the user adds to the file by hand is not seen by a later recursive add in the same process, files matching it get versioned")
    # (b) the git tree's conflict list (the source of the helper-file set) is built from the raw index, conflicted entries of every shape
    fgc = repo.func(GW, "GitWorkingTree.conflicts")
    loops_gc = [l_ for l_ in ast.walk(fgc) if isinstance(l_, ast.For) and any("ConflictedIndexEntry" in norm(n_) for n_ in ast.walk(l_))]
    ctx.require(len(loops_gc) == 1, f"{GW}:GitWorkingTree.conflicts: loop over the index entries not found")
    raw = norm(loops_gc[0].iter) in ("self.index.iteritems()", "self.index.items()", "self.index")
    ctx.check("conflict-list-from-raw-index", f"{GW}:GitWorkingTree.conflicts", raw, "conflicts() walks the index itself (self.index.iteritems())", construct=norm(loops_gc[0].iter), message=f"GitWorkingTree.conflicts iterates {norm(loops_gc[0].iter)} instead of the raw index: a filtered walker hides conflicted entries of some shapes (a delete/modify conflict has no THIS side), conflicts() misses them, their <path>.BASE / .OTHER are not in the helper-file set and a recursive add versions them")
    # ---------------- git --------------------------------------------------------------
    fn = repo.func(GW, "GitWorkingTree.smart_add")
    where = f"{GW}:GitWorkingTree.smart_add"
    g = build_cfg(fn)
    ctx.fact(len(g.nodes))
    listing = need(where, _listing_loops(g), "os.listdir loop")
    in_listing = lambda i: bool(g.loops_of(i)) and g.loops_of(i)[-1] in listing
    # role binding
    ud_loops = [n for n in walk_own(fn) if isinstance(n, ast.For) and isinstance(n.target, ast.Name) and any(call_attr(c) == "find_format" for c in calls_in(n))]
    if not ud_loops and not any(call_attr(c) == "find_format" for c in calls_in(fn)):
        ctx.check("nested-probe-for-every-directory", where, False, "the directories to walk are probed with ControlDirFormat.find_format", message="GitWorkingTree.smart_add no longer asks the control-directory format registry (ControlDirFormat.find_format) whether a directory is a nested tree: a nested tree of another format (a bzr tree inside a git tree) is walked like an ordinary directory and its files and control directory are added to the index")
        return
    ctx.require(len(ud_loops) == 1, f"{where}: loop over the directories to walk not found")
    UD, v_ud = norm(ud_loops[0].iter), norm(ud_loops[0].target)
    v_subp = one(bound_names(fn, lambda t, n: t.startswith(f"os.path.join({v_ud}, ")), "subp = os.path.join(user_dir, name)", where)
    v_glob = one(bound_names(fn, lambda t, n: ".is_ignored(" in t), "ignore_glob = self.is_ignored(subp)", where)
    ffg = [s_ for s_ in walk_own(fn) if isinstance(s_, ast.Try) and any(call_attr(c) == "find_format" for c in calls_in(s_))]
    ctx.require(len(ffg) == 1, f"{where}: try block around find_format not found")
    v_sub = one([norm(x.targets[0]) for x in ffg[0].body if isinstance(x, ast.Assign) and norm(x.value) == "True"], "subtree = True after find_format", where)
    pn, pk = _probe_guard(fn, ffg[0])
    extra = sorted(pn - pk - {v_ud})
    ctx.check("nested-probe-for-every-directory", where, not extra, f"whether a directory is probed for a control directory depends only on `{v_ud}` being the tree root", construct=str(extra), message=f"the nested-tree probe of the git recursive add is skipped depending on {extra}: a nested tree that is not probed is walked and its files are added to the outer index")
    v_conf = one(sorted({call_recv(c) for c in calls_in(fn) if call_attr(c) == "update" and c.args and "associated_filenames()" in norm(c.args[0])}), "conflicts_related.update(c.associated_filenames())", where)
    rt = [r_.value for r_ in walk_own(fn) if isinstance(r_, ast.Return) and isinstance(r_.value, ast.Tuple) and len(r_.value.elts) == 2]
    ctx.require(len(rt) == 1, f"{where}: `return added, ignored` not found")
    v_added, v_ignored = (norm(e) for e in rt[0].elts)
    adds = [i for i in calling(g, attr="_index_add_entry") + calling(g, name="call_action") if in_listing(i)]
    dirs = [i for i in calling(g, attr="append", recv=UD) if in_listing(i)]
    need(where, adds, "_index_add_entry / call_action in the recursive walk")
    need(where, dirs, "user_dirs.append(subp)")

    def unreachable_g(env, nodes):
        return not (set(nodes) & g.assume(env).reachable_from_entry())

    ctl_tests = [norm(n.ast) for n in g.nodes if n.kind == "test" and f"is_control_filename({v_subp})" in norm(n.ast)]
    ctx.require(len(ctl_tests) == 1, f"{where}: control filename test not found")
    ctx.check("control-files-excluded", where, unreachable_g({ctl_tests[0]: True}, adds + dirs), "a control file found while recursing is neither added nor descended into", message="the git recursive add no longer skips control files (.git, .bzr)")
    ctx.check("ignored-excluded", where, unreachable_g({f"{v_glob} is not None": True, f"{v_glob} is None": False}, adds + dirs), "an ignored path found while recursing is neither added nor descended into")
    ign = need(where, calling(g, attr="is_ignored"), "is_ignored(...)")
    ctx.check("named-paths-not-ignore-tested", where, all(in_listing(i) for i in ign), "is_ignored is applied only to paths found by listing a directory", message="explicitly named paths are subjected to the ignore test")
    ctx.check("nested-trees-excluded", where, unreachable_g({v_sub: True, f"not {v_sub}": False}, listing), "a nested tree is not descended into")
    # every non-root directory that is about to be listed has been probed for a control directory first
    probe = need(where, calling(g, name="_mod_controldir.ControlDirFormat.find_format"), "ControlDirFormat.find_format(transport)")
    ud = [n.id for n in g.nodes if n.kind == "for" and n.ast is ud_loops[0]]
    ctx.require(len(ud) == 1, f"{where}: loop over user_dirs not found")
    g_nonroot = g.assume({f"{v_ud} != ''": True, f"{v_ud} == ''": False})
    # entering the try block whose body performs the probe counts as probing (the statements before the probe in
    # that body only build its argument)
    tries = [t for t in ast.walk(fn) if isinstance(t, ast.Try) and any(g.nodes[p_].lineno >= t.body[0].lineno and g.nodes[p_].lineno <= t.body[-1].end_lineno for p_ in probe)]
    ctx.require(len(tries) == 1, f"{where}: try block around the probe not found")
    probe = set(probe) | {n.id for n in g.nodes if n.lineno and tries[0].body[0].lineno <= n.lineno <= tries[0].body[-1].end_lineno}
    r = g_nonroot.reach([b for (b, l) in g_nonroot.succ[ud[0]] if l == "T"], avoid=set(probe), include_src=True)
    hit = sorted(set(listing) & r)
    ctx.check("nested-trees-excluded", where, not hit, "every directory other than the tree root is probed with ControlDirFormat.find_format before it is listed", message="a directory can be listed (and its content added) without having been probed for a nested control directory: nested trees of another format are swallowed into the outer tree", witness=g.show_path(g_nonroot.path([ud[0]], hit, avoid=set(probe))) if hit else None)
    falses = [n for n in g.nodes if n.kind == "stmt" and isinstance(n.ast, ast.Assign) and norm(n.ast.targets[0]) == v_sub and norm(n.ast.value) == "False"]
    from ..astutil import handler_types

    hs = [h for h in ast.walk(fn) if isinstance(h, ast.ExceptHandler)]
    def _in_handler(n):
        return any(h.lineno <= n.lineno <= h.end_lineno and set(t.split(".")[-1] for t in handler_types(h)) <= {"NotBranchError", "UnsupportedFormatError"} for h in hs)
    outside = [n.id for n in falses if not _in_handler(n)]
    ctx.check("nested-trees-excluded", where, not (set(outside) & g_nonroot.reachable_from_entry()), "for a non-root directory `subtree` becomes False only because the probe raised NotBranchError / UnsupportedFormatError")
    added_conf = [i for i in calling(g, attr="_index_add_entry") if in_listing(i)] + [i for i in calling(g, attr="append", recv=v_added) if in_listing(i)]
    ctx.check("conflict-helpers-excluded", where, unreachable_g({f"{v_subp} in {v_conf}": True, f"{v_subp} not in {v_conf}": False}, added_conf), "a conflict helper file is never added")
    ctx.check("conflict-helpers-excluded", where, "c.associated_filenames()" in norm(fn) and "self.conflicts()" in norm(fn), "the helper-file set is built from the conflicts' associated_filenames()")
    ctx.check("ignored-reported", where, any(call_attr(c) == "append" and f"{v_ignored}.setdefault" in norm(c) for c in calls_in(fn)), "ignored paths are reported back")


MUTANTS = [
    Mutant("nested-tree probe only for unversioned directories", BI, '            if kind == "directory" and directory != "":\n                try:\n', '            if kind == "directory" and directory != "" and this_ie is None:\n                try:\n', expect="nested-probe-for-every-directory"),
    Mutant("text conflict forgets its .THIS helper", BC, '        return [self.path + suffix for suffix in CONFLICT_SUFFIXES]\n', '        return [self.path + suffix for suffix in (".BASE", ".OTHER")]\n', expect="conflict-helpers-listed"),
    Mutant("bzr: named directories dropped by string prefix", BI, "            if prev_dir is None or not is_inside([prev_dir], path):", "            if prev_dir is None or not path.startswith(prev_dir):", expect="named-dirs-all-walked"),
    Mutant("git: nested-tree probe only when .git exists", GW, "                if user_dir != \"\":\n                    try:\n                        transport = _mod_transport", "                if user_dir != \"\" and os.path.lexists(os.path.join(abs_user_dir, \".git\")):\n                    try:\n                        transport = _mod_transport", expect="nested-trees-excluded"),
    Mutant("neutral: containment helper called without the alias", BI, "            if prev_dir is None or not is_inside([prev_dir], path):", "            if prev_dir is None or not osutils.is_inside_or_parent_of_any([prev_dir], path):", neutral=True),
    Mutant("git: control filename test dropped", GW, "                    if self.is_control_filename(subp) or self.mapping.is_special_file(\n                        subp\n                    ):\n                        continue\n", "                    if self.mapping.is_special_file(subp):\n                        continue\n", expect="ANALYSIS-ERROR"),
    Mutant("git: ignore test applied to user-named paths", GW, "                abspath = self.abspath(filepath)\n                kind = file_kind(abspath)\n                if kind in (\"file\", \"symlink\"):", "                abspath = self.abspath(filepath)\n                if self.is_ignored(filepath) is not None:\n                    continue\n                kind = file_kind(abspath)\n                if kind in (\"file\", \"symlink\"):", expect="named-paths-not-ignore-tested"),
    Mutant("bzr: conflict helper files added", BI, "            if directory in self.conflicts_related:", "            if False and directory in self.conflicts_related:", expect="conflict-helpers-excluded"),
    Mutant("bzr: nested tree descended into", BI, "            if kind == \"directory\" and not sub_tree:\n                if this_ie.kind != \"directory\":", "            if kind == \"directory\":\n                if this_ie.kind != \"directory\":", expect="nested-trees-excluded"),
    Mutant("git: ignored files added anyway", GW, "                        ignored.setdefault(ignore_glob, []).append(subp)\n                        continue\n", "                        ignored.setdefault(ignore_glob, []).append(subp)\n", expect="ignored-excluded"),
    Mutant("neutral: message text changed", BI, "                    \"skipping %s (generated to help resolve conflicts)\", abspath", "                    \"skipping %s (conflict helper file)\", abspath", neutral=True),
]
