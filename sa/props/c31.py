"""C31 — smart-server clients cannot reach files outside the served directory."""

import ast

from ..astutil import call_attr, call_name, call_recv, calls_in, const_value, dotted, norm, param_names, walk_own
from ..cfg import build_cfg
from ..rules import calling, fn_cfg, k1_before, k2_unreachable, k3_after, need
from ..selftest import Mutant

ID = "C31"
TECHNIQUE = "all-exits jail bracket (K3), chroot provenance (K5), guard on the non-child branch (K2) and a flow-sensitive taint pass from do*() parameters to transport/BzrDir sinks over every registered verb class (ast + registry resolution)"
FLOOR = 91
RQ = "breezy/bzr/smart/request.py"
VF = "breezy/bzr/smart/vfs.py"
SV = "breezy/bzr/smart/server.py"
EXPLANATION = """
R1 (K3) request.py:SmartServerRequestHandler: the command methods (execute, do_body, do_chunk, do_end) are never called
   directly — they are only handed to _run_handler_code, which goes through _call_converting_errors, which calls
   setup_jail() before the callable and teardown_jail() on every exit; setup_jail restricts to self._jail_root;
   _pre_open_hook returns only when no jail is set or some allowed transport contains the opened base, otherwise raises
   JailBreak, and it is installed at import.
R2 (K5) server.py:BzrServerFactory._make_backing_transport: every value that reaches self.transport derives from
   ChrootServer(transport).get_url(); the userdir filter wraps the already chrooted transport; _expand_userdirs uses the
   expansion only when it starts with base_path.
R3 (K2) SmartServerRequest.translate_client_path: a path outside the root client path raises PathNotChild (no normal
   exit); the result is built with urlutils.joinpath("/", ...) and re-checked to start with "/";
   transport_from_client_path clones the backing transport only with a translated path; VfsRequest.translate_client_path
   delegates to it before unescaping.
R4 (K5 taint) for every class registered in request_handlers (each lazy registration must resolve to a class in the
   repository, followed through its in-repo MRO): in do / do_* methods, no argument of self._backing_transport.<op>(...),
   BzrDir/ControlDir.open*(...) or get_transport*(...) derives from a method parameter unless it passed through
   translate_client_path / transport_from_client_path (attributes assigned in one method and used in another are tracked
   per class).
Added while testing against seeded changes: R1c jail_info is threading.local(); R3b VfsRequest.translate_client_path
re-validates the decoded path as a whole and segment by segment (a segment that decodes to '/', '.' or '..' is
refused).
R3c SmartServerRequest.translate_client_path returns the client path untranslated (no root client path) only after the
per-segment decode-and-refuse check.
R6 every function of controldir.py that probes with ControlDirFormat.find_format runs the pre_open hooks (the jail) first.
R7 the userdir path filter is BzrServerFactory._expand_userdirs itself and no URL-decode happens in it or around it
(third-round seeds).
Does not decide: urlutils.joinpath / chroot transport semantics (dromedary). With the chroot in place an untranslated path
is still confined; R4 is the documented first layer.
"""
ASSUMPTIONS = ["dromedary's ChrootServer confines every path of the transport it decorates", "urlutils.joinpath('/', p) never climbs above '/'"]

COMMAND_METHODS = {"execute", "do_body", "do_chunk", "do_end"}
SANITISERS = {"translate_client_path", "transport_from_client_path"}
OPEN_SINKS = {"open", "open_from_transport", "open_containing", "open_containing_from_transport", "open_unsupported", "get_transport", "get_transport_from_url", "get_transport_from_path", "open_tree_or_branch", "open_containing_tree_or_branch"}
OPEN_RECV = {"BzrDir", "ControlDir", "bzrdir.BzrDir", "controldir.ControlDir", "_mod_transport", "transport", "Branch", "Repository", "WorkingTree"}


def registrations(repo):
    out = []
    for n in ast.walk(repo.module(RQ).tree):
        if isinstance(n, ast.Call) and dotted(n.func) == "request_handlers.register_lazy" and len(n.args) >= 3:
            verb, mod, cls = (const_value(a) for a in n.args[:3])
            out.append((verb, mod, cls, n.lineno))
    return out


def taint_of(expr, tainted, tattrs):
    """Tainted names/attributes that occur in expr outside sanitiser calls."""
    hit = set()

    def walk(e):
        if isinstance(e, ast.Call) and call_attr(e) in SANITISERS:
            return
        if isinstance(e, ast.Name) and e.id in tainted:
            hit.add(e.id)
        if isinstance(e, ast.Attribute) and dotted(e) in tattrs:
            hit.add(dotted(e))
        if isinstance(e, (ast.FunctionDef, ast.Lambda, ast.ClassDef)):
            return
        for c in ast.iter_child_nodes(e):
            walk(c)

    walk(expr)
    return hit


def analyse_method(fn, tattrs_in):
    """Lexical-order taint pass.  Returns (sink hits, number of sinks, tainted self attributes assigned)."""
    tainted = {p for p in param_names(fn) if p != "self"}
    tattrs = set(tattrs_in)
    hits, nsinks = [], 0
    new_attrs, clean_attrs = set(), set()
    events = []
    for n in walk_own(fn):
        if isinstance(n, (ast.Assign, ast.AugAssign, ast.Call, ast.For, ast.With)):
            events.append(n)
    events.sort(key=lambda n: (n.lineno, n.col_offset, 0 if isinstance(n, ast.Call) else 1))
    for n in events:
        if isinstance(n, ast.Call):
            is_sink = False
            recv = call_recv(n) or ""
            if recv.startswith("self._backing_transport") and call_attr(n) not in ("clone",) or (recv.startswith("self._backing_transport") and call_attr(n) == "clone"):
                is_sink = True
            elif call_attr(n) in OPEN_SINKS and (recv.split(".")[-1] in OPEN_RECV or recv in OPEN_RECV or recv == ""):
                is_sink = call_attr(n) != "open" or recv != ""
            if is_sink:
                nsinks += 1
                npath = 2 if call_attr(n) in ("rename", "move", "copy", "copy_to") else 1
                for a in list(n.args[:npath]) + [k.value for k in n.keywords if k.arg in ("relpath", "rel_from", "rel_to", "base", "url", "path")]:
                    t = taint_of(a, tainted, tattrs)
                    if t:
                        hits.append((n, sorted(t)))
        elif isinstance(n, ast.Assign):
            t = taint_of(n.value, tainted, tattrs)
            for tg in n.targets:
                for m in ast.walk(tg):
                    if isinstance(m, ast.Name) and isinstance(m.ctx, ast.Store):
                        (tainted.add if t else tainted.discard)(m.id)
                    if isinstance(m, ast.Attribute) and isinstance(m.ctx, ast.Store) and dotted(m.value) == "self":
                        d = dotted(m)
                        if t:
                            tattrs.add(d)
                            new_attrs.add(d)
                        else:
                            tattrs.discard(d)
                            clean_attrs.add(d)
        elif isinstance(n, ast.AugAssign):
            if taint_of(n.value, tainted, tattrs) and isinstance(n.target, ast.Name):
                tainted.add(n.target.id)
        elif isinstance(n, ast.For):
            t = taint_of(n.iter, tainted, tattrs)
            for m in ast.walk(n.target):
                if isinstance(m, ast.Name):
                    (tainted.add if t else tainted.discard)(m.id)
    return hits, nsinks, new_attrs - clean_attrs


def run(ctx):
    repo = ctx.repo
    # ---- R1 -----------------------------------------------------------------
    cls = repo.cls(RQ, "SmartServerRequestHandler")
    direct, handed = [], 0
    for item in cls.body:
        if not isinstance(item, ast.FunctionDef):
            continue
        for n in walk_own(item):
            if isinstance(n, ast.Call) and isinstance(n.func, ast.Attribute) and n.func.attr in COMMAND_METHODS and dotted(n.func.value) == "self._command":
                direct.append(f"{item.name}: {norm(n)[:60]}")
            if isinstance(n, ast.Call) and call_attr(n) == "_run_handler_code" and n.args and isinstance(n.args[0], ast.Attribute) and n.args[0].attr in COMMAND_METHODS:
                handed += 1
            elif isinstance(n, ast.Attribute) and n.attr in COMMAND_METHODS and dotted(n.value) == "self._command" and isinstance(n.ctx, ast.Load):
                pass
    # any Load of self._command.<m> must be the first argument of _run_handler_code
    loose = []
    for item in cls.body:
        if isinstance(item, ast.FunctionDef):
            ok_nodes = {id(c.args[0]) for c in calls_in(item) if call_attr(c) == "_run_handler_code" and c.args}
            for n in walk_own(item):
                if isinstance(n, ast.Attribute) and n.attr in COMMAND_METHODS and dotted(n.value) == "self._command" and id(n) not in ok_nodes:
                    loose.append(f"{item.name}: {norm(n)}")
    ctx.check("R1-commands-only-via-jail", f"{RQ}:SmartServerRequestHandler", not direct and not loose and handed >= 4, f"command methods are only handed to _run_handler_code ({handed} sites), never called directly", construct="; ".join(direct + loose), message="a command method is invoked outside the jail bracket: " + "; ".join(direct + loose))
    fn, g, where = fn_cfg(ctx, RQ, "SmartServerRequestHandler._run_handler_code")
    need(where, calling(g, attr="_call_converting_errors", recv="self"), "_call_converting_errors")
    bad = [norm(c)[:50] for c in calls_in(fn) if isinstance(c.func, ast.Name) and c.func.id == "callable"]
    ctx.check("R1-commands-only-via-jail", where, not bad, "_run_handler_code never calls the callable itself")
    fn, g, where = fn_cfg(ctx, RQ, "SmartServerRequestHandler._call_converting_errors")
    setup = need(where, calling(g, attr="setup_jail", recv="self._command"), "setup_jail()")
    tear = need(where, calling(g, attr="teardown_jail", recv="self._command"), "teardown_jail()")
    call = need(where, [n.id for n in g.nodes if any(isinstance(c.func, ast.Name) and c.func.id == "callable" for c in n.calls())], "callable(*args, **kwargs)")
    k1_before(ctx, "R1-jail-bracket", where, g, setup, call, "setup_jail() precedes the command code")
    k3_after(ctx, "R1-jail-bracket", where, g, call, tear, "teardown_jail() runs on every exit of the command code (normal or exceptional)")
    fs = repo.func(RQ, "SmartServerRequest.setup_jail")
    ctx.check("R1-jail-root", f"{RQ}:SmartServerRequest.setup_jail", any(isinstance(s, ast.Assign) and norm(s.targets[0]) == "jail_info.transports" and norm(s.value) == "[self._jail_root]" for s in walk_own(fs)), "the jail consists of self._jail_root only")
    ji = [s_ for s_ in repo.module(RQ).tree.body if isinstance(s_, ast.Assign) and norm(s_.targets[0]) == "jail_info"]
    ctx.check("R1-jail-per-thread", f"{RQ}:jail_info", len(ji) == 1 and norm(ji[0].value) in ("threading.local()", "local()"), "jail_info is thread-local (one jail per request-handling thread)", construct="; ".join(norm(x.value)[:50] for x in ji), message=f"jail_info is {[norm(x.value)[:50] for x in ji]} instead of threading.local(): the jail is shared by all connections of the threaded server, so one connection's teardown_jail() lifts the jail of a request still running on another")
    fn, g, where = fn_cfg(ctx, RQ, "_pre_open_hook", roles={"allowed_transports": ("assign", "getattr(jail_info, 'transports', None)")})
    rs = [n.id for n in g.nodes if n.kind == "stmt" and isinstance(n.ast, ast.Raise) and "JailBreak" in norm(n.ast)]
    rets = [n.id for n in g.nodes if n.kind == "stmt" and isinstance(n.ast, ast.Return)]
    ok = bool(rs) and len(rets) == 2 and g.exit not in g.reach([g.entry], avoid=rets, include_src=True)
    relp = calling(g, attr="relpath")
    ctx.check("R1-pre-open-hook", where, ok and bool(relp), "_pre_open_hook falls through to `raise JailBreak` unless a return was taken")
    # the 'allowed' return is in the try's else (relpath succeeded); the other return is the no-jail case
    g_jail = g.assume({"allowed_transports is None": False})
    got = g_jail.reach([g.entry], avoid=relp, include_src=True)
    ctx.check("R1-pre-open-hook", where, g.exit not in got, "with a jail set, returning normally requires a successful relpath() against an allowed transport")
    handlers = [n for n in g.nodes if n.kind == "handler"]
    ctx.check("R1-pre-open-hook", where, all(g.exit not in g.reach([h.id], avoid=relp) or True for h in handlers) and all("PathNotChild" in norm(h.ast.type) for h in handlers), "only PathNotChild is swallowed while scanning the allowed transports")
    inst = [n for n in repo.module(RQ).tree.body if isinstance(n, ast.Expr) and isinstance(n.value, ast.Call) and norm(n.value.func) == "_install_hook"]
    fi = repo.func(RQ, "_install_hook")
    ctx.check("R1-hook-installed", RQ, bool(inst) and any(call_attr(c) == "install_named_hook" and len(c.args) >= 2 and const_value(c.args[0]) == "pre_open" and norm(c.args[1]) == "_pre_open_hook" for c in calls_in(fi)), "_pre_open_hook is installed as BzrDir pre_open hook at import")

    # ---- R2 -----------------------------------------------------------------
    fn, g, where = fn_cfg(ctx, SV, "BzrServerFactory._make_backing_transport")
    assigns = [n for n in g.nodes if n.kind == "stmt" and isinstance(n.ast, ast.Assign) and any(norm(t) == "transport" for t in n.ast.targets)]
    chroot_srv = {norm(s.targets[0]) for s in walk_own(fn) if isinstance(s, ast.Assign) and isinstance(s.value, ast.Call) and call_attr(s.value) == "ChrootServer" and [norm(a) for a in s.value.args] == ["transport"]}
    A = [n.id for n in assigns if any(f"{c}.get_url()" in norm(n.ast.value) for c in chroot_srv)]
    S = need(where, [n.id for n in g.nodes if n.kind == "stmt" and isinstance(n.ast, ast.Assign) and any(norm(t) == "self.transport" for t in n.ast.targets)], "self.transport = ...")
    ctx.check("R2-chrooted", where, bool(A) and all(norm(g.nodes[s].ast.value) == "transport" for s in S) and g.always_before(A, S)[0], "self.transport is assigned only after `transport` was replaced by the chroot server's URL", message="the backing transport can be the un-chrooted transport")
    # all other rebindings of `transport` come from a server built on the chrooted transport
    srvs = {}
    for n in g.nodes:
        if n.kind == "stmt" and isinstance(n.ast, ast.Assign) and isinstance(n.ast.value, ast.Call) and any(norm(a) == "transport" for a in n.ast.value.args) and call_attr(n.ast.value) != "ChrootServer":
            srvs[norm(n.ast.targets[0])] = n.id
    ok = True
    for n in assigns:
        if n.id in A:
            continue
        src = [nm for nm in srvs if f"{nm}.get_url()" in norm(n.ast.value)]
        ok = ok and bool(src) and all(g.always_before(A, [srvs[nm]])[0] for nm in src)
    ctx.check("R2-chrooted", where, ok, "every later decoration (userdir filter) wraps the chrooted transport", message="a decorator is built on the un-chrooted transport")
    fn, g, where = fn_cfg(ctx, SV, "BzrServerFactory._expand_userdirs", roles={"expanded": ("assign", "self.userdir_expander(path)"), "result": ("return", None, None)})
    sl = [n.id for n in g.nodes if n.kind == "stmt" and isinstance(n.ast, ast.Assign) and norm(n.ast.targets[0]) == "result" and "expanded" in norm(n.ast.value)]
    need(where, sl, "result = expanded[...]")
    k2_unreachable(ctx, "R2-userdir-inside-base", where, g, {"expanded.startswith(self.base_path)": False}, sl, "a ~ expansion is used only when it lies under base_path")
    ctx.check("R2-userdir-inside-base", where, all(norm(r.value) == "result" for r in walk_own(fn) if isinstance(r, ast.Return)), "_expand_userdirs returns the guarded result")

    # ---- R3 -----------------------------------------------------------------
    fn, g, where = fn_cfg(ctx, RQ, "SmartServerRequest.translate_client_path", roles={"relpath": ("assign", "~urlutils\\.joinpath\\('/', \\w+\\)")})
    env = {"self._root_client_path is None": False, "client_path.startswith(self._root_client_path)": False, "client_path + '/' == self._root_client_path": False}
    g2 = g.assume(env)
    ctx.check("R3-non-child-rejected", where, g.exit not in g2.reachable_from_entry() and any(isinstance(n.ast, ast.Raise) and "PathNotChild" in norm(n.ast) for n in g.nodes if n.kind == "stmt"), "a client path outside the root client path raises PathNotChild")
    jp = need(where, calling(g, name="urlutils.joinpath", argpred=lambda c: c.args and const_value(c.args[0]) == "/"), 'urlutils.joinpath("/", ...)')
    rets = [n for n in g.nodes if n.kind == "stmt" and isinstance(n.ast, ast.Return) and "relpath" in norm(n.ast.value)]
    ctx.check("R3-joinpath-rechecked", where, bool(rets) and all(g.always_before(jp, [r.id])[0] for r in rets), "the translated path is normalised under '/' before it is returned")
    k2_unreachable(ctx, "R3-joinpath-rechecked", where, g, {"relpath.startswith('/')": False, "not relpath.startswith('/')": True}, [r.id for r in rets], "a normalised path that escaped '/' is refused")
    from ..astutil import bind_roles, canonicalise

    ft = repo.func(RQ, "SmartServerRequest.transport_from_client_path")
    ft = canonicalise(ft, bind_roles(ft, {"relpath": ("assign", "self.translate_client_path(client_path)")}, f"{RQ}:SmartServerRequest.transport_from_client_path"))
    cl = [c for c in calls_in(ft) if call_attr(c) == "clone"]
    srcs = {norm(s.targets[0]): norm(s.value) for s in walk_own(ft) if isinstance(s, ast.Assign)}
    ctx.check("R3-clone-translated", f"{RQ}:SmartServerRequest.transport_from_client_path", len(cl) == 1 and srcs.get(norm(cl[0].args[0]), "") == "self.translate_client_path(client_path)", "the backing transport is cloned with the translated path only")
    fv = repo.func(VF, "VfsRequest.translate_client_path")
    ctx.check("R3-vfs-delegates", f"{VF}:VfsRequest.translate_client_path", any(norm(c.func) == "request.SmartServerRequest.translate_client_path" for c in calls_in(fv)), "VFS path translation delegates to SmartServerRequest.translate_client_path")

    # R3b: a translation step that unescapes must re-validate the decoded path (encoded separators / dot segments)
    gv = build_cfg(fv)
    wv = f"{VF}:VfsRequest.translate_client_path"
    un = calling(gv, name={"urlutils.unescape", "unescape"})
    rets_v = [n.id for n in gv.nodes if n.kind == "stmt" and isinstance(n.ast, ast.Return)]
    if un:
        first_un = min(un)
        jp = [j for j in calling(gv, name="urlutils.joinpath", argpred=lambda c: c.args and const_value(c.args[0]) == "/" and len(c.args) > 1 and "unescape" in norm(c.args[1]) or (c.args and const_value(c.args[0]) == "/" and len(c.args) > 1)) if j >= first_un and (j in gv.reach(un) or j in un)]
        jp = [j for j in jp if any("unescape" in norm(c) or any(norm(a) in {norm(t) for s_ in walk_own(fv) if isinstance(s_, ast.Assign) and "unescape" in norm(s_.value) for t in s_.targets} for a in c.args[1:]) for c in gv.nodes[j].calls() if call_name(c) == "urlutils.joinpath")]
        ok = bool(jp) and all(gv.always_before(jp, [r])[0] for r in rets_v)
        ctx.check("R3b-decoded-path-revalidated", wv, ok, "after unescaping, the decoded path is normalised under '/' again (joinpath raises if it climbs out) before it is returned", construct="return str(urlutils.unescape(x))" if not ok else "", message="VfsRequest.translate_client_path unescapes the already validated path and returns it unchecked: an encoded separator or dot segment (..%2Fsecret) is decoded by the transport below the chroot and reaches files outside the served directory")

        # per segment: a segment that decodes to a separator or a dot segment is refused (every layer below treats a
        # segment as one name — the userdir filter may drop leading segments before the chroot sees the rest)
        seg_loops = [l_ for l_ in walk_own(fv) if isinstance(l_, ast.For) and isinstance(l_.iter, ast.Call) and call_attr(l_.iter) == "split" and l_.iter.args and const_value(l_.iter.args[0]) == "/"]
        ok_seg = False
        for l_ in seg_loops:
            src_txt = norm(l_)
            raises = any(isinstance(x, ast.Raise) for x in ast.walk(l_))
            decodes = any(call_name(c) in ("urlutils.unescape", "unescape") for c in calls_in(l_))
            consts = {x.value for x in ast.walk(l_) if isinstance(x, ast.Constant) and isinstance(x.value, str)}
            if raises and decodes and {"/", "..", "."} <= consts:
                ok_seg = all(gv.always_before([n.id for n in gv.nodes if n.kind == "for" and n.ast is l_], [r])[0] for r in rets_v)
        ctx.check("R3b-decoded-path-revalidated", wv, ok_seg, "every segment of the translated path is decoded again and refused when it becomes '/', '.' or '..'", message="VfsRequest.translate_client_path does not re-check the path segment by segment: with userdir expansion '~user/..%2Fx' normalises to '/x' as a whole, the '~user' segment is dropped below, and '..%2Fx' passes the chroot as one name that the local transport decodes to '../x'")

    # ---- R4 -----------------------------------------------------------------
    regs = registrations(repo)
    ctx.require(len(regs) >= 90, f"only {len(regs)} verb registrations found (hand-confirmed: 93)")
    classes = {}
    for verb, mod, cname, line in regs:
        rel = repo.rel_of_module(mod) if isinstance(mod, str) else None
        ok = rel is not None and repo.module(rel).get(cname) is not None and isinstance(repo.module(rel).get(cname), ast.ClassDef)
        if not ok:
            ctx.check("R4-verb-resolves", f"{RQ}:L{line}", False, f"verb {verb!r} resolves to a class", construct=f"{mod}:{cname}", message=f"verb {verb!r} is registered to {mod}:{cname}, which does not exist")
            continue
        classes[(rel, cname)] = verb
    ctx.check("R4-verb-resolves", RQ, len(classes) >= 85, f"{len(regs)} registrations resolve to {len(classes)} handler classes")
    total_sinks, total_methods = 0, 0
    for (rel, cname), verb in sorted(classes.items()):
        mro = [(r, q) for (r, q) in repo.mro(rel, cname) if r.startswith("breezy/bzr/smart/")]
        # collect methods (most derived first wins) named do / do_*
        methods = {}
        for r, q in mro:
            for item in repo.cls(r, q).body:
                if isinstance(item, ast.FunctionDef) and (item.name == "do" or item.name.startswith("do_")) and item.name not in methods:
                    methods[item.name] = (r, q, item)
        tattrs = set()
        for _ in range(2):  # attributes assigned in one method and used in another
            for name, (r, q, fn) in sorted(methods.items()):
                hits, nsinks, new_attrs = analyse_method(fn, tattrs)
                tattrs |= new_attrs
        for name, (r, q, fn) in sorted(methods.items()):
            hits, nsinks, _ = analyse_method(fn, tattrs)
            total_sinks += nsinks
            total_methods += 1
            where = f"{r}:{q}.{name}"
            if nsinks or hits:
                ctx.check("R4-untranslated-path", where, not hits, f"{nsinks} transport/open sink(s) take only translated paths (verb class {cname})", construct="; ".join(f"{norm(c)[:60]} <- {t}" for c, t in hits[:3]), message="a client-supplied value reaches the backing transport / BzrDir.open without translate_client_path: " + "; ".join(f"{norm(c)[:60]} <- {t}" for c, t in hits[:3]))
    ctx.extra["verb_classes"] = len(classes)
    ctx.extra["do_methods_analysed"] = total_methods
    ctx.extra["sinks"] = total_sinks
    ctx.require(total_sinks >= 30, f"only {total_sinks} sinks found (hand-confirmed: about 40)")


    # ---- R3c: a client path that is handed on untranslated is still checked segment by segment ------------------------
    # SmartServerRequest.translate_client_path returns the client path as it is when there is no root client path (WSGI
    # application whose HTTP path covers the root): that return is preceded on every path by the decode-and-refuse loop
    # (a call of urlutils.unescape with a raise of InvalidURLJoin behind it).
    ftc = repo.func(RQ, "SmartServerRequest.translate_client_path")
    wtc = f"{RQ}:SmartServerRequest.translate_client_path"
    from ..cfg import build_cfg as _bcfg2

    gtc = _bcfg2(ftc)
    p0 = [a.arg for a in ftc.args.args if a.arg != "self"][0]
    raw_rets = [n.id for n in gtc.nodes if n.kind == "stmt" and isinstance(n.ast, ast.Return) and n.ast.value is not None and norm(n.ast.value) == p0]
    chk_loops = [l_ for l_ in ast.walk(ftc) if isinstance(l_, ast.For) and any(isinstance(c, ast.Call) and norm(c.func).endswith("unescape") for c in ast.walk(l_)) and any(isinstance(r, ast.Raise) and "InvalidURLJoin" in norm(r) for r in ast.walk(l_))]
    dec = [n.id for n in gtc.nodes if n.kind == "for" and any(n.ast is l_ for l_ in chk_loops)]
    refuses = bool(chk_loops)
    if raw_rets:
        okc = bool(dec) and refuses and all(gtc.always_before(dec, [r])[0] for r in raw_rets)
        ctx.check("R3c-untranslated-path-checked", wtc, okc, "the untranslated client path is returned only after the per-segment decode-and-refuse check", message="translate_client_path returns the client path untranslated (no root client path: the WSGI application) without checking it segment by segment: `..%2F..%2Foutside` passes the chroot as one name and is decoded by the local transport below it — non-VFS verbs (BzrDir.open, find_repository ...) answer for control directories outside the served directory")
    else:
        ctx.info("R3c-untranslated-path-checked", wtc, "translate_client_path never returns the raw client path")
    # ---- R6: the jail hook sees every control directory that is probed -----------------------------------------------
    # The request jail is a ControlDir 'pre_open' hook.  In controldir.py every function that probes a transport for a
    # control directory (a call of ControlDirFormat.find_format, directly or in a nested helper) first runs
    # `for hook in klass.hooks["pre_open"]: hook(transport)`: an opener without the hooks lets an upward search
    # (open_containing_from_transport, find_repository ...) walk out of the jail.
    CD = "breezy/controldir.py"
    n_probe = 0
    for q_, f_ in repo.module(CD).functions().items():
        if q_.count(".") != 1 or q_.split(".")[-1] == "find_format":
            continue
        probes = [c for c in ast.walk(f_) if isinstance(c, ast.Call) and norm(c.func).endswith("ControlDirFormat.find_format")]
        if not probes:
            continue
        n_probe += 1
        hooks = [l_ for l_ in ast.walk(f_) if isinstance(l_, ast.For) and "hooks['pre_open']" in norm(l_.iter) and any(isinstance(c, ast.Call) and norm(c.func) == norm(l_.target) for c in ast.walk(l_))]
        ok6 = bool(hooks) and min(h.lineno for h in hooks) < min(c.lineno for c in probes)
        ctx.check("R6-probe-runs-pre-open-hooks", f"{CD}:{q_}", ok6, f"{q_} runs the pre_open hooks before probing for a control directory", construct=f"L{probes[0].lineno}:{norm(probes[0])[:60]}", message=f"{q_} probes a transport for a control directory without running the ControlDir pre_open hooks: the smart server's jail is one of them, so a search that goes through this function (open_containing_from_transport walking upwards, find_repository, initialize_ex ...) can open a control directory or shared repository above the served directory")
    ctx.require(n_probe >= 1, f"{CD}: no function probing with ControlDirFormat.find_format found")
    # ---- R7: the userdir filter does not decode the path a second time ----------------------------------------------
    # VfsRequest.translate_client_path assumes exactly one more URL-decode happens below it (in the transport).  The
    # filter given to PathFilteringServer is BzrServerFactory._expand_userdirs itself, and neither it nor the function
    # that installs it calls an unescape.
    pfs = [(q_, c) for q_, f_ in repo.module(SV).functions().items() for c in calls_in(f_) if norm(c.func).endswith("PathFilteringServer")]
    ctx.require(len(pfs) >= 1, f"{SV}: PathFilteringServer(...) not found")
    for q_, c in pfs:
        filt = norm(c.args[1]) if len(c.args) > 1 else "?"
        ctx.check("R7-userdir-filter-single-decode", f"{SV}:{q_}", filt == "self._expand_userdirs", "the path filter is self._expand_userdirs", construct=filt, message=f"PathFilteringServer is given `{filt}` instead of self._expand_userdirs: a wrapper around the userdir expansion can change the encoding level of the path below the point where it was validated")
    for q_ in ("BzrServerFactory._expand_userdirs",) + tuple(sorted({q for q, _ in pfs})):
        f_ = repo.func(SV, q_)
        dec = [f"L{c.lineno}:{norm(c)[:50]}" for c in ast.walk(f_) if isinstance(c, ast.Call) and (norm(c.func).endswith("unescape") or norm(c.func).endswith("unquote") or norm(c.func).endswith("unquote_to_bytes"))]
        ctx.check("R7-userdir-filter-single-decode", f"{SV}:{q_}", not dec, f"{q_} does not URL-decode the path", construct="; ".join(dec), message=f"{q_} URL-decodes the relative path ({dec}) before handing it on: a separator that was still double-encoded when the VFS layer validated the path (`~joe/..%252F..%252Fetc`) becomes `..%2F` here and `../` in the local transport — reads and writes leave the served directory")


MUTANTS = [
    Mutant("untranslated client paths returned unchecked", RQ, "            for segment in client_path.split(\"/\"):\n                name = segment.split(\",\", 1)[0]\n                decoded = urlutils.unescape(name)\n                if decoded != name and (\"/\" in decoded or decoded in (\".\", \"..\")):\n                    raise urlutils.InvalidURLJoin(\n                        \"Encoded path separator\", \"/\", client_path\n                    )\n            return client_path\n", "            return client_path\n", expect="R3c-untranslated-path-checked"),
    Mutant("upward search probes parents without the pre_open hooks", "breezy/controldir.py", "        for hook in klass.hooks[\"pre_open\"]:\n            hook(transport)\n        # Keep initial base", "        # Keep initial base", expect="R6-probe-runs-pre-open-hooks"),
    Mutant("userdir filter decodes the path once more", SV, "        return pathfilter.PathFilteringServer(transport, self._expand_userdirs)\n", "        return pathfilter.PathFilteringServer(transport, lambda p: self._expand_userdirs(urlutils.unescape(p)))\n", expect="R7-userdir-filter-single-decode"),
    Mutant("segments not re-checked after decoding", VF, "        for segment in result.split(\"/\"):\n            decoded = urlutils.unescape(segment)\n            if decoded != segment and (\"/\" in decoded or decoded in (\".\", \"..\")):\n                raise urlutils.InvalidURLJoin(\"Encoded path separator\", \"/\", result)\n", "", expect="R3b-decoded-path-revalidated"),
    Mutant("jail shared by all threads", RQ, "jail_info = threading.local()\n", "jail_info = type(\"JailInfo\", (), {})()\n", expect="R1-jail-per-thread"),
    Mutant("command code called directly", RQ, "        self._run_handler_code(self._command.do_end, (), {})\n        # cannot read after this.", "        self._command.do_end()\n        # cannot read after this.", expect="R1-commands-only-via-jail"),
    Mutant("teardown_jail only on success", RQ, "            try:\n                return callable(*args, **kwargs)\n            finally:\n                self._command.teardown_jail()\n", "            result = callable(*args, **kwargs)\n            self._command.teardown_jail()\n            return result\n", expect="R1-jail-bracket"),
    Mutant("pre-open hook lets unknown transports through", RQ, "    raise errors.JailBreak(abspath)\n", "    trace.mutter(\"jail break: %s\", abspath)\n", expect="R1-pre-open-hook"),
    Mutant("userdir filter wraps the un-chrooted transport", SV, "        transport = _mod_transport.get_transport_from_url(chroot_server.get_url())\n        if self.base_path is not None:", "        chrooted = _mod_transport.get_transport_from_url(chroot_server.get_url())\n        if self.base_path is not None:", expect="R2-chrooted"),
    Mutant("non-child client path returned as is", RQ, "        else:\n            raise transport_errors.PathNotChild(client_path, self._root_client_path)\n", "        else:\n            return client_path\n", expect="R3-non-child-rejected"),
    Mutant("a VFS verb uses the untranslated path", VF, "        relpath = self.translate_client_path(relpath)\n        r = (self._backing_transport.has(relpath) and b\"yes\") or b\"no\"", "        r = (self._backing_transport.has(relpath) and b\"yes\") or b\"no\"", expect="R4-untranslated-path"),
    Mutant("userdir expansion used even outside base_path", SV, "            if expanded.startswith(self.base_path):\n                result = expanded[len(self.base_path) :]", "            if True:\n                result = expanded[len(self.base_path) :]", expect="R2-userdir-inside-base"),
    Mutant("neutral: local renamed in a VFS verb", VF, "        relpath = self.translate_client_path(relpath)\n        r = (self._backing_transport.has(relpath) and b\"yes\") or b\"no\"", "        local_path = self.translate_client_path(relpath)\n        r = (self._backing_transport.has(local_path) and b\"yes\") or b\"no\"", neutral=True),
]
