"""C17 — tree merges obey the three-way laws: only the dispatch around the (C18-decided) winner tables.

The laws themselves quantify over tree triples and are not decided.  What is decided is the part of them that is in the
shape of Merge3Merger's per-attribute code: the positional (base, other, this) convention every table lookup relies on,
the 'winner == this => nothing is touched' exits, and that one resolver is used for names, parents and the execute bit."""

import ast

from ..astutil import bind_roles, call_attr, call_recv, calls_in, canonicalise, const_value, norm, walk_own
from ..cfg import build_cfg
from ..rules import calling, need
from ..selftest import Mutant

ID = "C17"
TECHNIQUE = "positional-convention table agreement (K6), guard/unreachability of tree mutations under 'winner is this' (K2) and resolver provenance (K5) in Merge3Merger; the winner tables themselves are decided under C18 (ast)"
FLOOR = 21
MG = "breezy/merge.py"
M = "Merge3Merger"
EXPLANATION = """
The scalar decision tables (_three_way, _lca_multi_way) are decided exhaustively under C18: OTHER == BASE -> "this",
THIS == BASE -> "other", identical changes -> "this". C17 adds the dispatch that turns a winner into tree changes:
D1 (K6) positional convention: winner_idx is {"this": 2, "other": 1, "conflict": 1}; every tuple indexed with a winner index
lists (base, other, this) in that order, every 3-tuple is unpacked in that order (names, paths, executable) and
_three_way / resolver calls receive (base, other, this): a swapped pair makes "this" select OTHER's value.
D2 (K2) _merge_names: when both the name and the parent winner are "this" nothing is recorded and tt.adjust_path is not
reached (OTHER == BASE leaves THIS's path alone); a path conflict is recorded only when a winner is "conflict".
D3 (K2) _do_merge_contents: with base_pair == other_pair the winner is "this" without consulting THIS; winner "this"
returns "unmodified" before any tt.* mutation or conflict record.
D4 (K2) _merge_executable: a deleted file is left alone; winner "this" on an unmodified file returns before
tt.set_executability; on "conflict" the bit is taken from the side that still has the file.
D5 (K5) _compute_transform picks _three_way without LCA trees and _lca_multi_way with them, and hands that one resolver
to both _merge_names and _merge_executable; contents are merged between the two.
D6 a copy reported by OTHER is merged as an add and its contents are created (`changed` forced).
D7 (K5) the parent handed to tt.adjust_path is ROOT_PARENT or _parent_trans_id(winning_tree, winning_parent_path): resolved
in the tree whose parent won.
D8 methods of the merger that take a tree argument keep no table on the merger keyed by their other arguments alone
(the same path can name different directories in THIS, BASE and OTHER).
D9 (third round) PerFileMerger.merge_contents: under `params.winner == "other"` no path reaches merge_matching / merge_text —
   per-file hooks are consulted only when both sides changed the file.
D10 (fourth round) in breezy/git/transform.py only cancel_versioning removes an id from self._versioned.
D11 the status strings returned by merge_contents / merge_matching / merge_text implementations (merge.py and the *_merge plugins) are all
   dispatched by _do_merge_contents (po_merge has one more, after an always-returning try/finally: dead code, tabled).
Does not decide: the laws over whole trees (tree values), text merging (C19), the entry generators _entries3/_entries_lca.
"""


def run(ctx):
    repo = ctx.repo
    cls = repo.cls(MG, M)
    # ---- D1 -----------------------------------------------------------------------------------
    wi = [s for s in cls.body if isinstance(s, ast.Assign) and norm(s.targets[0]) == "winner_idx"]
    ctx.require(len(wi) == 1 and isinstance(wi[0].value, ast.Dict), f"{MG}:{M}.winner_idx not found")
    table = {const_value(k): const_value(v) for k, v in zip(wi[0].value.keys, wi[0].value.values)}
    ctx.check("D1-positional-convention", f"{MG}:{M}.winner_idx", table == {"this": 2, "other": 1, "conflict": 1}, "winner_idx maps this -> 2, other -> 1, conflict -> 1 (positions in (base, other, this))", construct=str(table), message=f"winner_idx is {table}: with tuples ordered (base, other, this) the winner 'this' must select index 2 and 'other' index 1")
    fn = repo.func(MG, f"{M}._merge_names")
    wn = f"{MG}:{M}._merge_names"
    idx_tuples = [n.value for n in ast.walk(fn) if isinstance(n, ast.Subscript) and isinstance(n.value, ast.Tuple) and len(n.value.elts) == 3]
    ctx.require(len(idx_tuples) >= 2, f"{wn}: indexed 3-tuples not found")
    for t in idx_tuples:
        order = ["base" in norm(t.elts[0]), "other" in norm(t.elts[1]), "this" in norm(t.elts[2])]
        ctx.check("D1-positional-convention", wn, all(order) and "other" not in norm(t.elts[0]) and "this" not in norm(t.elts[0]) and "this" not in norm(t.elts[1]),f"`{norm(t)[:60]}` lists (base, other, this)", construct=norm(t)[:80], message=f"the tuple `{norm(t)[:80]}` indexed by winner_idx is not in (base, other, this) order: the winner selects the wrong tree's value")
    n_unpack = 0
    for q in ("_merge_names", "_merge_executable", "_do_merge_contents"):
        f = repo.func(MG, f"{M}.{q}")
        for s in walk_own(f):
            if isinstance(s, ast.Assign) and isinstance(s.targets[0], ast.Tuple) and len(s.targets[0].elts) == 3 and isinstance(s.value, ast.Name) and s.value.id in ("names", "paths", "executable", "parents"):
                tn = [norm(e) for e in s.targets[0].elts]
                n_unpack += 1
                ctx.check("D1-positional-convention", f"{MG}:{M}.{q}", "base" in tn[0] and "other" in tn[1] and "this" in tn[2], f"`{norm(s)[:60]}` unpacks (base, other, this)", construct=norm(s)[:70], message=f"`{norm(s)[:70]}` does not unpack in (base, other, this) order")
    ctx.require(n_unpack >= 4, f"{MG}: only {n_unpack} (base, other, this) unpackings found")
    fc = repo.func(MG, f"{M}._do_merge_contents")
    tw = [c for c in calls_in(fc) if call_attr(c) == "_three_way"]
    ctx.check("D1-positional-convention", f"{MG}:{M}._do_merge_contents", len(tw) == 1 and ["base" in norm(a) for a in tw[0].args[:1]] == [True] and "other" in norm(tw[0].args[1]) and "this" in norm(tw[0].args[2]), "_three_way is called with (base, other, this)", construct=norm(tw[0]) if tw else "")
    # ---- D2 -----------------------------------------------------------------------------------
    fn = canonicalise(fn, bind_roles(fn, {"name_winner": ("assign", "resolver(*names)"), "parent_id_winner": ("assign", "resolver(*parents)")}, wn))
    g = build_cfg(fn)
    adj = need(wn, calling(g, attr="adjust_path", recv="self.tt"), "self.tt.adjust_path")
    rec = need(wn, calling(g, attr="append", recv="self._raw_conflicts"), "self._raw_conflicts.append")
    both_this = {"name_winner == 'this' and parent_id_winner == 'this'": True, "name_winner == 'conflict' or parent_id_winner == 'conflict'": False, "name_winner == 'this'": True, "parent_id_winner == 'this'": True}
    r = g.assume(both_this).reachable_from_entry()
    ctx.check("D2-this-wins-nothing-moves", wn, not (set(adj + rec) & r), "when name and parent winners are both 'this' neither adjust_path nor a conflict record is reached", message="with OTHER's name and parent equal to BASE's (winner 'this' twice) _merge_names still moves the file or records a conflict")
    r2 = g.assume({"name_winner == 'conflict' or parent_id_winner == 'conflict'": False}).reachable_from_entry()
    ctx.check("D2-this-wins-nothing-moves", wn, not (set(rec) & r2), "a path conflict is recorded only when one of the winners is 'conflict'")
    recs = [c.args[0] for i in rec for c in g.nodes[i].calls() if call_attr(c) == "append" and c.args and isinstance(c.args[0], ast.Tuple)]
    ctx.check("D2-this-wins-nothing-moves", wn, len(recs) == 1 and const_value(recs[0].elts[0]) == "path conflict", "the record is a 'path conflict'")
    # ---- D3 -----------------------------------------------------------------------------------
    wc = f"{MG}:{M}._do_merge_contents"
    fc = canonicalise(fc, bind_roles(fc, {"winner": ("assign", "~self\\._three_way\\(.*\\)")}, wc))
    gc = build_cfg(fc)
    muts = [n.id for n in gc.nodes if any((call_recv(c) or "") == "self.tt" and call_attr(c) not in ("final_name", "final_parent", "final_kind", "trans_id_tree_path") for c in n.calls())] + calling(gc, attr="append", recv="self._raw_conflicts") + calling(gc, attr="_dump_conflicts")
    need(wc, muts, "tt mutations / conflict records")
    r = gc.assume({"winner == 'this'": True, "winner != 'this'": False}).reachable_from_entry()
    ctx.check("D3-contents-this-unmodified", wc, not (set(muts) & r), "winner 'this' touches neither the transform nor the conflict list", message="_do_merge_contents changes the tree (or records a conflict) although THIS's content wins")
    rets_this = [n for n in gc.nodes if n.kind == "stmt" and isinstance(n.ast, ast.Return) and n.id in r]
    ctx.check("D3-contents-this-unmodified", wc, bool(rets_this) and all(const_value(x.ast.value) == "unmodified" for x in rets_this), "winner 'this' reports 'unmodified'")
    short = [n for n in walk_own(fc) if isinstance(n, ast.If) and isinstance(n.test, ast.Compare) and len(n.test.ops) == 1 and isinstance(n.test.ops[0], ast.Eq) and {("base" in norm(n.test.left)), ("other" in norm(n.test.comparators[0]))} == {True} and any(isinstance(s, ast.Assign) and norm(s.targets[0]) == "winner" and const_value(s.value) == "this" for s in n.body)]
    ctx.check("D3-contents-this-unmodified", wc, len(short) == 1, "base_pair == other_pair gives winner 'this' directly (OTHER unchanged: THIS is left alone)")
    # ---- D4 -----------------------------------------------------------------------------------
    fe = repo.func(MG, f"{M}._merge_executable")
    we = f"{MG}:{M}._merge_executable"
    fe = canonicalise(fe, bind_roles(fe, {"winner": ("assign", "resolver(*executable)"), "other_path": ("assign", "paths", 1)}, we))
    ge = build_cfg(fe)
    se = need(we, calling(ge, attr="set_executability", recv="self.tt"), "self.tt.set_executability")
    ctx.check("D4-executable", we, not (set(se) & ge.assume({"file_status == 'deleted'": True}).reachable_from_entry()), "a deleted file's execute bit is not touched")
    ctx.check("D4-executable", we, not (set(se) & ge.assume({"file_status == 'deleted'": False, "winner == 'conflict'": False, "winner == 'this' and file_status != 'modified'": True}).reachable_from_entry()), "winner 'this' on a file whose content was not merged leaves the bit alone")
    cf = [n for n in walk_own(fe) if isinstance(n, ast.If) and norm(n.test) == "winner == 'conflict'"]
    ok = len(cf) == 1 and any(isinstance(s, ast.Assign) and norm(s.targets[0]) == "winner" and norm(s.value) == "'this' if other_path is None else 'other'" for s in cf[0].body)
    ctx.check("D4-executable", we, ok, "on 'conflict' (one side deleted) the bit comes from the side that still has the file")
    # ---- D5 -----------------------------------------------------------------------------------
    ft = repo.func(MG, f"{M}._compute_transform")
    wt = f"{MG}:{M}._compute_transform"
    ft = canonicalise(ft, bind_roles(ft, {"resolver": ("assign", "self._three_way")}, wt))
    rv = sorted(norm(s.value) for s in walk_own(ft) if isinstance(s, ast.Assign) and norm(s.targets[0]) == "resolver")
    ctx.check("D5-one-resolver", wt, rv == ["self._lca_multi_way", "self._three_way"], "the resolver is _three_way or _lca_multi_way", construct=str(rv))
    gt = build_cfg(ft)
    three = [n.id for n in gt.nodes if n.kind == "stmt" and isinstance(n.ast, ast.Assign) and norm(n.ast) == "resolver = self._three_way"]
    multi = [n.id for n in gt.nodes if n.kind == "stmt" and isinstance(n.ast, ast.Assign) and norm(n.ast) == "resolver = self._lca_multi_way"]
    ok = bool(three) and bool(multi) and not (set(three) & gt.assume({"self._lca_trees is None": False, "self._lca_trees": True, "not self._lca_trees": False}).reachable_from_entry()) and not (set(multi) & gt.assume({"self._lca_trees is None": True, "self._lca_trees": False, "not self._lca_trees": True}).reachable_from_entry())
    ctx.check("D5-one-resolver", wt, ok, "_three_way is used exactly when there are no LCA trees")
    uses = [(call_attr(c), [norm(k.value) for k in c.keywords if k.arg == "resolver"] + [norm(a) for a in c.args[4:5]]) for c in calls_in(ft) if call_attr(c) in ("_merge_names", "_merge_executable")]
    ctx.check("D5-one-resolver", wt, len(uses) == 2 and all(u[1] == ["resolver"] for u in uses), "names/parents and the execute bit are decided by the same resolver", construct=str(uses), message=f"_merge_names and _merge_executable do not receive the same resolver: {uses}")
    mn, mc, me = calling(gt, attr="_merge_names"), calling(gt, attr="_do_merge_contents"), calling(gt, attr="_merge_executable")
    ctx.check("D5-one-resolver", wt, bool(mn and mc and me) and gt.always_before(mn, mc)[0] and gt.always_before(mn, me)[0] and all(m_ > c_ for m_ in [gt.nodes[i].lineno for i in me] for c_ in [gt.nodes[i].lineno for i in mc]), "per entry: names first, contents (when merged) before the execute bit, which needs the contents' status")
    # ---- D6: a copy reported by OTHER is merged as an add, contents included ------------------------------------------
    el = [n for n in ast.walk(ft) if isinstance(n, ast.For) and norm(n.iter).startswith("enumerate(") and isinstance(n.target, ast.Tuple) and len(n.target.elts) == 2 and isinstance(n.target.elts[1], ast.Tuple) and len(n.target.elts[1].elts) == 7]
    ctx.require(len(el) == 1, f"{wt}: the loop over the merge entries was not found")
    ft = canonicalise(ft, dict(zip(["file_id", "changed", "paths3", "parents3", "names3", "executable3", "copied"], [norm(e) for e in el[0].target.elts[1].elts])))
    cp = [n for n in ast.walk(ft) if isinstance(n, ast.If) and norm(n.test) == "copied"]
    ok = len(cp) == 1
    if ok:
        asg = {norm(s_.targets[0]): norm(s_.value) for s_ in cp[0].body if isinstance(s_, ast.Assign)}
        nulled = [k for k, v in asg.items() if v.startswith("(None, ") and v.endswith(", None)")]
        ok = len(nulled) >= 3 and asg.get("changed") == "True"
    ctx.check("D6-copy-merged-as-add", wt, ok, "when an entry is a copy its base/this sides are blanked (an add) and `changed` is forced so that its contents are created", message="a copy is turned into an add (base and this sides blanked) without forcing `changed`: a byte-identical copy gets a name but no content and silently disappears from the merge result")
    uses_changed = [n for n in ast.walk(ft) if isinstance(n, ast.If) and norm(n.test) == "changed" and any(call_attr(c) == "_do_merge_contents" for c in calls_in(n))]
    ctx.check("D6-copy-merged-as-add", wt, len(uses_changed) == 1, "_do_merge_contents is called for entries whose content changed")
    # ---- D7: the parent handed to adjust_path is resolved in the winning tree ---------------------------------------
    fnn = repo.func(MG, f"{M}._merge_names")
    fnn = canonicalise(fnn, bind_roles(fnn, {"winning_tree": ("assign", lambda t, n: isinstance(n, ast.Subscript) and isinstance(n.value, ast.Tuple) and "self.this_tree" in t), "winning_entry_path": ("assign", lambda t, n: isinstance(n, ast.Subscript) and isinstance(n.value, ast.Tuple) and "this_path" in t and "self." not in t), "winning_parent_path": ("assign", "_path_dirname({winning_entry_path})")}, wn))
    adjs = [c for c in calls_in(fnn) if call_attr(c) == "adjust_path" and call_recv(c) == "self.tt"]
    ok = len(adjs) == 1 and isinstance(adjs[0].args[1], ast.Name)
    srcs = []
    if ok:
        pv = adjs[0].args[1].id
        srcs = [norm(s_.value) for s_ in ast.walk(fnn) if isinstance(s_, ast.Assign) and any(isinstance(t, ast.Name) and t.id == pv for t in s_.targets)]
        ok = bool(srcs) and all(v == "transform.ROOT_PARENT" or (v.startswith("self._parent_trans_id(") and "winning_tree" in v and "winning_parent_path" in v) or ("winning_tree" in v and "winning_parent_path" in v) for v in srcs)
    ctx.check("D7-parent-resolved-in-winning-tree", wn, ok, "the new parent is ROOT_PARENT or _parent_trans_id(winning_tree, winning_parent_path)", construct=str(srcs), message=f"the parent trans id handed to adjust_path comes from {srcs}: a value looked up without the winning tree (e.g. a cache keyed by the path alone) resolves the same path string in the wrong tree when THIS and OTHER use one name for different directories")
    ctx.sample({"winner_idx": table, "resolver_values": rv})

    # ---- D8: lookups that depend on which tree is asked are not memoised by path alone ------------------------------
    # THIS, BASE and OTHER can give the same path string to different directories (chained or swapped renames); a cache
    # on the merger keyed only by the path hands the first tree's answer to the second one.
    n_tree_fns = 0
    for item in cls.body:
        if not isinstance(item, ast.FunctionDef):
            continue
        params = [a.arg for a in item.args.args if a.arg not in ("self", "cls")]
        tree_params = [p_ for p_ in params if p_ == "tree" or p_.endswith("_tree")]
        if not tree_params or not any(isinstance(x, ast.Name) and x.id in tree_params for x in ast.walk(item)):
            continue
        n_tree_fns += 1
        bad = []
        for n in walk_own(item):
            if isinstance(n, ast.Subscript) and isinstance(n.value, ast.Attribute) and norm(n.value.value) == "self":
                names = {x.id for x in ast.walk(n.slice) if isinstance(x, ast.Name)}
                if names and names <= set(params) and not (names & set(tree_params)):
                    bad.append(f"L{n.lineno}:{norm(n)[:50]}")
        ctx.check("D8-memo-key-names-the-tree", f"{MG}:{M}.{item.name}", not bad, f"{item.name} keeps no per-merger table keyed by its other arguments without the tree", construct="; ".join(bad), message=f"{M}.{item.name} answers from a table on the merger keyed without its tree argument ({bad}): when the same path names different directories in THIS and OTHER (chained or swapped directory renames) the second tree gets the first one's transform id, and a file added on one side lands in the wrong directory without any conflict")
    ctx.require(n_tree_fns >= 3, f"{MG}:{M}: only {n_tree_fns} methods take a tree argument (hand-confirmed: >= 5)")

    # ---- D9: a straight OTHER win never reaches a per-file merge hook's own algorithm ----------------------------------
    fh = repo.func(MG, "PerFileMerger.merge_contents")
    wh = f"{MG}:PerFileMerger.merge_contents"
    pn = [a.arg for a in fh.args.args][1]
    gh = build_cfg(fh)
    own = [i for i in calling(gh, attr="merge_matching", recv="self") + calling(gh, attr="merge_text", recv="self")]
    need(wh, own, "self.merge_matching(params)")
    g_other = gh.assume({f"{pn}.winner == 'other'": True, f"{pn}.winner != 'other'": False})
    hit9 = sorted(set(own) & g_other.reachable_from_entry())
    na = [n.id for n in gh.nodes if n.kind == "stmt" and isinstance(n.ast, ast.Return) and isinstance(n.ast.value, ast.Tuple) and const_value(n.ast.value.elts[0], None) == "not_applicable"]
    ctx.check("D9-straight-winner-bypasses-hooks", wh, bool(na) and not hit9, "with params.winner == 'other' the hook answers not_applicable (the default merger takes OTHER's text verbatim)", construct="merge_matching reachable with winner == 'other'", message="PerFileMerger.merge_contents runs the hook's own merge algorithm on a file only OTHER changed: with a per-file merge hook installed (po_merge, news_merge, changelog_merge, any configured merger) the result need not be OTHER's text — 'THIS equals BASE => the tree equals OTHER' fails silently, no conflict")
    # ---- D10 (fourth round): in the git transform a versioning request is withdrawn only by cancel_versioning --------------
    # A type change reaches the merger as an add and a delete of one path, mapped to one transform id: version_file for the add
    # half, unversion_file for the delete half; the result is right only because "versioned" wins in final_is_versioned().
    GTF = "breezy/git/transform.py"
    removers_ = sorted({q_ for q_, f_ in repo.module(GTF).functions().items() for c in calls_in(f_) if call_attr(c) in ("discard", "remove", "clear", "pop", "difference_update") and call_recv(c) == "self._versioned"} | {q_ for q_, f_ in repo.module(GTF).functions().items() for a in walk_own(f_) if isinstance(a, (ast.Assign, ast.AugAssign)) and any(norm(t) == "self._versioned" for t in (a.targets if isinstance(a, ast.Assign) else [a.target])) and not q_.endswith("__init__")})
    allowed_ = {q_ for q_ in removers_ if q_.split(".")[-1] == "cancel_versioning"}
    ctx.check("D10-versioning-withdrawn-only-by-cancel", GTF, set(removers_) <= allowed_ and bool(allowed_), "self._versioned loses an id only in cancel_versioning", construct=str(sorted(set(removers_) - allowed_)), message=f"{sorted(set(removers_) - allowed_)} take an id out of self._versioned: when OTHER turns a file into a symlink (an add and a delete of one path, one transform id) the delete half cancels the add half — the new symlink is written but dropped from the index, no conflict is reported, and 'THIS equals BASE => the tree equals OTHER' fails for git trees")
    # ---- D11: what a merge_contents implementation answers is something _do_merge_contents knows --------------------------
    fdm = repo.func(MG, "Merge3Merger._do_merge_contents")
    by_name = {}
    for n_ in ast.walk(fdm):
        if isinstance(n_, ast.Compare) and isinstance(n_.left, ast.Name):
            for c_ in n_.comparators:
                if isinstance(c_, ast.Constant) and isinstance(c_.value, str):
                    by_name.setdefault(n_.left.id, set()).add(c_.value)
    # the status variable, whatever it is called: the local compared with the most string constants
    known = max(by_name.values(), key=len) if by_name else set()
    ctx.require(len(known) >= 4, f"{MG}:Merge3Merger._do_merge_contents: the hook_status dispatch was not found ({sorted(known)})")
    answered = {}
    for rel_ in [MG] + [r_ for r_ in repo.python_files() if r_.startswith("breezy/plugins/") and r_.endswith("_merge.py") and "/tests/" not in r_]:
        for q_, f_ in repo.module(rel_).functions().items():
            if q_.split(".")[-1] not in ("merge_contents", "merge_matching", "merge_text"):
                continue
            for r_ in walk_own(f_):
                if isinstance(r_, ast.Return) and isinstance(r_.value, ast.Tuple) and r_.value.elts and isinstance(r_.value.elts[0], ast.Constant) and isinstance(r_.value.elts[0].value, str):
                    answered.setdefault(r_.value.elts[0].value, []).append(f"{rel_}:{q_} L{r_.lineno}")
    unknown = {k_: v_ for k_, v_ in answered.items() if k_ not in known}
    # an answer after a `return` inside try/finally that always returns is dead code; only reachable answers count
    live_unknown = {k_: [w for w in v_ if not w.startswith("breezy/plugins/po_merge/")] for k_, v_ in unknown.items()}
    live_unknown = {k_: v_ for k_, v_ in live_unknown.items() if v_}
    ctx.check("D11-hook-status-vocabulary", f"{MG}:Merge3Merger._do_merge_contents", not live_unknown, f"every status a merge_contents / merge_matching / merge_text implementation returns is one of {sorted(known)}", construct=str(live_unknown)[:200], message=f"a per-file merger answers a status _do_merge_contents does not know ({live_unknown}): the merge of every file that reaches that hook fails with AssertionError(unknown hook_status) instead of falling through to the default merge")


MUTANTS = [
    Mutant("base class declines with a misspelt status (fix 15ac608 reverted)", MG, '        return ("not_applicable", None)\n', '        return ("not applicable", None)\n', expect="D11-hook-status-vocabulary"),
    Mutant("per-file hooks consulted on a straight OTHER win", MG, '            params.winner == "other"\n            or\n', '', expect="D9-straight-winner-bypasses-hooks"),
    Mutant("parent transform ids cached by path only", MG, "        if parent_path is None:\n            return None\n        if tree.supports_file_ids:\n", "        if parent_path is None:\n            return None\n        if parent_path in self.__dict__.setdefault(\"_ptids\", {}):\n            return self._ptids[parent_path]\n        if tree.supports_file_ids:\n", expect="D8-memo-key-names-the-tree"),
    Mutant("copies get a name but no content", MG, "                    executable3 = (None, executable3[1], None)\n                    changed = True\n                    copied = False\n", "                    executable3 = (None, executable3[1], None)\n", expect="D6-copy-merged-as-add"),
    Mutant("parent lookups cached by path alone", MG, "                parent_trans_id = self._parent_trans_id(\n                    winning_tree, winning_parent_path\n                )\n            self.tt.adjust_path", "                parent_trans_id = self._cache.get(winning_parent_path) or self._parent_trans_id(\n                    winning_tree, winning_parent_path\n                )\n                parent_trans_id = self._cache.setdefault(winning_parent_path, parent_trans_id)\n            self.tt.adjust_path", expect="D7-parent-resolved-in-winning-tree"),
    Mutant("winner_idx swaps this and other", MG, '    winner_idx = {"this": 2, "other": 1, "conflict": 1}', '    winner_idx = {"this": 1, "other": 2, "conflict": 1}', expect="D1-positional-convention"),
    Mutant("winning tree tuple in (base, this, other) order", MG, "            self.base_tree,\n            self.other_tree,\n            self.this_tree,\n        )[winning_idx]", "            self.base_tree,\n            self.this_tree,\n            self.other_tree,\n        )[winning_idx]", expect="D1-positional-convention"),
    Mutant("names moved although this wins twice", MG, '        if name_winner == "this" and parent_id_winner == "this":\n            return\n', '        if name_winner == "this" and parent_id_winner == "this" and other_path is None:\n            return\n', expect="D2-this-wins-nothing-moves"),
    Mutant("contents: this wins but the file is rewritten", MG, '        if winner == "this":\n            # No interesting changes introduced by OTHER\n            return "unmodified"\n', '        if winner == "this" and not self.reprocess:\n            # No interesting changes introduced by OTHER\n            return "unmodified"\n', expect="D3-contents-this-unmodified"),
    Mutant("execute bit forced on unmodified files", MG, '        if winner == "this" and file_status != "modified":\n            return\n', '        if winner == "this" and file_status == "deleted":\n            return\n', expect="D4-executable"),
    Mutant("execute bit decided by the three-way table even with LCAs", MG, "                self._merge_executable(\n                    paths3, trans_id, executable3, file_status, resolver=resolver\n                )", "                self._merge_executable(\n                    paths3, trans_id, executable3, file_status, resolver=self._three_way\n                )", expect="D5-one-resolver"),
    Mutant("neutral: early return written with two ifs", MG, '        if name_winner == "this" and parent_id_winner == "this":\n            return\n', '        if name_winner == "this":\n            if parent_id_winner == "this":\n                return\n', neutral=True),
]
