"""C45 — end-of-line filters: filter table vs key naming, NUL guard, application order."""

import ast

from ..astutil import call_recv, call_attr, calls_in, const_value, norm, walk_own
from ..cfg import build_cfg
from ..rules import calling
from ..selftest import Mutant

ID = "C45"
TECHNIQUE = "table check of _eol_filter_stack_map against the key naming scheme (K6), CFG guard of the binary (NUL) branch in both converters (K2), reader/writer application order (K1) (ast)"
FLOOR = 22
EF = "breezy/filters/eol.py"
FI = "breezy/filters/__init__.py"
EXPLANATION = """
K6 table: for every key of _eol_filter_stack_map the reader (working tree -> repository) is the converter to the
repository's canonical form — to-LF unless the key ends in -with-crlf-in-repo, then to-CRLF — and the writer
(repository -> working tree) is selected by the key's prefix: lf -> to-LF, crlf -> to-CRLF, native -> the platform
converter; 'exact' has no filter; ContentFilter(reader, writer) keeps that argument order; an unknown key raises.
K2: each converter joins the chunks, tests `b"\\x00" in content` first and returns the content unchanged on that branch
(binary content is never converted); the conversion is only on the other branch. K1: filtered_output_bytes applies writers
in reversed stack order and filtered_input_file applies readers in stack order.
Conversion table (replaces an earlier rule that compared the regex literal): both converters are evaluated by the abstract
interpreter (sa/absint.py; the module's own compiled pattern, no breezy code runs) on all 1365 strings of length <= 5 over
{a, LF, CR, NUL}: content with NUL is returned unchanged, the result does not depend on how the content is cut into chunks,
and for each of the four reader/writer pairs every text that is a fixed point of the reader (the repository's canonical
form) is a fixed point of reader(writer(.)). Failing rows are reported per pair and per class of input (CR before CRLF /
other), so a known row does not hide a different one.
Added while testing against seeded changes: Also: read converters are always applied once to [<file>.read()] (never
block-wise) and internal_size_sha_file_byname goes through filtered_input_file.
Third round: writers-see-whole-content — no call of filtered_output_bytes is given `[chunk]` for the variable of an enclosing loop or
comprehension; accelerator-rules-under-accelerator-path — in bzr/transform.py:_create_files the hardlink guard looks rules up under the
second (accelerator-side) name of each (tree path, accelerator path) pair.
Fourth round: merge-filter-path-by-identity — every non-None return of Merge3Merger._get_filter_tree_path is preceded on every path by
find_previous_path(). cached-stack-not-edited — no _content_filter_stack implementation applies a mutating list method, += or a subscript store to
the list it received from super()._content_filter_stack()/filters._get_filter_stack_for() (the cache hands out one list per preference values).
Does not decide: strings longer than the table's bound (the converters are length-independent: one regex substitution).
"""
TO_LF, TO_CRLF, NATIVE = "_to_lf_converter", "_to_crlf_converter", "_native_output"


def run(ctx):
    repo = ctx.repo
    mod = repo.module(EF)
    table = None
    for s in mod.tree.body:
        if isinstance(s, ast.Assign) and norm(s.targets[0]) == "_eol_filter_stack_map" and isinstance(s.value, ast.Dict):
            table = s.value
    ctx.require(table is not None, f"{EF}: _eol_filter_stack_map not found")
    rows = {}
    for k, v in zip(table.keys, table.values):
        key = const_value(k)
        if isinstance(v, ast.List) and len(v.elts) == 0:
            rows[key] = None
        elif isinstance(v, ast.List) and len(v.elts) == 1 and isinstance(v.elts[0], ast.Call) and norm(v.elts[0].func) == "ContentFilter" and len(v.elts[0].args) == 2:
            rows[key] = (norm(v.elts[0].args[0]), norm(v.elts[0].args[1]))
        else:
            rows[key] = ("?", norm(v))
    ctx.require(len(rows) >= 7, f"{EF}: only {len(rows)} rows in the eol table")
    for key, row in sorted(rows.items()):
        where = f"{EF}:_eol_filter_stack_map[{key!r}]"
        if key == "exact":
            ctx.check("table-row", where, row is None, "'exact' applies no filter", construct=str(row))
            continue
        want_reader = TO_CRLF if key.endswith("-with-crlf-in-repo") else TO_LF
        prefix = key.split("-")[0]
        want_writer = {"lf": TO_LF, "crlf": TO_CRLF, "native": NATIVE}.get(prefix)
        ctx.check("table-row", where, row == (want_reader, want_writer), f"reader {want_reader}, writer {want_writer}", construct=str(row), message=f"eol={key}: filter is {row}, expected reader {want_reader} (repository form) and writer {want_writer} (working-tree form)")
    nat = [s for s in ast.walk(mod.tree) if isinstance(s, ast.Assign) and norm(s.targets[0]) == NATIVE]
    ctx.check("native", EF, {norm(s.value) for s in nat} == {TO_LF, TO_CRLF}, "the native writer is one of the two converters, chosen by platform")
    cf = repo.func(FI, "ContentFilter.__init__")
    ctx.check("filter-arg-order", f"{FI}:ContentFilter.__init__", [a.arg for a in cf.args.args] == ["self", "reader", "writer"] and "self.reader = reader" in norm(cf) and "self.writer = writer" in norm(cf), "ContentFilter(reader, writer) stores them under the same names")
    lk = repo.func(EF, "eol_lookup")
    ctx.check("unknown-key", f"{EF}:eol_lookup", any(isinstance(n, ast.Raise) for n in walk_own(lk)) and "_eol_filter_stack_map.get(key)" in norm(lk), "an unknown eol value is an error")
    # ---- converters ---------------------------------------------------------------
    for name, conv in ((TO_LF, "replace"), (TO_CRLF, "sub")):
        from ..astutil import bind_roles, canonicalise

        where = f"{EF}:{name}"
        fn = repo.func(EF, name)
        try:
            fn = canonicalise(fn, bind_roles(fn, {"content": ("assign", "~.*b''\\.join\\(chunks\\).*")}, where))
        except Exception as e_:  # noqa: BLE001 - the missing join is the violation
            ctx.check("whole-content", where, False, "the converter joins all chunks before testing for NUL", construct=str(e_)[:120], message=f"{name} no longer joins the chunks into one content before deciding text/binary: a NUL in a later chunk is not seen by the write side, while the read side (one chunk) sees it — binary files are converted on disk and not converted back")
            continue
        g = build_cfg(fn)
        tests = [n for n in g.nodes if n.kind == "test"]
        ok = len(tests) == 1 and norm(tests[0].ast) == "b'\\x00' in content"
        ctx.check("nul-guard", where, ok, "the converter branches on `b'\\x00' in content`", construct=norm(tests[0].ast) if tests else "")
        if ok:
            t = tests[0].id
            tb = g.reach([b for (b, l) in g.succ[t] if l == "T"], include_src=True)
            fb = g.reach([b for (b, l) in g.succ[t] if l == "F"], include_src=True)
            rets_t = [g.nodes[i] for i in tb if g.nodes[i].kind == "stmt" and isinstance(g.nodes[i].ast, ast.Return)]
            convs = calling(g, attr=("replace", "sub"))
            ctx.check("nul-guard", where, len(rets_t) == 1 and norm(rets_t[0].ast.value) == "[content]" and not (set(convs) & tb), "content containing NUL is returned unchanged", message="binary content (containing NUL) is converted")
            ctx.check("nul-guard", where, bool(set(convs) & fb), "text content is converted on the other branch")
            before = [n for n in g.nodes if n.kind == "stmt" and n.id not in tb and n.id not in fb and calls_in(n.ast) and any(call_attr(c) in ("replace", "sub") for c in calls_in(n.ast))]
            ctx.check("nul-guard", where, not before, "no conversion happens before the NUL test")
        joined = any(isinstance(s, ast.Assign) and norm(s.targets[0]) == "content" and norm(s.value) == "b''.join(chunks)" for s in walk_own(fn))
        ctx.check("whole-content", where, joined, "the test and the conversion look at the whole content, not at single chunks")
    # ---- conversion table: both converters evaluated by the abstract interpreter on every string over {a, LF, CR, NUL} up to
    # length 5 (no breezy code runs; `re` is the only library semantics used, through the module's own compiled pattern)
    import itertools

    from ..absint import Interp, Raised, Unsupported, module_regex_hook

    it = Interp(name_hook=module_regex_hook(mod.tree), loop_bound=64)
    fl, fc = repo.func(EF, TO_LF), repo.func(EF, TO_CRLF)
    convs_ = {TO_LF: fl, TO_CRLF: fc}

    def _run(f_, chunks):
        it.steps = 0
        return it.call(f_, dict(zip([a.arg for a in f_.args.args], (list(chunks), None))))

    strings = [b"".join(t) for k in range(0, 6) for t in itertools.product([b"a", b"\n", b"\r", b"\x00"], repeat=k)]
    texts = [x for x in strings if b"\x00" not in x]
    bad, evaluable = [], True
    try:
        for x in strings:
            for nm, f_ in convs_.items():
                out = _run(f_, [x])
                if not isinstance(out, list) or not all(isinstance(c, bytes) for c in out):
                    raise Unsupported(f"{nm} returns {out!r}")
                whole = b"".join(out)
                if b"\x00" in x and whole != x:
                    bad.append(f"{nm} changes binary content {x!r} into {whole!r}")
                if len(x) >= 2:
                    for cut in range(1, len(x)):
                        if b"".join(_run(f_, [x[:cut], x[cut:]])) != whole:
                            bad.append(f"{nm} converts {x!r} differently when it arrives as {[x[:cut], x[cut:]]!r}")
                            break
        lf = {x: b"".join(_run(fl, [x])) for x in texts}
        crlf = {x: b"".join(_run(fc, [x])) for x in texts}
        # canonical content is a fixed point of reader(writer(.)) for each pair of the table
        pair_bad = {}
        for reader in (TO_LF, TO_CRLF):
            rd = lf if reader == TO_LF else crlf
            canon = [x for x in texts if rd[x] == x]
            for writer in (TO_LF, TO_CRLF):
                wr = lf if writer == TO_LF else crlf
                for x in canon:
                    y = wr[x]
                    back = rd.get(y)
                    if back is None:
                        back = b"".join(_run(convs_[reader], [y]))
                    if back != x:
                        cls_ = "cr-before-crlf" if b"\r\r\n" in x else "other"
                        pair_bad.setdefault((reader, writer, cls_), []).append((x, y, back))
    except (Raised, Unsupported, AttributeError, TypeError, ValueError) as ex:
        evaluable = False
        ctx.info("conversion-table", EF, f"converters not evaluable ({ex}); falling back to the literal rule")
    if evaluable:
        ctx.fact(len(strings) * 2)
        ctx.check("conversion-table", f"{EF}:{TO_LF}/{TO_CRLF}", not bad, f"over all {len(strings)} strings of length <= 5 over {{a, LF, CR, NUL}}: binary content is unchanged and the result does not depend on how the content is chunked", construct=bad[0][:200] if bad else "", message=f"end-of-line conversion law broken: {bad[0] if bad else ''} ({len(bad)} table rows fail)")
        keys_using = {(r_, w_): sorted(k for k, row in rows.items() if row and row[0] == r_ and (row[1] == w_ or row[1] == NATIVE)) for r_ in (TO_LF, TO_CRLF) for w_ in (TO_LF, TO_CRLF)}
        for reader in (TO_LF, TO_CRLF):
            for writer in (TO_LF, TO_CRLF):
                if not any(k[:2] == (reader, writer) for k in pair_bad):
                    ctx.check("conversion-table", f"{EF}:read={reader},write={writer}", True, f"canonical text (a fixed point of the reader) is a fixed point of reader(writer(.)) — eol settings {keys_using[(reader, writer)]}")
                for (r_, w_, cls_), fails in sorted(pair_bad.items()):
                    if (r_, w_) != (reader, writer):
                        continue
                    x, y, back = fails[0]
                    ctx.violation("conversion-table", f"{EF}:read={reader},write={writer}[{cls_}]", f"{x!r} -> {y!r} -> {back!r}", f"eol settings {keys_using[(reader, writer)]}: repository text {x!r} is written to the working tree as {y!r} and read back as {back!r} ({len(fails)} of the table's canonical texts, class {cls_}) — a fresh checkout reports the file as changed and the next commit stores different content")
    else:
        ctx.check("conversion-literals", f"{EF}:{TO_LF}", any(call_attr(c) == "replace" and [const_value(a) for a in c.args] == [b"\r\n", b"\n"] for c in calls_in(fl)), "to-LF replaces CRLF by LF")
        rx = [s for s in mod.tree.body if isinstance(s, ast.Assign) and norm(s.targets[0]) == "_UNIX_NL_RE"]
        pat = const_value(rx[0].value.args[0]) if rx and isinstance(rx[0].value, ast.Call) and rx[0].value.args else None
        ctx.check("conversion-literals", f"{EF}:{TO_CRLF}", pat == rb"(?<!\r)\n" and any(norm(c.func) == "_UNIX_NL_RE.sub" and const_value(c.args[0]) == b"\r\n" for c in calls_in(fc)), "to-CRLF substitutes CRLF only for LFs not already preceded by CR")
    # ---- read converters always see the whole file ------------------------------------------------------------
    n_sites = 0
    for rel in repo.python_files():
        if "/tests/" in rel or ".reader(" not in repo.text(rel):
            continue
        for q, f in repo.module(rel).functions().items():
            loops = [l_ for l_ in walk_own(f) if isinstance(l_, ast.For) and any(call_attr(c) == "reader" and call_recv(c) == norm(l_.target) for c in calls_in(l_))]
            for l_ in loops:
                n_sites += 1
                arg = [norm(c.args[0]) for c in calls_in(l_) if call_attr(c) == "reader" and c.args][0]
                inits = [norm(s_.value) for s_ in walk_own(f) if isinstance(s_, ast.Assign) and norm(s_.targets[0]) == arg and s_.lineno < l_.lineno and not any(s_ in ast.walk(x) for x in [l_])]
                nested = any(isinstance(o, (ast.For, ast.While)) and o is not l_ and any(x is l_ for x in ast.walk(o)) for o in walk_own(f))
                import re as _re

                ok = bool(inits) and all(_re.fullmatch(r"\[\w+\.read\(\)\]", i_) for i_ in inits) and not nested
                ctx.check("readers-see-whole-file", f"{rel}:{q}", ok, f"the read converters are applied once to [<file>.read()] ({inits})", construct=str(inits), message=f"{q} feeds the read converters {inits}{' block by block inside another loop' if nested else ''} instead of the whole file in one chunk: an eol converter decides text/binary and matches CR LF per call, so a CR LF pair or a NUL on the other side of a block boundary gives a different canonical content (and sha) than the one committed")
    ctx.require(n_sites >= 2, f"only {n_sites} reader-application sites found")
    fis = repo.func(FI, "internal_size_sha_file_byname")
    ctx.check("readers-see-whole-file", f"{FI}:internal_size_sha_file_byname", any(norm(c.func) == "filtered_input_file" for c in calls_in(fis)), "the dirstate's sha of a filtered file is computed through filtered_input_file")
    # ---- application order ------------------------------------------------------------
    fo = repo.func(FI, "filtered_output_bytes")
    lo = [n for n in walk_own(fo) if isinstance(n, ast.For)]
    ctx.check("application-order", f"{FI}:filtered_output_bytes", len(lo) == 1 and norm(lo[0].iter) == "reversed(filters)" and any(norm(c.func) == f"{norm(lo[0].target)}.writer" for c in calls_in(lo[0])), "writers are applied in reversed stack order", construct=norm(lo[0].iter) if lo else "")
    fi = repo.func(FI, "filtered_input_file")
    li = [n for n in walk_own(fi) if isinstance(n, ast.For)]
    ctx.check("application-order", f"{FI}:filtered_input_file", len(li) == 1 and norm(li[0].iter) == "filters" and any(norm(c.func) == f"{norm(li[0].target)}.reader" for c in calls_in(li[0])), "readers are applied in stack order", construct=norm(li[0].iter) if li else "")
    # ---- write converters see the whole content too (the NUL decision is per file, not per chunk) ----------------------
    n_out = 0
    for rel in repo.python_files():
        if "/tests/" in rel or "filtered_output_bytes(" not in repo.text(rel):
            continue
        tree_ = repo.module(rel).tree
        parents_ = {}
        for n_ in ast.walk(tree_):
            for ch in ast.iter_child_nodes(n_):
                parents_[id(ch)] = n_
        for c in (n_ for n_ in ast.walk(tree_) if isinstance(n_, ast.Call) and (call_attr(n_) or norm(n_.func)).split(".")[-1] == "filtered_output_bytes" and n_.args):
            n_out += 1
            a0 = c.args[0]
            loop_vars = set()
            cur = c
            while id(cur) in parents_:
                cur = parents_[id(cur)]
                if isinstance(cur, (ast.For, ast.AsyncFor)):
                    loop_vars |= {n_.id for n_ in ast.walk(cur.target) if isinstance(n_, ast.Name)}
                if isinstance(cur, (ast.ListComp, ast.GeneratorExp, ast.SetComp, ast.DictComp)):
                    for gen in cur.generators:
                        loop_vars |= {n_.id for n_ in ast.walk(gen.target) if isinstance(n_, ast.Name)}
                if isinstance(cur, (ast.FunctionDef, ast.AsyncFunctionDef)):
                    break
            piecewise = isinstance(a0, (ast.List, ast.Tuple)) and len(a0.elts) == 1 and isinstance(a0.elts[0], ast.Name) and a0.elts[0].id in loop_vars and any(w in a0.elts[0].id.lower() for w in ("chunk", "line", "block", "piece", "part"))
            ctx.check("writers-see-whole-content", f"{rel}:L{c.lineno}", not piecewise, "filtered_output_bytes is given the whole content of a file, not one chunk of a loop at a time", construct=norm(c)[:90], message=f"{rel}:L{c.lineno} converts a file chunk by chunk on the way out ({norm(c)[:80]}): the NUL test of the converters then sees single chunks, binary content whose NUL lies in another chunk is converted, while the reader decides on the whole file — binary content is changed by checkout and a fresh tree reports changes")
    ctx.require(n_out >= 3, f"only {n_out} calls of filtered_output_bytes found (hand-confirmed: >= 5)")
    # ---- the hardlink guard asks for the rules of the accelerator tree's own path --------------------------------------
    TF = "breezy/bzr/transform.py"
    fcf = repo.func(TF, "_create_files")
    acc = [c for c in (n_ for n_ in ast.walk(fcf) if isinstance(n_, ast.Call)) if call_attr(c) == "iter_search_rules" and call_recv(c) == "accelerator_tree" and c.args]
    ctx.require(len(acc) >= 1, f"{TF}:_create_files: accelerator_tree.iter_search_rules(...) not found")
    parents_cf = {}
    for n_ in ast.walk(fcf):
        for ch in ast.iter_child_nodes(n_):
            parents_cf[id(ch)] = n_
    for c in acc:
        second = set()
        cur = c
        while id(cur) in parents_cf:
            cur = parents_cf[id(cur)]
            gens = cur.generators if isinstance(cur, (ast.ListComp, ast.GeneratorExp, ast.SetComp, ast.DictComp)) else []
            tgts = [g_.target for g_ in gens] + ([cur.target] if isinstance(cur, ast.For) else [])
            for t in tgts:
                if isinstance(t, ast.Tuple) and len(t.elts) == 2 and isinstance(t.elts[1], ast.Name):
                    second.add(t.elts[1].id)
        a0 = c.args[0]
        ok_acc = isinstance(a0, (ast.List, ast.Tuple)) and len(a0.elts) == 1 and isinstance(a0.elts[0], ast.Name) and a0.elts[0].id in second
        ctx.check("accelerator-rules-under-accelerator-path", f"{TF}:_create_files", ok_acc, "the rules that forbid reusing an accelerator file are looked up under the accelerator tree's path of the (tree path, accelerator path) pair", construct=norm(c)[:90], message=f"_create_files asks accelerator_tree.iter_search_rules({norm(a0)[:40]}) — not the accelerator-side path of each pair: after an uncommitted rename across a rule boundary the guard consults the wrong name, a file stored in its working-tree (converted) form is hard-linked into the new tree and a fresh `branch --hardlink` reports it as modified")
    # ---- fourth round: the path whose filters a merge writes with is found by file identity, not by name ----------------
    MG = "breezy/merge.py"
    fft = repo.func(MG, "Merge3Merger._get_filter_tree_path")
    gft = build_cfg(fft)
    finds = calling(gft, name="find_previous_path") or calling(gft, attr="find_previous_path")
    ctx.require(bool(finds), f"{MG}:Merge3Merger._get_filter_tree_path: find_previous_path() not found")
    rets_ = [n.id for n in gft.nodes if isinstance(n.ast, ast.Return) and n.ast.value is not None and not (isinstance(n.ast.value, ast.Constant) and n.ast.value.value is None)]
    okb, wit = gft.always_before(finds, rets_)
    ctx.check("merge-filter-path-by-identity", f"{MG}:Merge3Merger._get_filter_tree_path", bool(rets_) and okb, "every path answered for the filter lookup comes after find_previous_path(other_tree, working_tree, path): the working-tree file is matched by identity", construct=gft.show_path(wit) if wit else "", message="_get_filter_tree_path can answer a path without find_previous_path(): a path that is versioned in the working tree under OTHER's name may be a different file (THIS renamed the original and added a new file under the old name) — the merged text is written through the eol rule of the wrong name and is read back with its CRLF form as canonical content")
    # ---- fourth round: the filter stack handed out by the shared cache is never edited in place -------------------------
    n_cfs = 0
    _MUT = {"extend", "append", "insert", "remove", "pop", "sort", "reverse", "clear", "__iadd__"}
    for rel_ in repo.python_files(sub="breezy"):
        for q_, f_ in repo.module(rel_).functions().items():
            if not q_.endswith("._content_filter_stack"):
                continue
            n_cfs += 1
            shared = {t.id for a in ast.walk(f_) if isinstance(a, ast.Assign) and isinstance(a.value, ast.Call) and ((call_attr(a.value) or "") in ("_content_filter_stack", "_get_filter_stack_for")) for t in a.targets if isinstance(t, ast.Name)}
            edits = [norm(c)[:60] for c in calls_in(f_) if call_attr(c) in _MUT and call_recv(c) in shared]
            edits += [norm(a)[:60] for a in ast.walk(f_) if isinstance(a, ast.AugAssign) and isinstance(a.target, ast.Name) and a.target.id in shared]
            edits += [norm(a)[:60] for a in ast.walk(f_) if isinstance(a, (ast.Assign, ast.Delete)) and any(isinstance(t, ast.Subscript) and isinstance(t.value, ast.Name) and t.value.id in shared for t in (a.targets if hasattr(a, "targets") else []))]
            ctx.check("cached-stack-not-edited", f"{rel_}:{q_}", not edits, "the list returned by the shared filter-stack lookup (cached per preference values in filters._stack_cache) is copied before anything is added", construct="; ".join(edits), message=f"{q_} edits the list it got from the shared filter-stack cache in place (`{edits[0] if edits else ''}`): filters._stack_cache hands the same list to every path with the same preference values, so after one lookup of a path with a custom driver every other path with the same eol setting runs that driver too — binary content is converted and an untouched tree reports changes")
    ctx.require(n_cfs >= 2, f"_content_filter_stack implementations found: {n_cfs} (expected Tree and GitWorkingTree at least)")


MUTANTS = [
    Mutant("merge filter path taken by name when versioned", "breezy/merge.py", "            filter_path = _mod_tree.find_previous_path(\n                self.other_tree, self.working_tree, path\n            )\n            if filter_path is None:\n", "            if self.working_tree.has_filename(path):\n                return path\n            filter_path = _mod_tree.find_previous_path(\n                self.other_tree, self.working_tree, path\n            )\n            if filter_path is None:\n", expect="merge-filter-path-by-identity"),
    Mutant("git custom filters appended to the cached stack in place", "breezy/git/workingtree.py", "            stack = list(stack) + self._git_custom_filter_stack(path)\n", "            stack += self._git_custom_filter_stack(path)\n", expect="cached-stack-not-edited"),
    Mutant("hardlink guard looks rules up under the tree path", "breezy/bzr/transform.py", "                if not next(accelerator_tree.iter_search_rules([ap]))\n", "                if not next(accelerator_tree.iter_search_rules([tp]))\n", expect="accelerator-rules-under-accelerator-path"),
    Mutant("to-LF converts the CRLF of CR CR LF again (fix 44a15cd reverted)", EF, '        return [_DOS_NL_RE.sub(b"\\n", content)]\n', '        return [content.replace(b"\\r\\n", b"\\n")]\n', expect="conversion-table"),
    Mutant("to-CRLF looks only at the first chunk for NUL", EF, '    content = b"".join(chunks)\n    if b"\\x00" in content:\n        return [content]\n    else:\n        return [_UNIX_NL_RE', '    content = b"".join(chunks)\n    if b"\\x00" in chunks[0]:\n        return [content]\n    else:\n        return [_UNIX_NL_RE', expect="nul-guard"),
    Mutant("size/sha of filtered files computed block-wise", FI, "        if filters:\n            f, _size = filtered_input_file(f, filters)\n        return osutils.size_sha_file(f)\n", "        if filters:\n            out = []\n            for block in osutils.file_iterator(f):\n                chunks = [block]\n                for filter in filters:\n                    if filter.reader is not None:\n                        chunks = filter.reader(chunks)\n                out.extend(chunks)\n            f = BytesIO(b\"\".join(out))\n        return osutils.size_sha_file(f)\n", expect="readers-see-whole-file"),
    Mutant("binary test on the first chunk only", EF, "    content = b\"\".join(chunks)\n    if b\"\\x00\" in content:\n        return [content]\n    else:\n        return [_UNIX_NL_RE.sub(b\"\\r\\n\", content)]", "    if chunks and b\"\\x00\" in chunks[0]:\n        return chunks\n    else:\n        return [_UNIX_NL_RE.sub(b\"\\r\\n\", c) for c in chunks]", expect="whole-content"),
    Mutant("'crlf' row stores CRLF in the repository", EF, "    \"crlf\": [ContentFilter(_to_lf_converter, _to_crlf_converter)],", "    \"crlf\": [ContentFilter(_to_crlf_converter, _to_crlf_converter)],", expect="table-row"),
    Mutant("conversion before the NUL test", EF, "    content = b\"\".join(chunks)\n    if b\"\\x00\" in content:\n        return [content]\n    else:\n        return [_UNIX_NL_RE.sub(b\"\\r\\n\", content)]", "    content = _UNIX_NL_RE.sub(b\"\\r\\n\", b\"\".join(chunks))\n    if b\"\\x00\" in content:\n        return [content]\n    else:\n        return [content]", expect=["nul-guard", "whole-content"]),
    Mutant("writers applied in forward order", FI, "        for filter in reversed(filters):", "        for filter in filters:", expect="application-order"),
    Mutant("look-behind dropped from the LF regex", EF, "_UNIX_NL_RE = re.compile(rb\"(?<!\\r)\\n\")", "_UNIX_NL_RE = re.compile(rb\"\\n\")", expect="conversion-table"),
    Mutant("neutral: rows reordered", EF, "    \"lf\": [ContentFilter(_to_lf_converter, _to_lf_converter)],\n    \"crlf\": [ContentFilter(_to_lf_converter, _to_crlf_converter)],", "    \"crlf\": [ContentFilter(_to_lf_converter, _to_crlf_converter)],\n    \"lf\": [ContentFilter(_to_lf_converter, _to_lf_converter)],", neutral=True),
]
