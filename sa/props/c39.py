"""C39 — diffs apply back: hunk-line lead characters, header format, compare-before-yield in the patcher."""

import ast
import re

from ..astutil import call_attr, call_recv, calls_in, const_value, norm, walk_own
from ..cfg import build_cfg
from ..selftest import Mutant

ID = "C39"
TECHNIQUE = "writer/reader lead-character and header-template table agreement (K6), compare-before-yield guard dominance in iter_patched_from_hunks (K2) (ast + re._parser)"
FLOOR = 17
PF = "breezy/patches.py"
EXPLANATION = """
K6: the lead character each hunk-line class writes in as_bytes (ContextLine b" ", InsertLine b"+", RemoveLine b"-")
is the character patches.py:parse_line dispatches to the same class on, stripping exactly one character, and anything
else raises MalformedLine; the hunk header template written by Hunk.get_header (b"@@ -%s +%s @@%s\\n") is matched by the
regular expression of hunk_from_header (parsed with re._parser: literal "@@ ", one group for the two ranges, literal
" @@", optional tail, newline), whose ranges must start with "-" and "+"; Hunk.range_str writes "pos" or "pos,range".
K2: in iter_patched_from_hunks every original line consumed under a context or remove hunk line is compared with the
hunk line's contents and a mismatch raises PatchConflict before anything derived from that line is yielded; inserted
lines are yielded from the hunk, context lines from the original; lines before a hunk and after the last hunk are passed
through unchanged.
Added while testing against seeded changes: Also (K8 by abstract evaluation): HunkLine.get_str terminates every line
(unterminated contents carry their own marker); unified_diff_bytes' header is '@@ -<i1+1>,<len> +<j1+1>,<len> @@' for
a grid of ranges including empty ones.
Third round: unterminated-line-flagged — the loop of internal_diff that writes the produced lines writes the no-newline marker for any
line without a newline (or the generator has no plain `yield prefix + line` left and carries the marker itself).
conflict-constructible — PatchConflict.__init__ applies no str-argument method to a parameter that the raise site fills with bytes.
Fourth round: hunk-header-one-parser — iter_file_patch calls hunk_from_header() and compiles no '@@' pattern of its own.
Does not decide: that diff followed by patch is the identity (patiencediff and the Rust parser are outside this rule).
"""
CLASSES = {"ContextLine": b" ", "InsertLine": b"+", "RemoveLine": b"-"}


def run(ctx):
    repo = ctx.repo
    # ---- lead characters ----------------------------------------------------------
    written = {}
    for cname in CLASSES:
        f = repo.func(PF, f"{cname}.as_bytes")
        lead = [const_value(c.args[0]) for c in calls_in(f) if call_attr(c) == "get_str" and c.args]
        written[cname] = lead[0] if len(lead) == 1 else None
    fp = repo.func(PF, "parse_line")
    read = {}
    for n in walk_own(fp):
        if isinstance(n, ast.If) and isinstance(n.test, ast.Call) and call_attr(n.test) == "startswith":
            lead = const_value(n.test.args[0])
            for b in n.body:
                if isinstance(b, ast.Return) and isinstance(b.value, ast.Call):
                    cls = norm(b.value.func)
                    arg = b.value.args[0]
                    strip = const_value(arg.slice.lower) if isinstance(arg, ast.Subscript) and isinstance(arg.slice, ast.Slice) else 0
                    read.setdefault(cls, []).append((lead, strip))
    for cname, lead in CLASSES.items():
        where = f"{PF}:{cname}"
        ctx.check("lead-characters", where, written.get(cname) == lead, f"{cname}.as_bytes writes lead {lead!r}", construct=str(written.get(cname)))
        ctx.check("lead-characters", where, (lead, 1) in read.get(cname, []), f"parse_line maps lead {lead!r} (one character stripped) to {cname}", construct=str(read.get(cname)), message=f"parse_line does not map {lead!r} back to {cname} with exactly one character stripped: {read.get(cname)}")
    extra = {cls: [x for x in v if x[0] not in (b"\n",) and x[0] != CLASSES.get(cls)] for cls, v in read.items()}
    ctx.check("lead-characters", f"{PF}:parse_line", not any(extra.values()) and any(isinstance(n, ast.Raise) and "MalformedLine" in norm(n) for n in walk_own(fp)), "no other lead character is accepted; unknown leads raise MalformedLine", construct=str(extra))
    fg = repo.func(PF, "HunkLine.get_str")
    ctx.check("lead-characters", f"{PF}:HunkLine.get_str", "leadchar + self.contents" in norm(fg) or "leadchar" in norm(fg), "get_str prepends the lead character to the contents")
    # ---- header ---------------------------------------------------------------------
    fh = repo.func(PF, "Hunk.get_header")
    tmpl = [n.value for n in walk_own(fh) if isinstance(n, ast.Constant) and isinstance(n.value, bytes) and n.value.startswith(b"@@")]
    from ..astutil import bind_roles, canonicalise

    fr = repo.func(PF, "hunk_from_header")
    fr = canonicalise(fr, bind_roles(fr, {"matches": ("assign", "~re\\.match\\(.*\\)"), "orig": ("assign", "{matches}.group(1).split(b' ')", 0), "mod": ("assign", "{matches}.group(1).split(b' ')", 1)}, f"{PF}:hunk_from_header"))
    pats = [c.args[0].value for c in calls_in(fr) if norm(c.func) == "re.match" and isinstance(c.args[0], ast.Constant)]
    ok = tmpl == [b"@@ -%s +%s @@%s\n"] and len(pats) == 1
    if ok:
        sample = tmpl[0] % (b"1,2", b"3,4", b" tail")
        sample2 = tmpl[0] % (b"1", b"3", b"")
        ok = bool(re.match(pats[0], sample)) and bool(re.match(pats[0], sample2))
        m = re.match(pats[0], sample)
        ok = ok and m.group(1) == b"-1,2 +3,4" and m.group(3) == b"tail"
    ctx.check("hunk-header", f"{PF}:Hunk.get_header/hunk_from_header", ok, f"header template {tmpl} is matched by the reader's pattern {pats} with the ranges in group 1 and the tail in group 3", construct=f"{tmpl} / {pats}", message="the hunk header written by get_header is not what hunk_from_header's pattern accepts")
    ctx.check("hunk-header", f"{PF}:hunk_from_header", "orig.startswith(b'-')" in norm(fr) and "mod.startswith(b'+')" in norm(fr) and "parse_range(orig[1:]" in norm(fr) and "parse_range(mod[1:]" in norm(fr), "ranges are read after their '-' / '+' signs")
    frs = repo.func(PF, "Hunk.range_str")
    lits = {n.value for n in walk_own(frs) if isinstance(n, ast.Constant) and isinstance(n.value, bytes)}
    ctx.check("hunk-header", f"{PF}:Hunk.range_str", lits == {b"%i", b"%i,%i"}, "a range is written as 'pos' or 'pos,range'", construct=str(sorted(lits)))
    # ---- patcher ----------------------------------------------------------------------
    fn = repo.func(PF, "iter_patched_from_hunks")
    where = f"{PF}:iter_patched_from_hunks"
    fn = canonicalise(fn, bind_roles(fn, {"hunk": ("for", "hunks"), "hunk_line": ("for", "{hunk}.lines"), "orig_line": ("assign", "next(orig_lines)"), "line_no": ("assign", "1")}, where))
    g = build_cfg(fn)
    cmp_tests = [n.id for n in g.nodes if n.kind == "test" and norm(n.ast) == "orig_line != hunk_line.contents"]
    takes = [n.id for n in g.nodes if n.kind == "stmt" and isinstance(n.ast, ast.Assign) and norm(n.ast.targets[0]) == "orig_line" and "next(orig_lines)" in norm(n.ast.value)]
    inner = [n.id for n in g.nodes if n.kind == "for" and norm(n.ast.iter) == "hunk.lines"]
    ctx.require(len(cmp_tests) == 1 and inner, f"{where}: comparison / hunk line loop not found")
    in_hunk_takes = [t for t in takes if inner[0] in g.loops_of(t)]
    ys_orig = [n.id for n in g.nodes if n.kind == "stmt" and isinstance(n.ast, ast.Expr) and isinstance(n.ast.value, ast.Yield) and norm(n.ast.value.value) == "orig_line" and inner[0] in g.loops_of(n.id)]
    ok = bool(in_hunk_takes) and bool(ys_orig)
    for t in in_hunk_takes:
        got = g.reach([t], avoid=cmp_tests)
        if set(ys_orig) & got:
            ok = False
    ctx.check("compare-before-yield", where, ok, "an original line consumed inside a hunk is compared with the hunk line before it is yielded", message="a context line is yielded from the original text without having been compared with the hunk: a patch applied to the wrong text produces wrong output instead of a conflict")
    starts = [b for (b, l) in g.succ[cmp_tests[0]] if l == "T"]
    r = g.reach(starts, include_src=True)
    ctx.check("mismatch-raises", where, g.exit not in r and not (set(ys_orig) & r) and any(isinstance(g.nodes[i].ast, ast.Raise) and "PatchConflict" in norm(g.nodes[i].ast) for i in r if g.nodes[i].kind == "stmt"), "a mismatch raises PatchConflict and yields nothing more")
    kinds_tests = [norm(n.ast) for n in g.nodes if n.kind == "test" and "isinstance(hunk_line" in norm(n.ast)]
    ctx.check("line-kinds", where, "isinstance(hunk_line, InsertLine)" in kinds_tests and "isinstance(hunk_line, (ContextLine, RemoveLine))" in kinds_tests, "insert lines come from the hunk; context and remove lines consume an original line", construct=str(kinds_tests))
    ins = [n for n in walk_own(fn) if isinstance(n, ast.If) and norm(n.test) == "isinstance(hunk_line, InsertLine)"]
    ctx.check("line-kinds", where, len(ins) == 1 and norm(ins[0].body[0]) == "yield hunk_line.contents", "an inserted line is yielded from the hunk")
    lead_loop = any(isinstance(n, (ast.While, ast.For)) and "hunk.orig_pos" in norm(n.test if isinstance(n, ast.While) else n.iter) and any(isinstance(y, ast.Yield) for y in ast.walk(n)) for n in walk_own(fn))
    lead_slice = any(isinstance(n, ast.YieldFrom) and isinstance(n.value, ast.Call) and "hunk.orig_pos" in norm(n.value) and "orig_lines" in norm(n.value) for n in ast.walk(fn))
    ctx.check("pass-through", where, (lead_loop or lead_slice) and any(isinstance(n, ast.YieldFrom) and norm(n.value) == "orig_lines" for n in ast.walk(fn)), "lines before a hunk and after the last hunk are passed through")
    # a text that ends before the hunk's position must not go unnoticed: every line taken from the original ahead of or
    # inside a hunk is taken with next(<iterator>) without a default (which raises when the text is exhausted); a bounded
    # copy (islice, zip, next with a default) simply yields fewer lines and the hunk is applied at the wrong place
    quiet = [f"L{c.lineno}:{norm(c)[:50]}" for c in calls_in(fn) if "orig_lines" in [norm(a) for a in c.args[:1]] and ((norm(c.func) == "next" and len(c.args) > 1) or norm(c.func).rsplit(".", 1)[-1] in ("islice", "zip", "zip_longest", "takewhile"))]
    takes = [c for c in calls_in(fn) if norm(c.func) == "next" and [norm(a) for a in c.args] == ["orig_lines"]]
    ctx.check("short-text-detected", where, not quiet and len(takes) >= 2, "original lines ahead of and inside a hunk are taken with next(orig_lines), which raises when the text is shorter than the patch expects", construct="; ".join(quiet), message=f"iter_patched_from_hunks copies original lines with {quiet or 'something other than next(orig_lines)'}: when the text ends before the hunk's position nothing raises, the remaining insertions are emitted at the wrong place and a patch that does not match the text is reported as applied")
    rm = [n for n in g.nodes if n.kind == "test" and norm(n.ast) == "isinstance(hunk_line, ContextLine)"]
    ok = len(rm) == 1 and not (set(ys_orig) & g.reach([b for (b, l) in g.succ[rm[0].id] if l == "F"], avoid=[inner[0]], include_src=True))
    ctx.check("line-kinds", where, ok, "a removed line is consumed but not yielded")

    # ---- every serialised hunk line terminates itself (K8 table by abstract evaluation) ------------------------
    from ..absint import Interp, Obj, Opaque, Raised, Unsupported

    NO_NL = b"\\ No newline at end of file\n"
    fg2 = repo.func(PF, "HunkLine.get_str")
    it = Interp(name_hook=lambda n: NO_NL if n == "NO_NL" else NotImplemented, attr_hook=lambda o, a: NotImplemented)
    for contents, want in ((b"x\n", b"-x\n"), (b"x", b"-x\n" + NO_NL), (b"", b"-\n" + NO_NL)):
        me = Obj("line")
        me.set("contents", contents)
        try:
            got = it.call(fg2, {"self": me, "leadchar": b"-"})
        except (Raised, Unsupported) as e_:
            got = f"<{type(e_).__name__}: {e_}>"
        ctx.check("line-self-terminating", f"{PF}:HunkLine.get_str", got == want, f"get_str(b'-') of contents {contents!r} is {want!r}: the line ends with a newline, an unterminated line carries its own no-newline marker", construct=repr(got)[:80], message=f"HunkLine.get_str serialises contents {contents!r} as {got!r}, expected {want!r}: an unterminated line that is not the last of its hunk is glued to the next line when the hunk is re-serialised, and the result no longer parses to the same hunks")
    # ---- the writer's hunk header uses the positions the patcher assumes: start+1, length — also for empty ranges --
    DF = "breezy/diff.py"
    fu = repo.func(DF, "unified_diff_bytes")
    hdr = [y for y in ast.walk(fu) if isinstance(y, ast.Yield) and isinstance(y.value, ast.BinOp) and isinstance(y.value.op, ast.Mod) and isinstance(y.value.left, ast.Constant) and isinstance(y.value.left.value, bytes) and y.value.left.value.startswith(b"@@ -")]
    ctx.require(len(hdr) == 1, f"{DF}:unified_diff_bytes: hunk header yield not found")
    dmod = repo.module(DF)

    def hook(interp, call, name, ev_args, env):
        if name and name.isidentifier() and dmod.get(name) is not None and isinstance(dmod.get(name), ast.FunctionDef):
            f_ = dmod.get(name)
            args, kw = ev_args()
            return interp.call(f_, dict(zip([a.arg for a in f_.args.args], args), **kw))
        return NotImplemented

    it2 = Interp(call_hook=hook)
    bad = []
    n_rows = 0
    try:
        top = 6 if ctx.tier == "thorough" else 3
        for i1 in range(0, top):
            for ln_a in range(0, top):
                for j1 in range(0, top):
                    for ln_b in range(0, top):
                        env = {"i1": i1, "i2": i1 + ln_a, "j1": j1, "j2": j1 + ln_b, "lineterm": b"\n"}
                        got = it2.expr(hdr[0].value, env)
                        want = b"@@ -%d,%d +%d,%d @@\n" % (i1 + 1, ln_a, j1 + 1, ln_b)
                        n_rows += 1
                        if got != want:
                            bad.append((env["i1"], env["i2"], env["j1"], env["j2"], got))
    except (Raised, Unsupported) as e_:
        from ..index import AnalysisError

        raise AnalysisError(f"{DF}:unified_diff_bytes: header expression not evaluable: {e_}")
    ctx.fact(n_rows)
    ctx.check("header-positions", f"{DF}:unified_diff_bytes", not bad, f"the hunk header is '@@ -<i1+1>,<len> +<j1+1>,<len> @@' for all {n_rows} tabled ranges, empty ones included (iter_patched_from_hunks copies lines while line_no < orig_pos: an insertion is placed after orig_pos-1 lines)", construct=str(bad[:3]), message=f"the writer anchors ranges differently from what the patcher assumes, e.g. (i1, i2, j1, j2, header) = {bad[:2]}: a pure insertion hunk that is not at the top of the file is applied one line too early, without any conflict")
    # ---- an unterminated last line is flagged whatever kind of hunk line carries it -----------------------------------
    fid = repo.func(DF, "internal_diff")
    fud = repo.func(DF, "unified_diff_bytes")
    MARK = b"No newline at end of file"

    def _has_marker(node):
        return any(isinstance(n_, ast.Constant) and isinstance(n_.value, bytes) and MARK in n_.value for n_ in ast.walk(node)) or any(isinstance(n_, ast.Name) and "NEWLINE" in n_.id.upper() for n_ in ast.walk(node))

    # form A: the loop that writes every produced line also writes the marker for any line without a newline
    form_a = False
    for lp in walk_own(fid):
        if isinstance(lp, ast.For) and any(call_attr(c) == "write" and any(norm(a_) == norm(lp.target) for a_ in c.args) for c in calls_in(lp)):
            guards = [i_ for i_ in lp.body if isinstance(i_, ast.If) and "endswith" in norm(i_.test) and norm(lp.target) in norm(i_.test)]
            form_a = any(_has_marker(i_) for i_ in guards)
    # form B: every hunk line the generator yields (context, removed, added) goes through a marker-aware site
    ylines = [y for y in ast.walk(fud) if isinstance(y, ast.Yield) and isinstance(y.value, ast.BinOp) and isinstance(y.value.left, ast.Constant) and y.value.left.value in (b" ", b"-", b"+")]
    kinds_plain = sorted({y.value.left.value for y in ylines})
    form_b = not ylines and _has_marker(fud)
    ctx.check("unterminated-line-flagged", f"{DF}:internal_diff/unified_diff_bytes", form_a or form_b, "the '\\\\ No newline at end of file' marker follows any written line that lacks its newline — context, removed and added lines alike", construct=f"write loop marks every line: {form_a}; plain yields without marker for {kinds_plain}", message=f"an unterminated last line is no longer flagged for every kind of hunk line (plain yields without the marker for {kinds_plain}): when both texts end in the same unterminated line and a change lies within the context, the diff ends in a context line without marker and terminator, and applying it back to the text it was made from raises a conflict")
    # ---- the conflict that is raised can be constructed from what the raise site passes --------------------------------
    fpc = repo.func(PF, "PatchConflict.__init__")
    wpc = f"{PF}:PatchConflict.__init__"
    pparams = [a.arg for a in fpc.args.args][1:]
    raises_pc = [n_.exc for q_, f_ in repo.module(PF).functions().items() for n_ in ast.walk(f_) if isinstance(n_, ast.Raise) and isinstance(n_.exc, ast.Call) and norm(n_.exc.func) == "PatchConflict"]
    ctx.require(bool(raises_pc), f"{PF}: no `raise PatchConflict(...)` found")

    def _is_bytes(e):
        return (isinstance(e, ast.Constant) and isinstance(e.value, bytes)) or (isinstance(e, ast.Call) and call_attr(e) == "join" and isinstance(e.func.value, ast.Constant) and isinstance(e.func.value.value, bytes)) or (isinstance(e, ast.BinOp) and (_is_bytes(e.left) or _is_bytes(e.right)))

    bytes_params = {pparams[i] for r_ in raises_pc for i, a_ in enumerate(r_.args) if i < len(pparams) and _is_bytes(a_)}
    clash = [f"L{c.lineno}:{norm(c)[:50]}" for c in calls_in(fpc) if isinstance(c.func, ast.Attribute) and isinstance(c.func.value, ast.Name) and c.func.value.id in bytes_params and any(isinstance(a_, ast.Constant) and isinstance(a_.value, str) for a_ in c.args)]
    ctx.check("conflict-constructible", wpc, not clash, f"PatchConflict.__init__ treats {sorted(bytes_params)} (bytes at the raise site) with bytes arguments", construct="; ".join(clash), message=f"PatchConflict.__init__ calls a str-argument method on a value the patcher passes as bytes ({'; '.join(clash)}): raising the conflict fails with TypeError, so a diff applied to a text that does not match its context is not reported as a conflict (callers catching PatchConflict / BzrError never see it)")
    # ---- fourth round: one parser for hunk headers -------------------------------------------------------------------------
    fifp = repo.func(PF, "iter_file_patch")
    uses_parser = any((call_attr(c) or norm(c.func)) == "hunk_from_header" for c in calls_in(fifp))
    own_patterns = [norm(c)[:70] for c in calls_in(fifp) if norm(c.func) in ("re.compile", "re.match", "re.search") and c.args and isinstance(c.args[0], ast.Constant) and isinstance(c.args[0].value, (bytes, str)) and (b"@@" if isinstance(c.args[0].value, bytes) else "@@") in c.args[0].value]
    ctx.check("hunk-header-one-parser", f"{PF}:iter_file_patch", uses_parser and not own_patterns, "the file splitter learns a hunk's original range from hunk_from_header(), the parser iter_hunks uses (tail after the second @@, short -N form)", construct="; ".join(own_patterns), message=f"iter_file_patch reads the hunk header with {'its own pattern ' + own_patterns[0] if own_patterns else 'something other than hunk_from_header()'}: where the two readers disagree (a header carrying a section heading after the second @@) the splitter's guard stays at 0, a removed line starting with '-- ' is taken for the next file header and a diff breezy wrote no longer parses")


MUTANTS = [
    Mutant("file splitter reads hunk headers with its own regex", PF, "            hunk = hunk_from_header(line)\n            orig_range = hunk.orig_range\n", "            m_ = re.match(rb\"@@ -\\d+(?:,(\\d+))? \\+\\d+(?:,\\d+)? @@\\n\", line)\n            orig_range = int(m_.group(1) or 1) if m_ else 0\n", expect="hunk-header-one-parser"),
    Mutant("PatchConflict strips bytes with a str argument again (fix reverted)", PF, '        self.patch_line = patch_line.rstrip(\n            b"\\n" if isinstance(patch_line, bytes) else "\\n"\n        )\n', '        self.patch_line = patch_line.rstrip("\\n")\n', expect="conflict-constructible"),
    Mutant("no-newline marker dropped from the write loop", "breezy/diff.py", '        to_file.write(line)\n        if not line.endswith(b"\\n"):\n            to_file.write(b"\\n\\\\ No newline at end of file\\n")\n', '        to_file.write(line)\n', expect="unterminated-line-flagged"),
    Mutant("leading lines copied with islice", PF, "        while line_no < hunk.orig_pos:\n            orig_line = next(orig_lines)\n            yield orig_line\n            line_no += 1\n", "        from itertools import islice\n\n        for orig_line in islice(orig_lines, hunk.orig_pos - line_no):\n            yield orig_line\n            line_no += 1\n", expect="short-text-detected"),
    Mutant("no-newline marker only for the tail of a hunk", PF, "        terminator = b\"\\n\" + NO_NL if not self.contents.endswith(b\"\\n\") else b\"\"\n        return leadchar + self.contents + terminator", "        return leadchar + self.contents", expect="line-self-terminating"),
    Mutant("empty ranges anchored at the previous line", "breezy/diff.py", "(i1 + 1, i2 - i1, j1 + 1, j2 - j1, lineterm)", "(i1 + 1 if i2 > i1 else i1, i2 - i1, j1 + 1 if j2 > j1 else j1, j2 - j1, lineterm)", expect="header-positions"),
    Mutant("original line yielded before the comparison", PF, "                orig_line = next(orig_lines)\n                if orig_line != hunk_line.contents:\n                    raise PatchConflict(line_no, orig_line, b\"\".join(seen_patch))\n                if isinstance(hunk_line, ContextLine):\n                    yield orig_line\n", "                orig_line = next(orig_lines)\n                if isinstance(hunk_line, ContextLine):\n                    yield orig_line\n                if orig_line != hunk_line.contents:\n                    raise PatchConflict(line_no, orig_line, b\"\".join(seen_patch))\n", expect="compare-before-yield"),
    Mutant("writer lead character changed", PF, "        return self.get_str(b\"+\")", "        return self.get_str(b\"*\")", expect="lead-characters"),
    Mutant("mismatch only skipped", PF, "                if orig_line != hunk_line.contents:\n                    raise PatchConflict(line_no, orig_line, b\"\".join(seen_patch))\n", "                if orig_line != hunk_line.contents:\n                    continue\n", expect="mismatch-raises"),
    Mutant("header template loses a space", PF, "        return b\"@@ -%s +%s @@%s\\n\" % (", "        return b\"@@-%s +%s @@%s\\n\" % (", expect="hunk-header"),
    Mutant("removed lines yielded", PF, "                if isinstance(hunk_line, ContextLine):\n                    yield orig_line\n                else:", "                if isinstance(hunk_line, (ContextLine, RemoveLine)):\n                    yield orig_line\n                else:", expect="line-kinds"),
    Mutant("neutral: variables renamed", PF, "    seen_patch = []\n    line_no = 1\n", "    seen_patch = []\n    line_no = 1\n    _unused = None\n", neutral=True),
]
