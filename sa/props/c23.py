"""C23 — checkouts and their master branches stay in step (commit path)."""

import ast

from ..astutil import call_attr, call_recv, calls_in, norm, walk_own
from ..cfg import assigns_to
from ..rules import calling, fn_cfg, k1_before, k1_never_after, k2_unreachable, need
from ..selftest import Mutant

ID = "C23"
TECHNIQUE = "CFG ordering (master before local), guard dominance for the out-of-date refusals and the --local path (K1/K2) in breezy/commit.py and breezy/uncommit.py (ast)"
FLOOR = 17
CM = "breezy/commit.py"
UC = "breezy/uncommit.py"
EXPLANATION = """
R1 (K1) Commit._update_branches: when the branch is bound, master_branch.import_last_revision_info_and_tags(...) precedes
   self.branch.set_last_revision_info(...) on every path (a failure on the master leaves the local branch untouched),
   and the local tip is set to the revno / revision id the master returned.
R2 (K2) Commit._check_bound_branch: when the local and master tips differ, BoundBranchOutOfDate is raised before the
   master is write-locked or recorded as bound branch; a master that is itself bound is refused; the values compared
   are master_branch.last_revision() and branch.last_revision().
R3 (K2) --local: with self.local set, get_master_branch() is never called and bound_branch is never set, so only the
   local branch can change (commit() clears master_branch before the check).
R4 (K1) both out-of-date checks dominate get_commit_builder (shared with C01-R4); _check_out_of_date_tree raises
   OutOfDateTree when the master tip differs from the tree's first parent.
R5 (K1) uncommit(): the master tip is moved before the local tip, both under `not dry_run`.
overwrite-always-moves-tip: every _update_revisions implementation (branch.py, git/branch.py) reaches its tip-setting call on
every normal path when overwrite is true (third-round seed).
Fourth round: InterFromGitBranch.pull reaches the local _basic_pull only through master_branch.pull once the master was looked up;
switch._set_branch_location passes set_bound_location(<branch>) on every way out after set_bound_location(None).
Does not decide: that update/pull in a checkout leave local == master for all histories.
"""


def run(ctx):
    repo = ctx.repo
    # ---- R1 -----------------------------------------------------------------
    fn, g, where = fn_cfg(ctx, CM, "Commit._update_branches")
    imp = need(where, calling(g, attr="import_last_revision_info_and_tags", recv="self.master_branch"), "master_branch.import_last_revision_info_and_tags")
    loc = need(where, calling(g, attr="set_last_revision_info", recv="self.branch"), "self.branch.set_last_revision_info")
    gb = g.assume({"self.bound_branch": True, "self.builder.updates_branch": False})
    loc_fwd = [i for i in loc if i in gb.reachable_from_entry()]
    ok, w = gb.always_before(imp, loc_fwd)
    ctx.check("R1-master-first", where, bool(loc_fwd) and ok, "bound branch: the master records the revision before the local tip moves", message="the local branch tip can move before (or without) the master having accepted the revision", witness=g.show_path(w) if w else None)
    k2_unreachable(ctx, "R1-unbound-skips-master", where, g, {"self.bound_branch": False}, imp, "an unbound branch never touches a master")
    tgt = [norm(n.ast.targets[0]) for i in imp for n in [g.nodes[i]] if isinstance(n.ast, ast.Assign)]
    args = [[norm(a) for a in c.args] for i in loc_fwd for c in g.nodes[i].calls() if call_attr(c) == "set_last_revision_info"]
    ok = bool(tgt) and all("self.rev_id" in t and "new_revno" in t for t in tgt) and all(a == ["new_revno", "self.rev_id"] for a in args)
    ctx.check("R1-local-gets-master-result", where, ok, "the local tip is set to the (revno, revision id) returned by the master", construct=f"{tgt} / {args}")

    # ---- R2 / R3 ---------------------------------------------------------------
    fn, g, where = fn_cfg(ctx, CM, "Commit._check_bound_branch")
    setb = need(where, g.find(assigns_to("self.bound_branch")), "self.bound_branch = ...")
    lockm = need(where, calling(g, attr="lock_write", recv="self.master_branch"), "master_branch.lock_write()")
    cmp_tests = [n for n in g.nodes if n.kind == "test" and isinstance(n.ast, ast.Compare) and isinstance(n.ast.ops[0], ast.NotEq)]
    srcs = {norm(s.targets[0]): norm(s.value) for s in walk_own(fn) if isinstance(s, ast.Assign) and len(s.targets) == 1}
    good = [n for n in cmp_tests if {srcs.get(norm(n.ast.left), norm(n.ast.left)), srcs.get(norm(n.ast.comparators[0]), norm(n.ast.comparators[0]))} == {"self.master_branch.last_revision()", "self.branch.last_revision()"}]
    ctx.check("R2-tips-compared", where, len(good) == 1, "the local and master tips are compared", message="the bound-branch check no longer compares branch.last_revision() with master_branch.last_revision()")
    if good:
        t = good[0]
        cut = {(t.id, b, l) for (b, l) in g.succ[t.id] if l == "F"}
        r = g.copy_without(cut).reachable_from_entry()
        ctx.check("R2-out-of-date-refused", where, not (set(setb + lockm) & r), "differing tips: BoundBranchOutOfDate before the master is locked / recorded", message="a checkout whose master has moved can still proceed to commit")
        starts = [b for (b, l) in g.succ[t.id] if l == "T"]
        rr = g.reach(starts, include_src=True)
        ctx.check("R2-out-of-date-refused", where, g.exit not in rr and any(isinstance(g.nodes[i].ast, ast.Raise) and "BoundBranchOutOfDate" in norm(g.nodes[i].ast) for i in rr if g.nodes[i].kind == "stmt"), "the mismatch branch raises BoundBranchOutOfDate")
    from ..astutil import bound_names, one

    mbl = one(bound_names(fn, lambda t, n: t == "self.master_branch.get_bound_location()"), "master_bound_location = self.master_branch.get_bound_location()", where)
    k2_unreachable(ctx, "R2-double-bound-refused", where, g, {mbl: True, f"not {mbl}": False, f"{mbl} is not None": True, f"{mbl} is None": False}, setb + lockm, "a master that is itself bound is refused")
    gm = need(where, calling(g, attr="get_master_branch"), "get_master_branch()")
    fnc, gc, wherec = fn_cfg(ctx, CM, "Commit.commit")
    clr = [i for i in gc.find(assigns_to("self.master_branch")) if norm(gc.nodes[i].ast.value) == "None"]
    cb = need(wherec, calling(gc, attr="_check_bound_branch", recv="self"), "_check_bound_branch")
    ok_clr = bool(clr) and gc.always_before(clr, cb)[0] and not [i for i in gc.find(assigns_to("self.master_branch")) if i not in clr]
    ctx.check("R3-local-only", wherec, ok_clr, "commit() clears master_branch before _check_bound_branch and assigns it nowhere else")
    env = {"self.local": True, "not self.local": False, "self.master_branch": False, "not self.master_branch": True}
    k2_unreachable(ctx, "R3-local-only", where, g, env, gm + setb + lockm, "--local: the master is neither looked up, locked nor recorded as bound branch")
    init_b = [s for s in walk_own(repo.func(CM, "Commit.commit")) if isinstance(s, ast.Assign) and any(norm(t) == "self.bound_branch" for t in s.targets)]
    ctx.check("R3-local-only", wherec, len(init_b) >= 1 and all(norm(s.value) == "None" for s in init_b), "commit() starts with bound_branch = None")

    # ---- R4 -----------------------------------------------------------------
    gbld = need(wherec, calling(gc, attr="get_commit_builder"), "get_commit_builder")
    co = need(wherec, calling(gc, attr="_check_out_of_date_tree", recv="self"), "_check_out_of_date_tree")
    k1_before(ctx, "R4-checks-before-builder", wherec, gc, cb, gbld, "_check_bound_branch precedes get_commit_builder")
    k1_before(ctx, "R4-checks-before-builder", wherec, gc, co, gbld, "_check_out_of_date_tree precedes get_commit_builder")
    fn, g, where = fn_cfg(ctx, CM, "Commit._check_out_of_date_tree")
    rs = [n.id for n in g.nodes if n.kind == "stmt" and isinstance(n.ast, ast.Raise) and "OutOfDateTree" in norm(n.ast)]
    ftp = one(bound_names(fn, lambda t, n: t == "self.work_tree.get_parent_ids()[0]"), "first_tree_parent = self.work_tree.get_parent_ids()[0]", where)
    def _cmp_of(t):
        """the `<master tip> != <first tree parent>` comparison inside a test (the test itself or one conjunct)"""
        for c_ in ([t] + (list(t.values) if isinstance(t, ast.BoolOp) and isinstance(t.op, ast.And) else [])):
            if isinstance(c_, ast.Compare) and len(c_.ops) == 1 and isinstance(c_.ops[0], ast.NotEq) and ftp in (norm(c_.left), norm(c_.comparators[0])):
                return c_
        return None

    tests = [n for n in g.nodes if n.kind == "test" and _cmp_of(n.ast) is not None]
    ok = bool(rs) and len(tests) == 1
    v_ml = "master_last"
    if ok:
        c_ = _cmp_of(tests[0].ast)
        v_ml = [x for x in (norm(c_.left), norm(c_.comparators[0])) if x != ftp][0]
        g2 = g.assume({norm(c_): True, f"{v_ml} != breezy.revision.NULL_REVISION": True})
        ok = g.exit not in g2.reach([tests[0].id])
    ctx.check("R4-tree-out-of-date-refused", where, ok, "a tree whose first parent is not the master tip is refused (OutOfDateTree)")

    # R4b: the out-of-date check re-reads the *master* tip, and does so after the master was write-locked
    srcs = [(norm(s.targets[0]), s.value) for s in walk_own(fn) if isinstance(s, ast.Assign)]
    ml = [v for t, v in srcs if v_ml in t.replace("(", " ").replace(")", " ").replace(",", " ").split()]
    ok = bool(ml) and all(isinstance(v, ast.Call) and call_recv(v) == "self.master_branch" and call_attr(v) in ("last_revision", "last_revision_info") for v in ml)
    ctx.check("R4-master-tip-reread-under-lock", where, ok, "the tip compared with the tree's parent is read from self.master_branch (not assumed from the local branch)", construct="; ".join(norm(v) for v in ml), message="the out-of-date check no longer re-reads the master's tip: a master that moved between the unlocked comparison and the lock grant is not noticed and its history is overwritten")
    k1_before(ctx, "R4-master-tip-reread-under-lock", wherec, gc, cb, co, "the master is locked (_check_bound_branch) before its tip is re-read (_check_out_of_date_tree)")

    # ---- R6: pull / push into a bound branch update the master first -----------------
    BRF = "breezy/branch.py"
    fnp, gp, wherep = fn_cfg(ctx, BRF, "GenericInterBranch.pull", roles={"master_branch": ("assign", "~self\\.target\\.get_master_branch\\(.*\\)")})
    mp = need(wherep, calling(gp, attr="pull", recv="master_branch"), "master_branch.pull(...)")
    lp = need(wherep, calling(gp, attr="_pull", recv="self"), "self._pull(...)")
    ok, w = gp.assume({"master_branch": True}).always_before(mp, lp)
    ctx.check("R6-pull-master-first", wherep, ok, "pull into a bound branch updates the master before the local branch (a refusal by the master leaves the local branch untouched)", message="pull moves the local branch before the master accepted the revisions: a refused pull leaves the checkout diverged from its master", witness=gp.show_path(w) if w else None)
    # git sibling (pulling from a git source into a bound Bazaar branch): same order
    GBR = "breezy/git/branch.py"
    fng, gg_, whereg_ = fn_cfg(ctx, GBR, "InterFromGitBranch.pull")
    gmg = need(whereg_, calling(gg_, attr="get_master_branch"), "self.target.get_master_branch(...)")
    mpg = need(whereg_, [i for i in calling(gg_, attr="pull") if any("master" in (call_recv(c) or "") for c in gg_.nodes[i].calls() if call_attr(c) == "pull")], "master_branch.pull(...)")
    lpg = need(whereg_, calling(gg_, attr="_basic_pull", recv="self"), "self._basic_pull(...)")
    gne = gg_.without_exc_edges()
    early = sorted(set(lpg) & gne.reach(gmg, avoid=set(mpg)))
    ctx.check("R6-pull-master-first", whereg_, not early and bool(set(lpg) & gne.reach(mpg)), "pull from a git source into a bound branch: once the master was looked up, the local _basic_pull is reached only through master_branch.pull(...)", construct="; ".join(gg_.nodes[i].text()[:60] for i in early), message="InterFromGitBranch.pull moves the local branch before the master has accepted the revisions: when the master refuses (it diverged from the git source) the pull fails but the bound branch is already ahead of its master")
    gm = need(wherep, calling(gp, attr="get_master_branch"), "get_master_branch")
    k2_unreachable(ctx, "R6-pull-local-skips-master", wherep, gp, {"local": True, "not local": False}, gm, "pull --local does not look the master up")
    fnq, gq, whereq = fn_cfg(ctx, BRF, "GenericInterBranch.push", roles={"master_branch": ("assign", "~self\\.target\\.get_master_branch\\(.*\\)"), "master_inter": ("assign", "InterBranch.get(self.source, {master_branch})")})
    mq = need(whereq, calling(gq, attr="_basic_push", recv="master_inter"), "master_inter._basic_push(...)")
    lq = [i for i in calling(gq, attr="_basic_push", recv="self") if i in gq.reach(mq) or any(set(mq) & gq.reach([gq.entry], avoid=[i], include_src=True) for _ in [0])]
    bound_local = [i for i in calling(gq, attr="_basic_push", recv="self") if i in gq.reach(calling(gq, attr="get_master_branch"))]
    ok, w = gq.always_before(mq, bound_local) if bound_local else (False, None)
    ctx.check("R6-push-master-first", whereq, ok, "push to a bound branch updates its master before the branch itself", witness=gq.show_path(w) if w else None)

    # ---- R5 -----------------------------------------------------------------
    from .c16 import UNCOMMIT_ROLES

    fn, g, where = fn_cfg(ctx, UC, "uncommit", roles=UNCOMMIT_ROLES)
    sl = need(where, calling(g, attr="set_last_revision_info"), "set_last_revision_info calls")
    m = [i for i in sl if any(call_recv(c) == "master" for c in g.nodes[i].calls())]
    l = [i for i in sl if any(call_recv(c) == "branch" for c in g.nodes[i].calls())]
    ctx.require(m and l, f"{where}: expected master.set_last_revision_info and branch.set_last_revision_info, found {[g.nodes[i].text() for i in sl]}")
    gbm = g.assume({"master is not None": True})
    ok, w = gbm.always_before(m, l)
    ctx.check("R5-uncommit-master-first", where, ok, "uncommit moves the master tip before the local tip", witness=g.show_path(w) if w else None)
    k2_unreachable(ctx, "R5-uncommit-dry-run", where, g, {"dry_run": True, "not dry_run": False}, sl, "a dry run moves no tip")


    # ---- overwrite always moves the tip (bzr and git siblings) ---------------------------------------------------------
    # `update` of a heavyweight checkout that is ahead of its master (commit --local) pulls from the master with
    # overwrite=True: every _update_revisions implementation then reaches its tip-setting call on every normal path — a
    # shortcut "the requested revision is already an ancestor of the target" must not apply under overwrite.
    from ..cfg import build_cfg as _bcfg

    TIP = ("set_last_revision_info", "_update_tip", "generate_revision_history", "_set_last_revision_info")
    n_ur = 0
    for rel_ in ("breezy/branch.py", "breezy/git/branch.py"):
        for q_, f_ in repo.module(rel_).functions().items():
            if not q_.endswith("._update_revisions") or "overwrite" not in [a.arg for a in f_.args.args]:
                continue
            n_ur += 1
            gu = _bcfg(f_).without_exc_edges().assume({"overwrite": True, "not overwrite": False, "_mod_revision.is_null(stop_revision)": False})
            tip = [n.id for n in gu.nodes if any((call_attr(c) or norm(c.func)) in TIP for c in n.calls())]
            r_ = gu.reach([gu.entry], avoid=set(tip), include_src=True)
            w_ = gu.path([gu.entry], [gu.exit], avoid=set(tip)) if gu.exit in r_ else None
            ctx.check("overwrite-always-moves-tip", f"{rel_}:{q_}", bool(tip) and gu.exit not in r_, f"{q_}: with overwrite the tip-setting call is reached on every normal path", message=f"{q_} can return under overwrite=True without setting the target's tip (a shortcut for 'already an ancestor'): `update` of a checkout that is ahead of its master leaves the local branch where it was, out of step with the master, and every later commit is refused with BoundBranchOutOfDate", witness=gu.show_path(w_) if w_ else None)
    ctx.require(n_ur >= 2, f"only {n_ur} _update_revisions implementations with an overwrite parameter found")
    # ---- a switch that unbinds a heavyweight checkout binds it again on every way out -----------------------------------
    SW = "breezy/switch.py"
    fsw, gsw, wsw = fn_cfg(ctx, SW, "_set_branch_location")
    unb = [n.id for n in gsw.nodes if any(call_attr(c) == "set_bound_location" and c.args and norm(c.args[0]) == "None" for c in n.calls())] + calling(gsw, attr="unbind")
    reb = [n.id for n in gsw.nodes if any(call_attr(c) == "set_bound_location" and c.args and norm(c.args[0]) != "None" for c in n.calls())] + calling(gsw, attr="bind")
    need(wsw, unb, "b.set_bound_location(None)")
    starts_sw = [b for i in unb for (b, l) in gsw.succ[i] if l != "X" and b not in reb]
    esc_sw = {gsw.exit, gsw.raise_exit} & gsw.reach(starts_sw, avoid=set(reb), include_src=True)
    ctx.check("switch-rebinds-on-every-exit", wsw, bool(reb) and not esc_sw, "after the checkout was unbound, every way out (a failing pull included) passes set_bound_location(<a branch>)", construct="leaves unbound through " + " and ".join(sorted("a return" if e == gsw.exit else "an exception" for e in esc_sw)) if esc_sw else "", message="_set_branch_location unbinds the heavyweight checkout, pulls from the new branch and binds again — without a handler: when the pull fails the checkout stays unbound, the switch is reported as failed and the next commit silently changes the local branch only, leaving it ahead of (and unknown to) its master")


MUTANTS = [
    Mutant("failed switch leaves the checkout unbound (fix de9e61d reverted)", "breezy/switch.py", "                except BaseException:\n                    # Still a checkout of the branch it was bound to.\n                    b.set_bound_location(bound_branch)\n                    raise\n", "                except BaseException:\n                    raise\n", expect="switch-rebinds-on-every-exit"),
    Mutant("git pull skips the tip when the revision is already merged, overwrite or not", "breezy/git/branch.py", "        _update_tip(self.source, self.target, self._last_revid, overwrite)\n        return head, refs\n", "        if self.target.repository.get_graph().is_ancestor(self._last_revid, self.target.last_revision()):\n            return head, refs\n        _update_tip(self.source, self.target, self._last_revid, overwrite)\n        return head, refs\n", expect="overwrite-always-moves-tip"),
    Mutant("local tip set before the master import", CM, "        if not self.builder.updates_branch:\n            self._process_pre_hooks(old_revno, new_revno)\n", "        if not self.builder.updates_branch:\n            self._process_pre_hooks(old_revno, new_revno)\n            self.branch.set_last_revision_info(new_revno or 1, self.rev_id)\n", expect="R1-master-first"),
    Mutant("BoundBranchOutOfDate raise dropped", CM, "        if local_revid != master_revid:\n            raise errors.BoundBranchOutOfDate(self.branch, self.master_branch)\n", "        if local_revid != master_revid:\n            mutter(\"bound branch out of date\")\n", expect="R2-out-of-date-refused"),
    Mutant("tips compared against the wrong value", CM, "        local_revid = self.branch.last_revision()\n        if local_revid != master_revid:", "        local_revid = master_revid\n        if local_revid != master_revid:", expect="R2-tips-compared"),
    Mutant("--local still looks the master up", CM, "        if not self.local:\n            self.master_branch = self.branch.get_master_branch(", "        if True:\n            self.master_branch = self.branch.get_master_branch(", expect="R3-local-only"),
    Mutant("double-bound master accepted", CM, "        if master_bound_location:\n            raise errors.CommitToDoubleBoundBranch(", "        if master_bound_location and self.strict:\n            raise errors.CommitToDoubleBoundBranch(", expect="R2-double-bound-refused"),
    Mutant("out-of-date tree tolerated", CM, "            if master_last != breezy.revision.NULL_REVISION:\n                raise errors.OutOfDateTree(self.work_tree)\n", "            if master_last != breezy.revision.NULL_REVISION and self.strict:\n                raise errors.OutOfDateTree(self.work_tree)\n", expect="R4-tree-out-of-date-refused"),
    Mutant("neutral: progress stage reordered", CM, "                self._set_progress_stage(\"Uploading data to master branch\")\n", "", neutral=True),
]
