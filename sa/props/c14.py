"""C14 — conflict resolution terminates; conflict-kind tables agree (preview/apply equality is not decided)."""

import ast

from ..astutil import call_attr, call_recv, calls_in, const_value, norm, walk_own
from ..cfg import build_cfg
from ..selftest import Mutant

ID = "C14"
TECHNIQUE = "bounded-loop / exit classification on resolve_conflicts (K1), conflict-kind table agreement between emitters, resolvers and cookers of both transform families (K6/K7) (ast)"
FLOOR = 61
TR = "breezy/transform.py"
BT = "breezy/bzr/transform.py"
GT = "breezy/git/transform.py"
MG = "breezy/merge.py"
CF = "breezy/bzr/conflicts.py"
EXPLANATION = """
R1 (K1) transform.py:resolve_conflicts: the resolution loop is `for … in range(<constant>)`, its only return is under
`len(conflicts) == 0` (a conflict-free transform), and falling out of the loop raises MalformedTransform — it terminates
with a conflict-free transform or a reported error, never silently with conflicts left; conflict_pass applies only
registered resolvers and feeds their output back.
R2 (K6/K7) kind tables: (a) every key of CONFLICT_RESOLVERS is a kind some find_raw_conflicts helper of the bzr or git
transform emits (first element of the yielded tuples) — a resolver for a kind nobody emits, or a renamed kind, turns
"resolved" into MalformedTransform; (b) every kind that reaches cooking — kinds yielded by resolver functions (their
c_type is the registry key under which they are installed, plus literal kinds) and the kinds merge.py appends to
_raw_conflicts — is accepted by the bzr cooker (CONFLICT_COOKERS keys or typestrings of the conflict registry, with
3-tuples mapping to (action, path, file_id) constructors and 4-tuples to path-pair constructors) and, for kinds the git
transform can emit or merge.py records, by the literal dispatch chain of the git cook_conflicts (which raises on an
unknown kind).
Added while testing against seeded changes: R3 the raw-conflict finders and path bookkeeping cloned between
bzr/transform.py and git/transform.py have equal effect signatures.
Does not decide: preview/apply equality (tree values) — not applicable to static analysis.
"""


#: functions that are clones in bzr/transform.py and git/transform.py on the pinned tree (confirmed by comparing the
#: normalised bodies); they compute raw conflicts and the name/parent/limbo bookkeeping that preview and apply share
CLONES = ["TreeTransformBase._duplicate_entries", "TreeTransformBase._parent_loops", "TreeTransformBase._parent_type_conflicts", "TreeTransformBase._overwrite_conflicts", "TreeTransformBase._executability_conflicts", "TreeTransformBase._check_malformed", "TreeTransformBase._has_named_child", "TreeTransformBase._get_potential_orphans", "TreeTransformBase._new_entry", "TreeTransformBase.new_file", "TreeTransformBase.new_directory", "TreeTransformBase.new_symlink", "TreeTransformBase.new_orphan", "TreeTransformBase._available_backup_name", "TreeTransformBase.create_path", "TreeTransformBase.cancel_creation", "TreeTransformBase.cancel_versioning", "DiskTreeTransform.adjust_path", "DiskTreeTransform.new_orphan", "DiskTreeTransform.cancel_creation", "DiskTreeTransform._rename_in_limbo"]


def emitted_kinds(repo, rel):
    """Kinds in position 0 of tuples yielded / appended by the raw-conflict finders of a transform module."""
    out = {}
    for q, fn in repo.module(rel).functions().items():
        base = q.split(".")[-1]
        if not (base == "find_raw_conflicts" or base.startswith("_") and "conflict" in base or base in ("_parent_loops", "_improper_versioning", "_executability_conflicts", "_overwrite_conflicts", "_duplicate_entries", "_parent_type_conflicts", "_duplicate_ids", "_unversioned_parents")):
            continue
        for n in walk_own(fn):
            t = None
            if isinstance(n, ast.Yield) and isinstance(n.value, ast.Tuple):
                t = n.value
            elif isinstance(n, ast.Call) and call_attr(n) == "append" and n.args and isinstance(n.args[0], ast.Tuple):
                t = n.args[0]
            if t is not None and t.elts and isinstance(t.elts[0], ast.Constant) and isinstance(t.elts[0].value, str):
                out.setdefault(t.elts[0].value, set()).add(q)
    return out


def run(ctx):
    repo = ctx.repo
    # ---- R1 -----------------------------------------------------------------
    fn = repo.func(TR, "resolve_conflicts")
    where = f"{TR}:resolve_conflicts"
    loops = [n for n in walk_own(fn) if isinstance(n, (ast.For, ast.While))]
    ok = len(loops) == 1 and isinstance(loops[0], ast.For) and isinstance(loops[0].iter, ast.Call) and norm(loops[0].iter.func) == "range" and all(isinstance(a, ast.Constant) and isinstance(a.value, int) for a in loops[0].iter.args)
    ctx.check("R1-bounded-loop", where, ok, "the resolution loop is a for over range(<constant>)", construct=norm(loops[0])[:60] if loops else "", message="conflict resolution is no longer bounded: it can loop forever on conflicts that regenerate each other")
    from ..astutil import bind_roles, canonicalise

    fn = canonicalise(fn, bind_roles(fn, {"conflicts": ("assign", "tt.find_raw_conflicts()")}, where))
    g = build_cfg(fn)
    rets = [n for n in g.nodes if n.kind == "stmt" and isinstance(n.ast, ast.Return)]
    tests = [n for n in g.nodes if n.kind == "test" and norm(n.ast) in ("len(conflicts) == 0", "not conflicts")]
    ok = len(rets) == 1 and len(tests) == 1
    if ok:
        cut = {(tests[0].id, b, l) for (b, l) in g.succ[tests[0].id] if l == "T"}
        ok = g.exit not in g.copy_without(cut).without_exc_edges().reachable_from_entry()
    ctx.check("R1-exits", where, ok, "the only normal exit is under `len(conflicts) == 0`", message="resolve_conflicts can return while conflicts remain")
    raises = [n for n in g.nodes if n.kind == "stmt" and isinstance(n.ast, ast.Raise) and "MalformedTransform" in norm(n.ast)]
    hdr = [n.id for n in g.nodes if n.kind == "for" and not n.label]
    ok = bool(raises) and bool(hdr) and any(raises[0].id in g.reach([b for (b, l) in g.succ[h] if l == "F"], include_src=True) for h in hdr)
    ctx.check("R1-exits", where, ok, "running out of passes raises MalformedTransform")
    body = loops[0].body if loops else []
    ctx.check("R1-pass-feeds-back", where, any(call_attr(c) == "find_raw_conflicts" for s in body for c in calls_in(s)) and any(norm(c.func) == "pass_func" for s in body for c in calls_in(s)), "each pass recomputes the raw conflicts and applies the pass function to them")
    fcp = repo.func(TR, "conflict_pass")
    from ..astutil import bound_names, loop_targets

    lt = loop_targets(fcp, lambda t, n: t == "conflicts")
    cv = lt[0][0] if len(lt) == 1 and len(lt[0]) == 1 else "?"
    rv = bound_names(fcp, lambda t, n: t == f"CONFLICT_RESOLVERS.get({cv}[0])")
    ctx.check("R1-pass-feeds-back", f"{TR}:conflict_pass", len(rv) == 1 and f"{rv[0]}(tt, path_tree, *{cv})" in norm(fcp), "conflict_pass dispatches on the conflict kind through CONFLICT_RESOLVERS")

    # ---- R3: sibling agreement of the shared conflict finders / path bookkeeping ------------
    from ..rules import clone_agreement

    clone_agreement(ctx, "R3-sibling-clone", BT, GT, CLONES, "shared raw-conflict finder / preview bookkeeping")

    # ---- R2 -----------------------------------------------------------------
    mod = repo.module(TR)
    reg = [s for s in mod.tree.body if isinstance(s, ast.Assign) and norm(s.targets[0]) == "CONFLICT_RESOLVERS"]
    ctx.require(len(reg) == 1 and isinstance(reg[0].value, ast.Dict), f"{TR}: CONFLICT_RESOLVERS not found")
    resolvers = {const_value(k): norm(v) for k, v in zip(reg[0].value.keys, reg[0].value.values)}
    eb, eg = emitted_kinds(repo, BT), emitted_kinds(repo, GT)
    ctx.require(len(eb) >= 9 and len(eg) >= 7, f"emitted kinds not found (bzr {sorted(eb)}, git {sorted(eg)})")
    for kind in sorted(resolvers):
        ctx.check("R2-resolver-has-emitter", f"{TR}:CONFLICT_RESOLVERS[{kind!r}]", kind in eb or kind in eg, f"kind {kind!r} is emitted by a raw-conflict finder", construct=kind, message=f"CONFLICT_RESOLVERS has a resolver for {kind!r} but no find_raw_conflicts helper emits that kind: the conflict it was written for is never resolved")
    # every emitted kind is either resolvable or one of the tabled fatal kinds (reported as MalformedTransform by design)
    FATAL = {"non-file executability": "caller error: executability set on a non-file", "overwrite": "target path exists and is not being removed", "unversioned executability": "caller error: executability on an unversioned path", "versioning bad kind": "caller error: versioning something that is neither file, dir nor symlink"}
    for fam, em in (("bzr", eb), ("git", eg)):
        for kind in sorted(em):
            ok = kind in resolvers or kind in FATAL
            ctx.check("R2-emitted-kind-known", f"{BT if fam == 'bzr' else GT}:{sorted(em[kind])[0]}", ok, f"{fam}: emitted kind {kind!r} has a resolver or is a tabled fatal kind", construct=kind, message=f"the {fam} transform emits conflict kind {kind!r}, which has no resolver and is not one of the fatal kinds: a conflict that used to be resolved automatically now ends in MalformedTransform")
    # kinds yielded by resolvers
    cooked = {}  # kind -> set of tuple arities
    for kind, fname in resolvers.items():
        f = mod.get(fname)
        ctx.require(isinstance(f, ast.FunctionDef), f"{TR}: resolver {fname} not found")
        for n in walk_own(f):
            if isinstance(n, ast.Yield) and isinstance(n.value, ast.Tuple) and n.value.elts:
                first = n.value.elts[0]
                k = kind if isinstance(first, ast.Name) and first.id == "c_type" else const_value(first)
                if isinstance(k, str):
                    cooked.setdefault(k, set()).add(len(n.value.elts))
    merge_kinds = set()
    for q, f in repo.module(MG).functions().items():
        for c in calls_in(f):
            if call_attr(c) == "append" and norm(c.func.value).endswith("_raw_conflicts") and c.args and isinstance(c.args[0], ast.Tuple) and isinstance(c.args[0].elts[0], ast.Constant):
                merge_kinds.add(c.args[0].elts[0].value)
    ctx.require(len(merge_kinds) >= 3, f"merge.py raw conflict kinds not found: {sorted(merge_kinds)}")
    # bzr cooker
    bm = repo.module(BT)
    ck = [s for s in bm.tree.body if isinstance(s, ast.Assign) and norm(s.targets[0]) == "CONFLICT_COOKERS"]
    cookers = {const_value(k) for k in ck[0].value.keys} if ck else set()
    cm = repo.module(CF)
    types = {}
    for q, c in cm.classes().items():
        ts = [const_value(s.value) for s in c.body if isinstance(s, ast.Assign) and norm(s.targets[0]) == "typestring"]
        if ts and isinstance(ts[0], str):
            types[ts[0]] = q
    for kind in sorted(merge_kinds):
        ctx.check("R2-bzr-cooker-accepts", f"{BT}:CONFLICT_COOKERS", kind in cookers, f"merge kind {kind!r} has a cooker", construct=kind, message=f"merge.py records {kind!r} conflicts but bzr's CONFLICT_COOKERS has no entry: cooking falls into the generic branch with wrong arguments")
    for kind, arities in sorted(cooked.items()):
        cls = types.get(kind)
        ok = cls is not None
        detail = f"kind {kind!r} -> {cls}"
        if ok:
            mro = [q for r, q in repo.mro(CF, cls)]
            for a in arities:
                if a == 4:
                    ok = ok and "HandledPathConflict" in mro
                elif a == 3:
                    ok = ok and "HandledConflict" in mro and "HandledPathConflict" not in mro
        ctx.check("R2-bzr-cooker-accepts", f"{TR}:{resolvers.get(kind, 'resolver')}", ok, f"resolver output {kind!r} (tuple sizes {sorted(arities)}) maps to conflict class {cls} with the matching constructor", construct=detail, message=f"resolver output kind {kind!r} with tuple sizes {sorted(arities)} has no conflict class with a matching constructor ({cls})")
    # git cooker
    cands = [q for q in repo.module(GT).functions() if q.endswith(".cook_conflicts")]
    ctx.require(len(cands) >= 1, f"{GT}: cook_conflicts not found")
    fg = repo.func(GT, cands[0])
    gk = set()
    for n in ast.walk(fg):
        if isinstance(n, ast.Compare) and norm(n.left) == "c[0]" and isinstance(n.comparators[0], ast.Constant):
            gk.add(n.comparators[0].value)
    ctx.check("R2-git-cooker-rejects-unknown", f"{GT}:cook_conflicts", any(isinstance(n, ast.Raise) and "AssertionError" in norm(n) for n in ast.walk(fg)), "the git cooker raises on an unknown kind")
    need_git = set(merge_kinds) | {k for k in cooked if (k in eg or any(src in eg for src, fnm in resolvers.items() if src == k)) and k in resolvers and k in eg}
    # literal extra kinds yielded by resolvers whose own kind git emits (e.g. 'deleting parent' from the missing-parent resolver)
    for kind, fname in resolvers.items():
        if kind in eg:
            f = mod.get(fname)
            for n in walk_own(f):
                if isinstance(n, ast.Yield) and isinstance(n.value, ast.Tuple) and isinstance(n.value.elts[0], ast.Constant):
                    need_git.add(n.value.elts[0].value)
    for kind in sorted(need_git):
        ctx.check("R2-git-cooker-accepts", f"{GT}:cook_conflicts", kind in gk, f"kind {kind!r} (reachable in git trees) is handled by the git cooker", construct=kind, message=f"kind {kind!r} can reach the git cook_conflicts, which has no arm for it and raises AssertionError")
    ctx.sample({"resolvers": sorted(resolvers), "emitted_bzr": sorted(eb), "emitted_git": sorted(eg), "cooked": {k: sorted(v) for k, v in cooked.items()}, "merge_kinds": sorted(merge_kinds), "git_cooker": sorted(gk)})
    # ---- the preview lists a directory's children by the children's own ids (fourth round, agent's observation) ---------
    for rel_, q_ in ((GT, "GitPreviewTree.iter_child_entries"), (BT, "InventoryPreviewTree.iter_child_entries")):
        f_ = repo.func(rel_, q_)
        loops_ = [n_ for n_ in ast.walk(f_) if isinstance(n_, (ast.For, ast.comprehension)) and any(call_attr(c) == "_all_children" for c in ast.walk(n_.iter) if isinstance(c, ast.Call))]
        ctx.require(bool(loops_), f"{rel_}:{q_}: iteration over self._all_children(...) not found")
        for lp in loops_:
            tnames = {n_.id for n_ in ast.walk(lp.target) if isinstance(n_, ast.Name)}
            if isinstance(lp, ast.For):
                used = {n_.id for st in lp.body for n_ in ast.walk(st) if isinstance(n_, ast.Name)}
            else:
                owner = [c for c in ast.walk(f_) if isinstance(c, (ast.ListComp, ast.GeneratorExp, ast.SetComp)) and lp in c.generators]
                used = {n_.id for c in owner for n_ in ast.walk(c.elt) if isinstance(n_, ast.Name)}
            ctx.check("preview-children-by-child-id", f"{rel_}:{q_}", bool(tnames & used), "each child's own transform id is what the entry is built from", construct=f"loop variable {sorted(tnames)} unused" if not (tnames & used) else "", message=f"{q_} walks the children of the directory but never uses the child's id ({sorted(tnames)}): the preview yields the directory's own entry once per child — it lists other children than the tree that apply() produces")


MUTANTS = [
    Mutant("git preview lists the directory once per child (fix 5b24378 reverted)", GT, "            entry, is_versioned = self._transform.final_entry(child_trans_id)\n", "            entry, is_versioned = self._transform.final_entry(trans_id)\n", expect="preview-children-by-child-id"),
    Mutant("unbounded resolution loop", TR, "        for n in range(10):\n            pb.update(gettext(\"Resolution pass\"), n + 1, 10)", "        n = 0\n        while True:\n            n += 1\n            pb.update(gettext(\"Resolution pass\"), n + 1, 10)", expect=["R1-bounded-loop", "R1-exits"]),
    Mutant("emitted kind renamed on one side", BT, "yield (\"duplicate\", last_trans_id, trans_id, name)", "yield (\"dup\", last_trans_id, trans_id, name)", expect="R2-emitted-kind-known"),
    Mutant("returns with conflicts left after the last pass", TR, "            new_conflicts.update(pass_func(tt, conflicts))\n        raise MalformedTransform(conflicts=conflicts)", "            new_conflicts.update(pass_func(tt, conflicts))\n        return new_conflicts", expect="R1-exits"),
    Mutant("git cooker loses an arm", GT, "            elif c[0] == \"missing parent\":", "            elif c[0] == \"missing-parent\":", expect="R2-git-cooker-accepts"),
    Mutant("duplicate check ignores versioned-but-missing entries (bzr only)", BT, "                kind = self.final_kind(trans_id)\n                if kind is None and not self.final_is_versioned(trans_id):\n                    continue\n                if name == last_name:", "                if self.final_kind(trans_id) is None:\n                    continue\n                if name == last_name:", expect="R3-sibling-clone"),
    Mutant("git parent-loop detection stops after the first hop", GT, "                if parent_id in seen:\n                    break\n\n    def _improper_versioning", "                break\n\n    def _improper_versioning", expect="R3-sibling-clone"),
    Mutant("neutral: temporary inlined and local renamed on one side", BT, "                kind = self.final_kind(trans_id)\n                if kind is None and not self.final_is_versioned(trans_id):\n                    continue\n                if name == last_name:", "                if self.final_kind(trans_id) is None and not self.final_is_versioned(trans_id):\n                    continue\n                if name == last_name:", neutral=True),
    Mutant("neutral: pass bound raised", TR, "        for n in range(10):\n            pb.update(gettext(\"Resolution pass\"), n + 1, 10)", "        for n in range(20):\n            pb.update(gettext(\"Resolution pass\"), n + 1, 20)", neutral=True),
]
