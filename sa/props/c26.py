"""C26 — directory locks provide mutual exclusion: re-check / ordering obligations in LockDir."""

import ast
import re

from ..astutil import call_attr, call_recv, calls_in, dotted, dotted_in, norm, param_names, walk_own
from ..cfg import assigns_to, build_cfg
from ..index import Repo
from ..rules import calling, fn_cfg, guarded_by, k1_before, k1_never_after, k2_unreachable, k3_after, mentions, need
from ..rustlite import RustFile, early_return_guard, top_level_statements
from ..index import AnalysisError
from ..selftest import Mutant

ID = "C26"
TECHNIQUE = "CFG dominance / guard / who-may-call rules on LockDir (ast) + Rust-lite early-return guard extraction"
FLOOR = 25
LD = "breezy/lockdir.py"
RS = "src/lockdir.rs"
EXPLANATION = """
R1 (K1/K4) _attempt_lock marks the lock held (`_lock_held = True`) only after the *normal* completion of
   transport.rename(<pending dir>, self._held_dir) — never from a contention/error handler — and nothing can raise
   afterwards; the only other place that sets `_lock_held = True` is the token path of lock_write, after
   validate_token(token). (The post-rename nonce re-read is a second layer for non-exclusive renames: reported as
   information.)
R2 (K4, expected 0 + positive control) no delete/rmdir/delete_tree in LockDir takes a path derived from the held
   directory; held contents are only ever removed after a rename to a fresh *.tmp name.
R3 (K1) unlock: confirm() precedes rename(held -> tmp); `_lock_held = False` follows that rename.
R4 (K1/K2) force_break: peek() and the comparison with the examined holder info precede the rename and a mismatch
   raises before it; after the rename the info is re-read from the tmp name and every delete is guarded by that
   comparison (same for force_break_corrupt's content comparison).
R4b (K3 compensation) a mismatch detected *after* rename(held -> tmp) means the moved directory is a later holder's live
   lock: that exit must rename it back before raising.
R5 (K2) _handle_lock_contention: force_break(other_holder) is reachable only when
   other_holder.is_lock_holder_known_dead() and the locks.steal_dead option hold; break_lock breaks only after the user confirmed the examined holder info.
R6 (K10) src/lockdir.rs is_lock_holder_known_dead: is_local_pid_dead is the tail call and is preceded by early
   `return false` guards on hostname != ours, user != ours and a missing pid.
R6 (Rust-lite, K10) crates/osutils/src/lib.rs:is_local_pid_dead reports a holder as dead only for the ESRCH outcome of
   kill(pid, 0). (third-round seed)
R4c (K4) only unlock, force_break and force_break_corrupt rename self._held_dir away; a helper that does so must be
   reached through force_break* only. (third-round seed)
Added while testing against seeded changes: R5b break_lock hands force_break the holder info peeked before the prompt
(no re-peek after the confirmation).
Fourth round: holder-info-fresh-per-acquisition — _create_pending_dir writes info assigned from LockHeldInfo.for_this_process() inside the
function (no cached self._*info) and sets self.nonce from that same info.
Does not decide: interleavings, nor exclusivity of the transport's rename.
"""
ASSUMPTIONS = ["transport.rename onto an existing non-empty directory fails (exclusive rename); the nonce re-read covers transports where it does not"]

DELETES = {"delete", "rmdir", "delete_tree", "delete_multi"}


def _is_held(expr):
    t = norm(expr)
    return "_held_dir" in t or "_held_info_path" in t or "/held" in t


def held_path_deletes(cls):
    """(method, call) for transport deletes whose argument mentions the held dir."""
    out = []
    n = 0
    for item in cls.body:
        if not isinstance(item, ast.FunctionDef):
            continue
        # locals aliased to the held dir
        aliases = set()
        for s in walk_own(item):
            if isinstance(s, ast.Assign) and _is_held(s.value):
                for t in s.targets:
                    if isinstance(t, ast.Name):
                        aliases.add(t.id)
        for c in calls_in(item):
            if call_attr(c) in DELETES and (call_recv(c) or "").endswith("transport"):
                n += 1
                for a in c.args:
                    if _is_held(a) or (aliases & {x.id for x in ast.walk(a) if isinstance(x, ast.Name)}):
                        out.append((item.name, c))
    # one level of helpers: a method that deletes a path built from one of its parameters is a delete of whatever its
    # callers pass (e.g. _remove_pending_dir(self._held_dir))
    helper_params = {}
    for item in cls.body:
        if isinstance(item, ast.FunctionDef):
            params = [a.arg for a in item.args.args if a.arg != "self"]
            used = {x.id for c in calls_in(item) if call_attr(c) in DELETES and (call_recv(c) or "").endswith("transport") for a in c.args for x in ast.walk(a) if isinstance(x, ast.Name)} & set(params)
            if used:
                helper_params[item.name] = (params, used)
    for item in cls.body:
        if not isinstance(item, ast.FunctionDef):
            continue
        aliases = {t.id for s in walk_own(item) if isinstance(s, ast.Assign) and _is_held(s.value) for t in s.targets if isinstance(t, ast.Name)}
        for c in calls_in(item):
            if call_recv(c) == "self" and call_attr(c) in helper_params:
                params, used = helper_params[call_attr(c)]
                for p_, a in list(zip(params, c.args)) + [(k.arg, k.value) for k in c.keywords]:
                    if p_ in used and (_is_held(a) or (aliases & {x.id for x in ast.walk(a) if isinstance(x, ast.Name)})):
                        out.append((item.name, c))
    return out, n


POSITIVE_CONTROL = '''
class LockDir:
    def unlock(self):
        self.transport.delete(self._held_info_path)
        p = self._held_dir
        self.transport.rmdir(p)
'''


def _mismatch_env(g, tests, param):
    """Assumption "the compared values differ" for the equality tests (==, !=) among `tests` that mention `param`."""
    env = {}
    for t in tests:
        for c in ast.walk(g.nodes[t].ast):
            if isinstance(c, ast.Compare) and len(c.ops) == 1 and isinstance(c.ops[0], (ast.Eq, ast.NotEq)) and param in dotted_in(c):
                env[norm(c)] = isinstance(c.ops[0], ast.NotEq)
    return env


def run(ctx):
    repo = ctx.repo
    cls = repo.cls(LD, "LockDir")

    # ---- R1 ----------------------------------------------------------------
    fn, g, where = fn_cfg(ctx, LD, "LockDir._attempt_lock")
    ren = need(where, calling(g, attr="rename", argpred=lambda c: len(c.args) == 2 and norm(c.args[1]) == "self._held_dir"), "transport.rename(tmp, self._held_dir)")
    held = need(where, [i for i in g.find(assigns_to("self._lock_held")) if norm(g.nodes[i].ast.value) == "True"], "self._lock_held = True")
    cut = {(r, b, l) for r in ren for (b, l) in g.succ[r] if l != "X"}
    g_fail = g.copy_without(cut)
    hit = set(held) & g_fail.reachable_from_entry()
    w = g_fail.path([g.entry], list(hit)) if hit else None
    ctx.check("R1-held-after-rename", where, not hit, "`_lock_held = True` is reachable only through the normal completion of rename(pending -> held)", message="the lock is marked held on a path where the rename into held/ did not succeed", witness=g.show_path(w) if w else None)
    raises = [n.id for n in g.nodes if n.kind == "stmt" and isinstance(n.ast, ast.Raise)]
    k1_never_after(ctx, "R1-no-raise-after-held", where, g, held, raises, "nothing raises after the lock was marked held")
    src_names = {norm(c.args[0]) for i in ren for c in g.nodes[i].calls() if call_attr(c) == "rename"}
    pend = {norm(s.targets[0]) for s in walk_own(fn) if isinstance(s, ast.Assign) and isinstance(s.value, ast.Call) and call_attr(s.value) == "_create_pending_dir"}
    ctx.check("R1-rename-source", where, src_names and src_names <= pend, "the directory renamed into held/ is the one _create_pending_dir() returned", construct=str(sorted(src_names)), message=f"rename source {sorted(src_names)} is not the pending dir {sorted(pend)}")
    # post-rename nonce re-check (layer 2): information only
    recheck = any(isinstance(n.ast, ast.Compare) and "nonce" in norm(n.ast) for n in g.nodes if n.kind == "test" and n.id in g.reach(ren))
    ctx.info("R1", where, "post-rename nonce re-read present" if recheck else "post-rename nonce re-read ABSENT (only matters for non-exclusive renames)")
    # who sets _lock_held = True
    setters = {}
    for item in cls.body:
        if isinstance(item, ast.FunctionDef):
            for s in walk_own(item):
                if isinstance(s, ast.Assign) and any(norm(t) == "self._lock_held" for t in s.targets) and norm(s.value) != "False":
                    setters.setdefault(item.name, []).append(norm(s))
    ctx.check("R1-held-setters", f"{LD}:LockDir", set(setters) <= {"_attempt_lock", "lock_write"} and "_attempt_lock" in setters, "`_lock_held` becomes true only in _attempt_lock and the token path of lock_write", construct=str(setters), message=f"`_lock_held` is set true in unexpected method(s): {sorted(set(setters) - {'_attempt_lock', 'lock_write'})}")
    if "lock_write" in setters:
        fn2, g2, where2 = fn_cfg(ctx, LD, "LockDir.lock_write")
        held2 = [i for i in g2.find(assigns_to("self._lock_held")) if norm(g2.nodes[i].ast.value) != "False"]
        val = need(where2, calling(g2, attr="validate_token", recv="self"), "validate_token(token)")
        k1_before(ctx, "R1-token-validated", where2, g2, val, held2, "the token path marks the lock held only after validate_token(token)")

    # ---- R2 ----------------------------------------------------------------
    bad, ndel = held_path_deletes(cls)
    ctx.require(ndel >= 6, f"only {ndel} transport delete/rmdir calls found in LockDir (hand-confirmed: 8)")
    ctx.check("R2-no-delete-under-held", f"{LD}:LockDir", not bad, f"none of the {ndel} transport delete/rmdir/delete_tree calls takes a path under held/", construct="; ".join(f"{m}: {norm(c)}" for m, c in bad), message="held lock contents are deleted in place (not after a rename to a tmp name): " + "; ".join(f"{m}: {norm(c)}" for m, c in bad))
    pc, _ = held_path_deletes(ast.parse(POSITIVE_CONTROL).body[0])
    ctx.require(len(pc) == 2, "positive control for R2 did not match (rule is broken)")

    # ---- R3 ----------------------------------------------------------------
    fn, g, where = fn_cfg(ctx, LD, "LockDir.unlock")
    ren = calling(g, attr="rename", argpred=lambda c: len(c.args) == 2 and norm(c.args[0]) == "self._held_dir")
    if not ren:
        ctx.check("R3-release-by-rename", where, False, "unlock releases by renaming held/ to a tmp name", message="unlock no longer renames held/ away atomically before taking it apart: another locker can slip into the half-released directory")
        ren = [g.exit]
    conf = need(where, calling(g, attr="confirm", recv="self"), "self.confirm()")
    k1_before(ctx, "R3-confirm-before-release", where, g, conf, ren, "unlock confirms it still owns the lock before renaming held/ away")
    g_nt = g.assume({"self._locked_via_token": False})
    rel = [i for i in g.find(assigns_to("self._lock_held")) if i in g_nt.reachable_from_entry()]
    need(where, rel, "self._lock_held = False")
    ok, w = g_nt.always_before(ren, rel)
    ctx.check("R3-released-after-rename", where, ok, "`_lock_held = False` only after the held directory was renamed away", witness=g.show_path(w) if w else None)
    dels = calling(g, attr=DELETES)
    k1_before(ctx, "R3-delete-after-rename", where, g, ren, dels, "unlock deletes only after the rename to the tmp name")

    # ---- R6 (Rust-lite): a local holder is "known dead" only when its pid does not exist ------------------------------
    # crates/osutils/src/lib.rs:is_local_pid_dead decides whether a lock may be stolen without asking.  Of the outcomes of
    # kill(pid, 0) only ESRCH ("no such process") may yield true: EPERM means a process exists under another uid (the
    # holder comparison is by user *name*), any other error means "don't know".
    from ..rustlite import RustFile

    OS_RS = "crates/osutils/src/lib.rs"
    body_ = RustFile(repo, OS_RS).fn_body("is_local_pid_dead")
    w_rs = f"{OS_RS}:is_local_pid_dead"
    ctx.require("match" in body_ and "ESRCH" in body_, f"{w_rs}: the kill() outcome match was not found")
    arms = re.findall(r"([^\n;{}]*?)=>\s*(true|false|\{[^{}]*\})\s*,?", body_)
    trues = [pat.strip() for pat, val in arms if re.search(r"\btrue\b", val)]
    ctx.check("R6-known-dead-only-when-absent", w_rs, bool(arms) and bool(trues) and all("ESRCH" in t for t in trues) and len(re.findall(r"\btrue\b", body_)) == len(trues), f"only the ESRCH outcome of kill(pid, 0) reports the holder as dead ({[a[0].strip() for a in arms]})", construct=str(trues), message=f"is_local_pid_dead answers true for {[t for t in trues if 'ESRCH' not in t] or 'an outcome outside the match arms'}: a live lock holder running under another uid (same user name, e.g. via sudo -E) is taken for dead and its lock is stolen while it is held")
    # ---- R4c: who may move the held directory aside (K4) --------------------------------------------------------
    # Only unlock (its own lock) and the two force_break* methods (after peek-and-compare, checked below) rename
    # self._held_dir away.  A further function that does so — e.g. the tail of force_break split off as a helper — is a
    # way to move a lock aside without the comparison for every caller that does not go through force_break.
    MOVERS = {"unlock", "force_break", "force_break_corrupt"}
    lcls = repo.cls(LD, "LockDir")
    movers = {}
    for item in lcls.body:
        if isinstance(item, ast.FunctionDef) and any(call_attr(c) == "rename" and len(c.args) == 2 and norm(c.args[0]) == "self._held_dir" for c in calls_in(item)):
            movers[item.name] = item
    for name in sorted(set(movers) - MOVERS):
        callers = sorted(i_.name for i_ in lcls.body if isinstance(i_, ast.FunctionDef) and any(call_attr(c) == name and call_recv(c) == "self" for c in calls_in(i_)))
        unchecked = [c_ for c_ in callers if c_ not in ("force_break", "force_break_corrupt")]
        ctx.check("R4c-who-moves-the-lock", f"{LD}:LockDir.{name}", not unchecked, f"LockDir.{name} (moves the held directory aside) is reached only through force_break*", construct=f"called from {callers}", message=f"LockDir.{name} renames the held lock directory away and is called from {unchecked} without force_break's peek-and-compare: a lock that changed hands since it was examined (e.g. between the dead-holder check and the steal) is moved aside, the later holder loses a live lock")
    ctx.check("R4c-who-moves-the-lock", f"{LD}:LockDir", MOVERS & set(movers) == MOVERS or bool(set(movers) - MOVERS), f"the held directory is renamed away by {sorted(movers)}")
    # ---- R4 / R4b --------------------------------------------------------------
    for meth, param, pre_check in (("force_break", "dead_holder_info", True), ("force_break_corrupt", "corrupt_info_content", False)):
        fn, g, where = fn_cfg(ctx, LD, f"LockDir.{meth}")
        ctx.require(param in param_names(fn), f"{where}: parameter {param} disappeared")
        ren = need(where, calling(g, attr="rename", argpred=lambda c: len(c.args) == 2 and norm(c.args[0]) == "self._held_dir"), "rename(self._held_dir, tmp)")
        dels = need(where, calling(g, attr=DELETES), "delete calls")
        cmp_tests = [n.id for n in g.nodes if n.kind == "test" and any(isinstance(x, ast.Compare) for x in ast.walk(n.ast)) and param in dotted_in(n.ast)]
        after_ren = set(g.reach(ren))
        pre = [t for t in cmp_tests if t not in after_ren]
        post = [t for t in cmp_tests if t in after_ren]
        if pre_check:
            peek = need(where, calling(g, attr="peek", recv="self"), "self.peek()")
            k1_before(ctx, "R4-peek-before-break", where, g, peek, ren, "the current holder is read before the lock directory is moved")
            env_pre = _mismatch_env(g, pre, param)
            ok = bool(pre) and bool(env_pre) and not (set(ren) & g.assume(env_pre).reachable_from_entry())
            ctx.check("R4-compare-before-break", where, ok, f"rename(held -> tmp) is reachable only when the current holder equals `{param}`", message="force_break moves the lock without first comparing the current holder with the examined one")
            ok2 = all(_branch_only_raises(g, t, "T") for t in pre)
            ctx.check("R4-compare-before-break", where, ok2, "a pre-rename mismatch raises")
        env_post = _mismatch_env(g, post, param)
        ok = bool(post) and bool(env_post) and not (set(dels) & g.assume(env_post).reachable_from_entry())
        ctx.check("R4-recheck-after-rename", where, ok, f"every delete is guarded by a comparison of the moved lock's info with `{param}` made after the rename", message=f"{meth} deletes the moved lock directory without re-checking whose lock it moved")
        k1_before(ctx, "R4-delete-after-rename", where, g, ren, dels, "deletes happen only after the rename to the tmp name")
        # R4b: a raise after the rename must be preceded by a rename back
        back = calling(g, attr="rename", argpred=lambda c: len(c.args) == 2 and norm(c.args[1]) == "self._held_dir")
        raises = [n.id for n in g.nodes if n.kind == "stmt" and isinstance(n.ast, ast.Raise)]
        hit = sorted(set(raises) & g.reach(ren, avoid=back))
        w = g.path(ren, hit, avoid=back) if hit else None
        ctx.check("R4b", f"{LD}:LockDir.{meth}", not hit, "a mismatch found after rename(held -> tmp) restores the later holder's lock before raising", construct="; ".join(g.nodes[i].text() for i in hit), message=f"{meth} raises LockBreakMismatch after moving a later holder's live lock to a tmp name and never moves it back", witness=g.show_path(w) if w else None)

    # ---- R5 ----------------------------------------------------------------
    fn, g, where = fn_cfg(ctx, LD, "LockDir._handle_lock_contention")
    fb = calling(g, attr="force_break", recv="self")
    if not ctx.check("R5-steal-through-force-break", where, bool(fb), "a dead holder's lock is removed through force_break (peek, compare, rename aside, re-check, delete)", message="_handle_lock_contention no longer goes through force_break to take a dead holder's lock away: whatever it does instead skips the compare-and-rename-aside protocol (a lock that changed hands is removed, or the held directory is emptied in place and a crash leaves a lock nobody can read or break)"):
        raise AnalysisError(f"{where}: steal path without force_break; the remaining steal rules cannot be evaluated")
    k2_unreachable(ctx, "R5-steal-only-dead", where, g, {"other_holder.is_lock_holder_known_dead()": False}, fb, "stealing requires other_holder.is_lock_holder_known_dead()")
    k2_unreachable(ctx, "R5-steal-only-dead", where, g, {"other_holder is not None": False}, fb, "stealing requires readable holder info")
    k2_unreachable(ctx, "R5-steal-needs-option", where, g, {"self.get_config().get('locks.steal_dead')": False}, fb, "stealing requires the locks.steal_dead option")
    args = {norm(c.args[0]) for i in fb for c in g.nodes[i].calls() if call_attr(c) == "force_break" and c.args}
    ctx.check("R5-break-examined", where, args == {"other_holder"}, "the lock broken is the one whose holder info was examined", construct=str(args))
    fn, g, where = fn_cfg(ctx, LD, "LockDir.break_lock", roles={"holder_info": ("assign", "self.peek()")})
    fb = need(where, calling(g, attr="force_break", recv="self"), "self.force_break(...)")
    k2_unreachable(ctx, "R5-break-needs-confirm", where, g, {"holder_info is not None": False}, fb, "break_lock breaks only a lock whose info it could read")
    conf_tests = [n.id for n in g.nodes if n.kind == "test" and any(call_attr(c) in ("confirm_action", "get_boolean") for c in calls_in(n.ast))]
    # what is broken is what the user was shown: the examined info is not re-read between the prompt and force_break

    re_read = sorted(set(g.find(assigns_to("holder_info"))) & g.reach(conf_tests))
    ctx.check("R5-break-examined", where, not re_read and all(any(norm(a) == "holder_info" for c in g.nodes[i].calls() if call_attr(c) == "force_break" for a in c.args) for i in fb), "break_lock hands force_break the holder info it peeked before asking the user (no re-peek after the confirmation)", construct="; ".join(g.nodes[i].text() for i in re_read), message="break_lock re-reads the lock after the user confirmed and breaks whatever is there now: if the examined holder released and somebody else acquired in the meantime, the later holder's lock is broken — force_break's own comparison then checks the lock against itself")
    cut = {(t, b, l) for t in conf_tests for (b, l) in g.succ[t] if l == "T"}
    allb = fb + calling(g, attr="force_break_corrupt", recv="self")
    ok = bool(conf_tests) and not (set(allb) & g.copy_without(cut).reachable_from_entry())
    ctx.check("R5-break-needs-confirm", where, ok, "break_lock breaks only after the user confirmed")
    # callers of force_break in the repo (information)
    sites = []
    for rel in repo.python_files():
        if "force_break" in repo.text(rel):
            for q, f in repo.module(rel).functions().items():
                if any(call_attr(c) in ("force_break", "force_break_corrupt") for c in calls_in(f)):
                    sites.append(f"{rel}:{q}")
    ctx.extra["force_break_callers"] = sites

    # ---- R6 Rust ----------------------------------------------------------------
    rf = RustFile(repo, RS)
    body = rf.fn_body("is_lock_holder_known_dead")
    stmts = top_level_statements(body)
    where = f"{RS}:LockHeldInfo::is_lock_holder_known_dead"
    ctx.require(stmts, f"{where}: empty body")
    tail = stmts[-1]
    ctx.check("R6-tail-call", where, "is_local_pid_dead" in tail and not tail.startswith("if"), "is_local_pid_dead(pid) is the tail expression", construct=tail[:80])
    guards = [early_return_guard(s) for s in stmts[:-1]]
    ctx.check("R6-only-guards", where, all(gd is not None and gd[1] == "false" for gd in guards), "everything before the tail call is an `if … { return false; }` guard", construct="; ".join(s[:50] for s, gd in zip(stmts, guards) if gd is None or gd[1] != "false"), message="a statement before is_local_pid_dead is not an early `return false` guard")
    conds = [gd[0] for gd in guards if gd]
    has_host = any(re.search(r"\bself\.hostname\s*!=", c) and "get_host_name" in c for c in conds)
    has_user = any(re.search(r"\bself\.user\s*!=", c) and "get_username_for_lock_info" in c for c in conds)
    has_pid = any(re.search(r"\bself\.pid\.is_none\(\)", c) for c in conds)
    ctx.check("R6-host-guard", where, has_host, "guard: recorded hostname != our hostname -> not known dead", message="the hostname guard is missing: a holder on another machine could be declared dead")
    ctx.check("R6-user-guard", where, has_user, "guard: recorded user != our user -> not known dead", message="the user guard is missing")
    ctx.check("R6-pid-guard", where, has_pid, "guard: no pid recorded -> not known dead", message="the pid guard is missing")
    ctx.sample({"rust_guards": conds, "tail": tail})
    # ---- fourth round: every acquisition writes holder info of its own (fresh nonce) ---------------------------------------
    fcp = repo.func(LD, "LockDir._create_pending_dir")
    wcp = f"{LD}:LockDir._create_pending_dir"
    puts_ = [c for c in calls_in(fcp) if call_attr(c) in ("put_bytes_non_atomic", "put_bytes", "put_file", "put_file_non_atomic") and len(c.args) >= 2]
    ctx.require(len(puts_) == 1, f"{wcp}: the write of the info file was not found")
    written = puts_[0].args[1]
    info_names = {n_.id for n_ in ast.walk(written) if isinstance(n_, ast.Name)}
    srcs_ = [a.value for a in ast.walk(fcp) if isinstance(a, ast.Assign) and any(isinstance(t, ast.Name) and t.id in info_names for t in a.targets)] or [written]
    fresh = all(isinstance(v_, ast.Call) and norm(v_.func).split(".")[-1] == "for_this_process" for v_ in srcs_) and not any(isinstance(n_, ast.Attribute) and isinstance(n_.value, ast.Name) and n_.value.id == "self" and n_.attr.startswith("_") and "info" in n_.attr for v_ in srcs_ + [written] for n_ in ast.walk(v_))
    nonce_set = [a for a in ast.walk(fcp) if isinstance(a, ast.Assign) and any(norm(t) == "self.nonce" for t in a.targets)]
    ok_nonce = len(nonce_set) == 1 and isinstance(nonce_set[0].value, ast.Attribute) and nonce_set[0].value.attr == "nonce" and isinstance(nonce_set[0].value.value, ast.Name) and nonce_set[0].value.value.id in info_names
    ctx.check("holder-info-fresh-per-acquisition", wcp, fresh and ok_nonce, "the info written into the pending directory is built by LockHeldInfo.for_this_process() in this very attempt, and self.nonce is that info's nonce", construct="; ".join(norm(v_)[:60] for v_ in srcs_), message=f"_create_pending_dir writes holder info that is not built afresh for this attempt ({'; '.join(norm(v_)[:50] for v_ in srcs_)}): two holdings taken through one LockDir object carry the same nonce and start time, so force_break's comparisons before and after the rename cannot tell a later holding from the one that was examined — a stale break request removes the later holder's lock")


def _branch_only_raises(g, t, label):
    """All paths starting with edge `label` out of test t end in raise_exit."""
    starts = [b for (b, l) in g.edges(t) if l == label]
    r = g.reach(starts, include_src=True) if starts else set()
    return bool(starts) and g.exit not in r


MUTANTS = [
    Mutant("holder info built once per LockDir object", LD, "        info = LockHeldInfo.for_this_process(self.extra_holder_info)\n        self.nonce = info.nonce\n", "        if getattr(self, \"_cached_info\", None) is None:\n            self._cached_info = LockHeldInfo.for_this_process(self.extra_holder_info)\n        info = self._cached_info\n        self.nonce = info.nonce\n", expect="holder-info-fresh-per-acquisition"),
    Mutant("EPERM taken for a dead holder", "crates/osutils/src/lib.rs", "        Err(nix::Error::EPERM) => false, // Exists, though not ours.", "        Err(nix::Error::EPERM) => true, // pid recycled by somebody else", expect="R6-known-dead-only-when-absent"),
    Mutant("steal path moves the dead lock aside itself", LD, "                self.force_break(other_holder)\n                self._trace(\"stole lock from dead holder\")", "                self.transport.rename(self._held_dir, self.path + \"/stolen.tmp\")\n                self._trace(\"stole lock from dead holder\")", expect="R4c-who-moves-the-lock"),
    Mutant("contention handler marks the lock held", LD, "                self._trace(\"... contention, %s\", e)\n                other_holder = self.peek()", "                self._trace(\"... contention, %s\", e)\n                self._lock_held = True\n                other_holder = self.peek()", expect=["R1-held-after-rename", "R1-no-raise-after-held"]),
    Mutant("lock marked held before the rename", LD, "        while True:\n            try:\n                self.transport.rename(tmpname, self._held_dir)\n                break", "        self._lock_held = True\n        while True:\n            try:\n                self.transport.rename(tmpname, self._held_dir)\n                break", expect=["R1-held-after-rename", "R1-no-raise-after-held"]),
    Mutant("unlock deletes held/info in place", LD, "            self.transport.rename(self._held_dir, tmpname)\n            self._lock_held = False\n            self.transport.delete(tmpname + self.__INFO_NAME)", "            self.transport.delete(self._held_info_path)\n            self.transport.rename(self._held_dir, tmpname)\n            self._lock_held = False", expect=["R2-no-delete-under-held", "R3-delete-after-rename"]),
    Mutant("unlock skips confirm()", LD, "            # gotta own it to unlock\n            self.confirm()\n", "            # gotta own it to unlock\n", expect="ANALYSIS-ERROR"),
    Mutant("unlock confirms after the rename", LD, "            self.confirm()\n            self.transport.rename(self._held_dir, tmpname)\n", "            self.transport.rename(self._held_dir, tmpname)\n            self.confirm()\n", expect="R3-confirm-before-release"),
    Mutant("force_break skips the pre-rename holder comparison", LD, "        if current_info != dead_holder_info:\n            raise LockBreakMismatch(self, current_info, dead_holder_info)\n", "", expect="R4-compare-before-break"),
    Mutant("force_break skips the post-rename re-check", LD, "        if broken_info != dead_holder_info:\n            raise LockBreakMismatch(self, broken_info, dead_holder_info)\n", "", expect="R4-recheck-after-rename"),
    Mutant("steal without the known-dead test", LD, "        if other_holder is not None and other_holder.is_lock_holder_known_dead():\n", "        if other_holder is not None:\n", expect="R5-steal-only-dead"),
    Mutant("steal regardless of the option", LD, "            if self.get_config().get(\"locks.steal_dead\"):\n", "            if True:\n", expect="R5-steal-needs-option"),
    Mutant("token path skips validation", LD, "        if token is not None:\n            self.validate_token(token)\n            self.nonce = token", "        if token is not None:\n            self.nonce = token", expect="ANALYSIS-ERROR"),
    Mutant("rust: hostname guard dropped", RS, "        if self.hostname != Some(breezy_osutils::get_host_name().unwrap()) {\n            return false;\n        }\n", "", expect="R6-host-guard"),
    Mutant("rust: user guard returns true", RS, "            // just to be safe we won't conclude about this either.\n            return false;", "            // just to be safe we won't conclude about this either.\n            return true;", expect="R6-only-guards"),
    Mutant("neutral: post-rename nonce re-read removed (second layer)", LD, "        if info.nonce != self.nonce:\n            self._trace(\"rename succeeded, but lock is still held by someone else\")\n            raise LockContention(self)\n        self._lock_held = True", "        self._lock_held = True", neutral=True),
    Mutant("neutral: tmp prefix renamed", LD, "        tmpname = f\"{self.path}/broken.{rand_chars(20)}.tmp\"\n        self.transport.rename(self._held_dir, tmpname)\n        # check that we actually broke the right lock, not someone else;\n        # there's a small race window between checking it and doing the\n        # rename.\n        broken_info_path = tmpname + self.__INFO_NAME\n        broken_info =", "        tmpname = f\"{self.path}/breaking.{rand_chars(20)}.tmp\"\n        self.transport.rename(self._held_dir, tmpname)\n        # check that we actually broke the right lock, not someone else;\n        # there's a small race window between checking it and doing the\n        # rename.\n        broken_info_path = tmpname + self.__INFO_NAME\n        broken_info =", neutral=True),
]
