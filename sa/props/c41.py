"""C41 — testaments are deterministic and sensitive to every attested field: output-dependence (K5)."""

import ast

from ..astutil import call_attr, call_recv, calls_in, dotted, norm, walk_own
from ..selftest import Mutant

ID = "C41"
TECHNIQUE = "output-dependence analysis: every attested field must flow into the returned line list (K5), sorted() on unordered sources, single derivation of the hash forms (ast)"
FLOOR = 26
TF = "breezy/bzr/testament.py"
EXPLANATION = """
K5 (sensitivity needs dependence): in Testament.as_text_lines every attested revision field — revision_id, committer,
timestamp, timezone, parent_ids, message, and the revision properties via _revprops_to_lines — flows from __init__
(where it is copied from the Revision) into the list that is returned (through the append alias, loop sources and
helper results); in _entry_to_line every attested entry field — kind, path, file_id, text_sha1 for files,
symlink_target for symlinks — is an argument of the formatted line that is returned, and StrictTestament additionally
appends the entry's revision and executable flag to the parent's line. A field that never reaches the output cannot
influence the testament. Determinism: iteration over parent_ids and revprops is wrapped in sorted(); the entries come
from tree.list_files (ordered by the tree). as_sha1 hashes as_text_lines() and as_short_text embeds as_sha1(): all
forms derive from the one line list. The long/short headers of the three classes are pairwise distinct.
Added while testing against seeded changes: Also: _get_entries has a single, format-independent source; the commit
timestamp is rounded to the 1 ms resolution revisions are serialised with.
attested-text-unaltered: the rendering methods (everything reachable from as_text_lines inside the module) only decode/
encode, escape with replace(), split into lines and format the values they render — no strip, case folding, path
normalisation or slicing on the way.
line-split-injective: free text written back one line per piece is cut at "\n" only (str.splitlines() cuts at eight more
separators and makes texts that differ only in the separator collide) — two known findings on today's tree.
Fourth round: delta-paired-with-its-basis — in InterDifferingSerializer._get_delta_for_revision (cross-format fetch) no variable bound per
candidate basis (loop target or assigned only inside the loop) is read after the loop: basis and delta are returned from one record.
Does not decide: injectivity of the escaping itself (replace() tables).
"""
REV_FIELDS = ["revision_id", "committer", "timestamp", "timezone", "parent_ids", "message", "revprops"]
ENTRY_FIELDS = {"kind", "file_id", "text_sha1", "symlink_target"}
STRICT_FIELDS = {"revision", "executable"}


def fields_into_output(repo, cname, meth, depth=0):
    """self.X fields that reach the value returned by cname.meth."""
    r = repo.resolve_method(TF, cname, meth)
    if r is None or depth > 3:
        return set()
    fn = r[2]
    out_names = set()  # local names that hold (part of) the output
    rets = [n for n in walk_own(fn) if isinstance(n, ast.Return) and n.value is not None]
    for rt in rets:
        out_names |= {x.id for x in ast.walk(rt.value) if isinstance(x, ast.Name)}
    # aliases like a = r.append
    alias = {}
    for s in walk_own(fn):
        if isinstance(s, ast.Assign) and isinstance(s.value, ast.Attribute) and s.value.attr in ("append", "extend") and isinstance(s.value.value, ast.Name):
            alias[norm(s.targets[0])] = s.value.value.id
    contributing = []  # expressions whose value is put into an output name
    for n in walk_own(fn):
        if isinstance(n, ast.Call):
            tgt = None
            if isinstance(n.func, ast.Name) and n.func.id in alias:
                tgt = alias[n.func.id]
            elif call_attr(n) in ("append", "extend") and isinstance(n.func.value, ast.Name):
                tgt = n.func.value.id
            if tgt in out_names:
                contributing += list(n.args)
        if isinstance(n, (ast.Assign, ast.AugAssign)):
            ts = n.targets if isinstance(n, ast.Assign) else [n.target]
            if any(isinstance(t, ast.Name) and t.id in out_names for t in ts):
                contributing.append(n.value)
    for rt in rets:
        contributing.append(rt.value)
    # loop sources feeding the loop variables used in contributing expressions
    loops = [n for n in walk_own(fn) if isinstance(n, ast.For)]
    fields = set()
    work = list(contributing)
    seen = set()
    while work:
        e = work.pop()
        if id(e) in seen:
            continue
        seen.add(id(e))
        for x in ast.walk(e):
            if isinstance(x, ast.Attribute) and dotted(x.value) == "self" and isinstance(x.ctx, ast.Load):
                fields.add(x.attr)
            if isinstance(x, ast.Call) and call_recv(x) == "self" and call_attr(x) not in (None,):
                fields |= fields_into_output(repo, cname, call_attr(x), depth + 1)
            if isinstance(x, ast.Name):
                for l in loops:
                    if x.id in {t.id for t in ast.walk(l.target) if isinstance(t, ast.Name)}:
                        work.append(l.iter)
                for s in walk_own(fn):
                    if isinstance(s, ast.Assign) and any(isinstance(t, ast.Name) and t.id == x.id for t in s.targets):
                        work.append(s.value)
    return fields


def entry_fields(fn):
    """ie.X fields that are arguments of the formatted line (or assigned to names that are)."""
    names = {}
    for s in walk_own(fn):
        if isinstance(s, ast.Assign) and len(s.targets) == 1 and isinstance(s.targets[0], ast.Name):
            names.setdefault(s.targets[0].id, []).append(s.value)
    out = set()
    rets = [n.value for n in walk_own(fn) if isinstance(n, ast.Return)]
    work = list(rets)
    for s in walk_own(fn):
        if isinstance(s, ast.AugAssign) and isinstance(s.target, ast.Name):
            names.setdefault(s.target.id, []).append(s.value)
    seen = set()
    while work:
        e = work.pop()
        if id(e) in seen:
            continue
        seen.add(id(e))
        for x in ast.walk(e):
            if isinstance(x, ast.Attribute) and dotted(x.value) == "ie":
                out.add(x.attr)
            if isinstance(x, ast.Name) and x.id in names:
                work.extend(names[x.id])
            if isinstance(x, ast.Name) and x.id == "path":
                out.add("path")
    return out


def run(ctx):
    repo = ctx.repo
    init = repo.func(TF, "Testament.__init__")
    copied = {}
    for s in walk_own(init):
        if isinstance(s, ast.Assign) and isinstance(s.targets[0], ast.Attribute) and dotted(s.targets[0].value) == "self":
            copied[s.targets[0].attr] = norm(s.value)
    src = {"revision_id": "rev.revision_id", "committer": "rev.committer", "timestamp": "rev.timestamp", "timezone": "rev.timezone", "message": "rev.message", "parent_ids": "rev.parent_ids", "revprops": "rev.properties"}
    for f, s in src.items():
        ctx.check("field-copied-from-revision", f"{TF}:Testament.__init__", s in copied.get(f, ""), f"self.{f} is taken from {s}", construct=copied.get(f, ""))
    got = fields_into_output(repo, "Testament", "as_text_lines")
    for f in REV_FIELDS:
        ctx.check("field-reaches-output", f"{TF}:Testament.as_text_lines", f in got, f"attested field `{f}` flows into the testament text", construct=f, message=f"`{f}` never reaches the lines returned by as_text_lines: changing it cannot change the testament")
    ctx.check("field-reaches-output", f"{TF}:Testament.as_text_lines", "long_header" in got and "tree" in got, "the format header and the tree entries are part of the text")
    ef = entry_fields(repo.func(TF, "Testament._entry_to_line"))
    for f in sorted(ENTRY_FIELDS | {"path"}):
        ctx.check("entry-field-reaches-output", f"{TF}:Testament._entry_to_line", f in ef, f"entry field `{f}` is part of the entry line", construct=f, message=f"entry field `{f}` is not part of the line returned by _entry_to_line")
    fe = repo.func(TF, "Testament._entry_to_line")
    tests = [norm(n.test) for n in walk_own(fe) if isinstance(n, ast.If)]
    ctx.check("entry-field-reaches-output", f"{TF}:Testament._entry_to_line", "ie.kind == 'file'" in tests and "ie.kind == 'symlink'" in tests, "file content hash and symlink target are selected by the entry kind")
    sf = entry_fields(repo.func(TF, "StrictTestament._entry_to_line"))
    fs = repo.func(TF, "StrictTestament._entry_to_line")
    ctx.check("entry-field-reaches-output", f"{TF}:StrictTestament._entry_to_line", STRICT_FIELDS <= sf and any(norm(c.func) == "Testament._entry_to_line" for c in calls_in(fs)), "the strict form extends the base line with the entry's revision and executable flag", construct=str(sorted(sf)), message="StrictTestament no longer includes revision / executable in the entry line")
    # determinism
    fa = repo.func(TF, "Testament.as_text_lines")
    fr = repo.func(TF, "Testament._revprops_to_lines")
    for f, fn, what in (("parent_ids", fa, "self.parent_ids"), ("revprops", fr, "self.revprops")):
        loops = [n for n in walk_own(fn) if isinstance(n, ast.For) and what in norm(n.iter)]
        ctx.check("sorted-iteration", f"{TF}:Testament", len(loops) == 1 and norm(loops[0].iter).startswith("sorted("), f"iteration over {what} is sorted", construct=norm(loops[0].iter) if loops else "", message=f"the testament iterates {what} in storage order: identical revisions stored differently give different testaments")
    # single derivation
    sha = repo.func(TF, "Testament.as_sha1")
    sh = repo.func(TF, "Testament.as_short_text")
    tx = repo.func(TF, "Testament.as_text")
    ctx.check("single-derivation", f"{TF}:Testament.as_sha1", any(norm(r.value) == "sha_strings(self.as_text_lines())" for r in walk_own(sha) if isinstance(r, ast.Return)), "as_sha1 hashes as_text_lines()")
    ctx.check("single-derivation", f"{TF}:Testament.as_short_text", any(call_attr(c) == "as_sha1" for c in calls_in(sh)) and "self.revision_id" in norm(sh), "as_short_text embeds revision id and as_sha1()")
    ctx.check("single-derivation", f"{TF}:Testament.as_text", any(call_attr(c) == "as_text_lines" for c in calls_in(tx)), "as_text joins as_text_lines()")
    hdr = []
    for cname in ("Testament", "StrictTestament", "StrictTestament3"):
        for s in repo.cls(TF, cname).body:
            if isinstance(s, ast.Assign) and norm(s.targets[0]) in ("long_header", "short_header"):
                hdr.append(norm(s.value))
    ctx.check("distinct-headers", TF, len(hdr) == 6 and len(set(hdr)) == 6, "the three testament forms carry pairwise distinct headers")
    ge = repo.func(TF, "Testament._get_entries")
    ctx.check("entries-source", f"{TF}:Testament._get_entries", any(call_attr(c) == "list_files" and any(k.arg == "include_root" and norm(k.value) == "self.include_root" for k in c.keywords) for c in calls_in(ge)), "entries come from tree.list_files(include_root=self.include_root)")
    rets = [r for r in walk_own(ge) if isinstance(r, ast.Return)]
    ctx.check("entries-source", f"{TF}:Testament._get_entries", len(rets) == 1 and any(call_attr(c) == "list_files" for c in calls_in(rets[0])) and not any(isinstance(n, ast.Call) and norm(n.func) in ("isinstance", "type") for n in ast.walk(ge)), "the entries have one source for every tree / repository format (no dispatch on the inventory type, a single return built from list_files)", construct="; ".join(norm(r)[:60] for r in rets), message="_get_entries takes its entries from a second, format-specific source: the testament of the same revision can differ between repository formats (ordering / root handling of the other walk)")
    # ---- the attested timestamp has the resolution revisions are stored with -----------------------------------
    RP = "breezy/repository.py"
    fcb = repo.func(RP, "CommitBuilder.__init__")
    tsv = [s_.value for s_ in walk_own(fcb) if isinstance(s_, ast.Assign) and norm(s_.targets[0]) == "self._timestamp"]
    ctx.check("timestamp-resolution", f"{RP}:CommitBuilder.__init__", bool(tsv) and all(isinstance(v, ast.Call) and norm(v.func) == "round" and len(v.args) == 2 and norm(v.args[1]) == "3" for v in tsv), "the commit timestamp is restricted to the 1 ms resolution revisions are serialised with", construct="; ".join(norm(v) for v in tsv), message="the commit builder keeps a timestamp with more than millisecond resolution: the in-memory revision (and its testament, e.g. for signing) differs from the revision read back from the repository, which was serialised with 3 decimals")
    ctx.sample({"revision_fields_in_output": sorted(got), "entry_fields": sorted(ef), "strict_entry_fields": sorted(sf)})

    # ---- attested text reaches the output unaltered (no lossy normaliser on the way) ------------------------------
    # In the methods that render the testament (everything reachable from as_text_lines inside the module) an attested
    # value is only decoded/encoded, escaped with replace(), split into lines and formatted.  Any other operation on the
    # way (strip/rstrip, case folding, path normalisation, slicing …) maps different field values to the same text: the
    # testament no longer changes whenever the attested field changes.
    mod = repo.module(TF)
    fns = mod.functions()
    render, todo = set(), ["Testament.as_text_lines"]
    classes = [q for q in mod.classes()]
    while todo:
        q = todo.pop()
        if q in render or q not in fns:
            continue
        render.add(q)
        for c in calls_in(fns[q]):
            d = norm(c.func)
            if d.startswith("self.") or d.split(".")[0] in classes:
                m_ = d.split(".", 1)[1]
                todo += [f"{k}.{m_}" for k in classes if f"{k}.{m_}" in fns]
    ctx.require(len(render) >= 5, f"{TF}: only {len(render)} rendering methods found from Testament.as_text_lines")
    OK_METHODS = {"decode", "encode", "replace", "splitlines", "format", "join", "items", "append", "extend", "list_files"}
    OK_NAMES = {"sorted", "isinstance", "str", "len", "ValueError", "AssertionError", "TypeError", "contains_linebreaks", "contains_whitespace", "sha_strings", "list", "tuple", "iter", "enumerate"}
    n_calls = 0
    for q in sorted(render):
        f = fns[q]
        aliases = {norm(s_.targets[0]) for s_ in walk_own(f) if isinstance(s_, ast.Assign) and isinstance(s_.value, ast.Attribute) and s_.value.attr in ("append", "extend")}
        bad = []
        for c in calls_in(f):
            n_calls += 1
            d = norm(c.func)
            if d.startswith("self.") or d.split(".")[0] in classes or d in OK_NAMES or d in aliases:
                continue
            if isinstance(c.func, ast.Attribute) and c.func.attr in OK_METHODS:
                continue
            bad.append(f"L{c.lineno}:{norm(c)[:60]}")
        for n in walk_own(f):
            if isinstance(n, ast.Subscript) and isinstance(n.slice, ast.Slice):
                v = n.value
                if isinstance(v, ast.Call) and (norm(v.func).startswith("self.") or norm(v.func).split(".")[0] in classes):
                    continue  # trimming the terminator off a line another rendering method has just formatted
                bad.append(f"L{n.lineno}:{norm(n)[:60]} (slice)")
        ctx.check("attested-text-unaltered", f"{TF}:{q}", not bad, f"{q} only decodes, escapes, splits and formats the values it renders", construct="; ".join(bad), message=f"{q} passes a rendered value through {bad}: an operation outside decode/encode/replace/splitlines/format maps different values of an attested field (message, property value, path, symlink target) to the same testament text — a change of that field no longer changes the testament")
    ctx.extra["render_calls"] = n_calls
    # free text (message, property values) is written back one "\n"-terminated line per piece: the split has to cut at
    # "\n" only.  str.splitlines() also cuts at \r, \x0b, \x0c, \x1c-\x1e, \x85, \u2028 and \u2029, so texts that
    # differ only in which of these separates two lines render identically.
    n_split = 0
    for q in sorted(render):
        for c in calls_in(fns[q]):
            if call_attr(c) == "splitlines":
                n_split += 1
                ctx.check("line-split-injective", f"{TF}:{q}[{norm(c.func.value) if norm(c.func.value).startswith('self.') else '<local>'}.splitlines]", False, "free text is cut at newline characters only", construct=f"L{c.lineno}:{norm(c)}", message=f"{q} cuts {norm(c.func.value)} with str.splitlines(), which also cuts at \\r, \\x0b, \\x0c, \\x1c-\\x1e, \\x85, \\u2028, \\u2029 and then writes every piece back with '\\n': two revisions whose text differs only in the kind of line separator (e.g. 'a\\nb' and 'a\\x0cb') have the same testament, so a signature over one also verifies the other")
    ctx.extra["splitlines_sites"] = n_split
    # ---- fourth round: the basis returned with the chosen delta is the one the delta was computed against ---------------
    VR = "breezy/bzr/vf_repository.py"
    fgd = repo.func(VR, "InterDifferingSerializer._get_delta_for_revision")
    loops_ = [s_ for s_ in fgd.body if isinstance(s_, ast.For)]
    ctx.require(len(loops_) == 1, f"{VR}:InterDifferingSerializer._get_delta_for_revision: expected one candidate loop, found {len(loops_)}")
    lp = loops_[0]
    targets_ = {n_.id for n_ in ast.walk(lp.target) if isinstance(n_, ast.Name)}
    pre = {t.id for s_ in fgd.body[: fgd.body.index(lp)] for a in ast.walk(s_) if isinstance(a, ast.Assign) for t in a.targets if isinstance(t, ast.Name)}
    percand = targets_ | ({t.id for a in ast.walk(lp) if isinstance(a, ast.Assign) for t in a.targets if isinstance(t, ast.Name)} - pre)
    after = fgd.body[fgd.body.index(lp) + 1 :]
    stale = sorted({n_.id for s_ in after for n_ in ast.walk(s_) if isinstance(n_, ast.Name) and isinstance(n_.ctx, ast.Load) and n_.id in percand})
    ctx.check("delta-paired-with-its-basis", f"{VR}:InterDifferingSerializer._get_delta_for_revision", not stale, "after the candidate loop nothing reads a per-candidate variable (basis id, tree, delta): the result is taken from the collected (size, basis, delta) records", construct=str(stale), message=f"_get_delta_for_revision reads the per-candidate variable(s) {stale} after the loop over the possible bases: they hold the LAST candidate, not the one the chosen delta was computed against — the shortest delta is applied to a different basis inventory, a converted merge revision gets a different inventory in the target format and its testament differs between formats")


MUTANTS = [
    Mutant("cross-format fetch returns the last basis with the shortest delta", "breezy/bzr/vf_repository.py", "        deltas.sort()\n        return deltas[0][1:]\n", "        deltas.sort()\n        return basis_id, deltas[0][2]\n", expect="delta-paired-with-its-basis"),
    Mutant("message lines lose trailing whitespace", TF, '        for l in self.message.splitlines():\n            a(f"  {l}\\n")\n', '        for l in self.message.splitlines():\n            a(f"  {l.rstrip()}\\n")\n', expect="attested-text-unaltered"),
    Mutant("paths normalised before escaping", TF, '        return path.replace("\\\\", "/").replace(" ", "\\\\ ")\n\n    def _entry_to_line', '        import posixpath\n\n        return posixpath.normpath(path.replace("\\\\", "/")).replace(" ", "\\\\ ")\n\n    def _entry_to_line', expect="attested-text-unaltered"),
    Mutant("commit timestamp keeps full resolution", "breezy/repository.py", "        self._timestamp = round(timestamp, 3)\n", "        self._timestamp = timestamp\n", expect="timestamp-resolution"),
    Mutant("CHK inventories walked through another iterator", TF, "    def _get_entries(self):\n        return (", "    def _get_entries(self):\n        inv = getattr(self.tree, \"root_inventory\", None)\n        if type(inv).__name__ == \"CHKInventory\":\n            return iter(sorted(inv.iter_entries_by_dir()))\n        return (", expect="entries-source"),
    Mutant("committer line dropped", TF, "        a(f\"committer: {self.committer}\\n\")\n", "", expect="field-reaches-output"),
    Mutant("revision properties iterated unsorted", TF, "        for name, value in sorted(self.revprops.items()):", "        for name, value in self.revprops.items():", expect="sorted-iteration"),
    Mutant("executable omitted from the strict form", TF, "        l += {True: \" yes\\n\", False: \" no\\n\"}[ie.executable]", "        l += \"\\n\"", expect="entry-field-reaches-output"),
    Mutant("symlink target not attested", TF, "            content = self._escape_path(ie.symlink_target)\n", "            content = \"\"\n", expect="entry-field-reaches-output"),
    Mutant("parents unsorted", TF, "        for parent_id in sorted(self.parent_ids):", "        for parent_id in self.parent_ids:", expect="sorted-iteration"),
    Mutant("neutral: lines built with += instead of append", TF, "        a(\"message:\\n\")\n", "        r += [\"message:\\n\"]\n", neutral=True),
]
