"""C20 — conflict records persist and resolve faithfully: stanza / constructor / comparison table agreement."""

import ast

from ..astutil import call_attr, call_name, call_recv, calls_in, const_value, dotted, norm, param_names, walk_own
from ..cfg import build_cfg
from ..rules import calling
from ..selftest import Mutant

ID = "C20"
TECHNIQUE = "registry exhaustiveness and per-class writer/reader table agreement (as_stanza keys vs __init__ parameters vs _cmp_list attributes, resolved through the in-repo MRO) (K6/K7), loop-body partition (K3) (ast)"
FLOOR = 51
CF = "breezy/bzr/conflicts.py"
WT = "breezy/bzr/workingtree.py"
EXPLANATION = """
K6/K7 over the ctype registry of breezy/bzr/conflicts.py: (a) every concrete Conflict subclass that carries a typestring
is passed to register_types and the typestrings are unique, so Conflict.factory(**stanza) can rebuild every stored type;
(b) for each registered class, following the explicit super-calls: the keys written by as_stanza (minus "type") are all
parameter names of its __init__ (MRO-resolved), every required __init__ parameter is written unconditionally, every
conditionally written key is guarded by `self.<key> is not None` and its parameter defaults to None, bytes fields written
with .decode are re-encoded by __init__, and every attribute compared by _cmp_list is written and assigned by __init__ —
hence factory(**stanza.as_dict()) rebuilds an equal object; (c) select_conflicts appends every conflict to exactly one
of its two result lists; (d) InventoryWorkingTree.set_conflicts / conflicts write and read the same control file through
to_stanzas / from_stanzas.
Added while testing against seeded changes: Also: set_conflicts / set_merge_modified cannot return without writing
their control file; resolve() treats only `paths is None` as 'all conflicts'; every function that reads X.conflicts() and
writes X.set_conflicts() holds one write lock on X across both (rmw-under-one-lock).
Third round: the writers of the two control files (set_conflicts, set_merge_modified and the self.* helper they share) hand
the file to the transport only through put_file / put_bytes (whole-file replacement when the content is complete) — no
open_write_stream / append_* / *_non_atomic; add_conflicts uses Conflict.sort_key only inside `key=` of sorted()/sort()
(no dictionary keyed by a projection of a conflict).
Fourth round: selection-by-path-containment — both select_conflicts implementations decide the recursive selection through
osutils.is_inside_any/is_inside and contain no textual prefix test. merge-hash-keyed-by-target-path — in transform._alter_files the hash
taken with target_tree.get_file_sha1(P) is stored under merge_modified[P].
Does not decide: rio's escaping of arbitrary unicode (bzrformats).
"""


#: locals of conflicts.py:resolve by what they hold
RESOLVE_ROLES = {
    "tree_conflicts": ("assign", "tree.conflicts()"),
    "new_conflicts": ("assign", "~{tree_conflicts}\\.select_conflicts\\(.*\\)", 0),
    "to_process": ("assign", "~{tree_conflicts}\\.select_conflicts\\(.*\\)", 1),
    "conflict": ("for", "{to_process}"),
}


def stanza_info(repo, rel, cname, seen=None):
    """(unconditional keys, conditional keys {key: guard attr}, decoded keys) of cname.as_stanza, following
    `Parent.as_stanza(self)` / super().as_stanza() calls."""
    r = repo.resolve_method(rel, cname, "as_stanza")
    if r is None:
        return None
    _, owner, fn = r
    uncond, cond, decoded = set(), {}, set()

    def visit(stmts, guard):
        for s in stmts:
            if isinstance(s, ast.If):
                g = None
                t = s.test
                if isinstance(t, ast.Compare) and isinstance(t.ops[0], ast.IsNot) and const_value(t.comparators[0], 0) is None and dotted(t.left) and dotted(t.left).startswith("self."):
                    g = dotted(t.left)[5:]
                visit(s.body, g or "?")
                visit(s.orelse, "?")
                continue
            for c in calls_in(s):
                if norm(c.func) == "rio.Stanza":
                    for k in c.keywords:
                        if k.arg and k.arg != "type":
                            (uncond.add if guard is None else cond.__setitem__)(k.arg, *([] if guard is None else [guard]))
                if call_attr(c) == "add" and call_recv(c) == "s" and c.args and isinstance(c.args[0], ast.Constant):
                    k = c.args[0].value
                    if guard is None:
                        uncond.add(k)
                    else:
                        cond[k] = guard
                    if len(c.args) > 1 and "decode" in norm(c.args[1]):
                        decoded.add(k)
                if call_attr(c) == "as_stanza" and call_recv(c) not in ("s",):
                    parent = call_recv(c)
                    if parent == "super()":
                        mro = repo.mro(rel, owner)
                        parent = mro[1][1] if len(mro) > 1 else None
                    if parent and repo.module(rel).get(parent) is not None:
                        pu, pc, pd = stanza_info(repo, rel, parent)
                        if guard is None:
                            uncond.update(pu)
                            cond.update(pc)
                        else:
                            cond.update({k: guard for k in pu})
                            cond.update(pc)
                        decoded.update(pd)

    visit(fn.body, None)
    return uncond, cond, decoded


def init_info(repo, rel, cname):
    r = repo.resolve_method(rel, cname, "__init__")
    _, owner, fn = r
    a = fn.args
    names = [x.arg for x in a.args][1:]
    ndef = len(a.defaults)
    required = names[: len(names) - ndef] if ndef else list(names)
    defaults = {n: norm(d) for n, d in zip(names[len(names) - ndef :], a.defaults)}
    # attributes assigned (following explicit parent __init__ calls)
    assigned, encoded = set(), set()

    def collect(owner_name, f):
        for s in walk_own(f):
            if isinstance(s, ast.Assign):
                for t in s.targets:
                    if isinstance(t, ast.Attribute) and dotted(t.value) == "self":
                        assigned.add(t.attr)
            if isinstance(s, ast.Call) and "encode" in norm(s.func) and s.args:
                encoded.add(norm(s.args[0]))
            if isinstance(s, ast.Call) and call_attr(s) == "__init__":
                p = call_recv(s)
                if p == "super()":
                    mro = repo.mro(rel, owner_name)
                    p = mro[1][1] if len(mro) > 1 and mro[1][0] == rel else "<external>"
                if p and p != owner_name and repo.module(rel).get(p + ".__init__") is not None:
                    collect(p, repo.module(rel).get(p + ".__init__"))
                elif p == "BaseConflict" or (p and repo.module(rel).get(p) is None):
                    assigned.add("path")

    collect(owner, fn)
    return names, required, defaults, assigned, encoded


def cmp_attrs(repo, rel, cname):
    r = repo.resolve_method(rel, cname, "_cmp_list")
    _, owner, fn = r
    out = set()
    for n in walk_own(fn):
        if isinstance(n, ast.Attribute) and dotted(n.value) == "self" and isinstance(n.ctx, ast.Load) and n.attr not in ("typestring",):
            out.add(n.attr)
        if isinstance(n, ast.Call) and call_attr(n) == "_cmp_list" and call_recv(n) not in ("self", "other"):
            p = call_recv(n)
            if p == "super()":
                mro = repo.mro(rel, owner)
                p = mro[1][1] if len(mro) > 1 else None
            if p and repo.module(rel).get(p) is not None:
                out |= cmp_attrs(repo, rel, p)
    return out


def run(ctx):
    repo = ctx.repo
    mod = repo.module(CF)
    reg = []
    for n in mod.tree.body:
        if isinstance(n, ast.Expr) and isinstance(n.value, ast.Call) and norm(n.value.func) == "register_types":
            reg += [norm(a) for a in n.value.args]
    ctx.require(len(reg) >= 6, f"only {len(reg)} registered conflict types found (hand-confirmed: 10)")
    concrete = {}
    for q, c in mod.classes().items():
        ts = [const_value(s.value) for s in c.body if isinstance(s, ast.Assign) and norm(s.targets[0]) == "typestring"]
        if ts and isinstance(ts[0], str) and (CF, "Conflict") in repo.mro(CF, q):
            concrete[q] = ts[0]
    missing = sorted(set(concrete) - set(reg))
    ctx.check("registry-exhaustive", CF, not missing, f"all {len(concrete)} concrete conflict classes are registered", construct=str(missing), message=f"conflict classes with a typestring but not registered: {missing} — a stored conflict of that type cannot be read back")
    ctx.check("registry-unique", CF, len(set(concrete.values())) == len(concrete) and len(set(reg)) == len(reg), "typestrings are unique")
    ff = repo.func(CF, "Conflict.factory")
    ctx.check("factory", f"{CF}:Conflict.factory", any(norm(r.value) == "ctype[type](**kwargs)" for r in walk_own(ff) if isinstance(r, ast.Return)), "factory(type, **kwargs) instantiates the registered class with the stanza's remaining keys")
    for cname in reg:
        where = f"{CF}:{cname}"
        si = stanza_info(repo, CF, cname)
        ctx.require(si is not None, f"{where}: as_stanza not resolvable")
        uncond, cond, decoded = si
        names, required, defaults, assigned, encoded = init_info(repo, CF, cname)
        keys = uncond | set(cond)
        ctx.check("keys-are-parameters", where, keys <= set(names), f"stanza keys {sorted(keys)} are __init__ parameters {names}", construct=str(sorted(keys - set(names))), message=f"{cname}.as_stanza writes {sorted(keys - set(names))}, which {cname}.__init__ does not accept: factory(**stanza) raises TypeError on read-back")
        ctx.check("required-are-written", where, set(required) <= uncond, f"required parameters {required} are written unconditionally", construct=str(sorted(set(required) - uncond)), message=f"{cname}.__init__ requires {sorted(set(required) - uncond)} but as_stanza does not always write them")
        bad_cond = sorted(k for k, g in cond.items() if g != k or defaults.get(k) != "None")
        ctx.check("conditional-keys", where, not bad_cond, f"conditionally written keys {sorted(cond)} are guarded by their own `is not None` and default to None", construct=str(bad_cond))
        ctx.check("bytes-fields-reencoded", where, decoded <= encoded, f"fields written with .decode {sorted(decoded)} are re-encoded by __init__", construct=str(sorted(decoded - encoded)), message=f"{cname}: {sorted(decoded - encoded)} is written as text but not turned back into bytes on read-back (the reloaded conflict compares unequal)")
        ca = cmp_attrs(repo, CF, cname)
        ctx.check("compared-attrs-persisted", where, ca <= keys and ca <= assigned, f"attributes compared by _cmp_list {sorted(ca)} are written and restored", construct=str(sorted(ca - keys) + sorted(ca - assigned)), message=f"{cname}._cmp_list compares {sorted(ca - keys)} which as_stanza does not persist")
    # ---- select_conflicts partition -------------------------------------------------
    from ..astutil import bind_roles, canonicalise

    fn = repo.func(CF, "ConflictList.select_conflicts")
    fn = canonicalise(fn, bind_roles(fn, {"new_conflicts": ("return", None, 0), "selected_conflicts": ("return", None, 1), "conflict": ("for", "self")}, f"{CF}:ConflictList.select_conflicts"))
    flag = sorted({norm(s_.targets[0]) for s_ in ast.walk(fn) if isinstance(s_, ast.Assign) and isinstance(s_.value, ast.Constant) and s_.value.value is True})
    if len(flag) == 1:
        fn = canonicalise(fn, {"selected": flag[0]})
    loops = [n for n in walk_own(fn) if isinstance(n, ast.For) and norm(n.iter) == "self"]
    ok = len(loops) == 1
    if ok:
        last = loops[0].body[-1]
        ok = isinstance(last, ast.If) and norm(last.test) == "selected" and len(last.body) == 1 and len(last.orelse) == 1 and {norm(last.body[0]), norm(last.orelse[0])} == {"selected_conflicts.append(conflict)", "new_conflicts.append(conflict)"} and norm(last.body[0]) == "selected_conflicts.append(conflict)"
        apps = [c for c in calls_in(loops[0]) if call_attr(c) == "append"]
        ok = ok and len(apps) == 2 and not any(isinstance(x, (ast.Break, ast.Return)) for x in walk_own(loops[0])) and not any(isinstance(x, ast.Continue) for s in loops[0].body for x in ([s] if isinstance(s, ast.Continue) else []))
    ctx.check("select-partition", f"{CF}:ConflictList.select_conflicts", ok, "every conflict goes to exactly one of (not selected, selected)", message="select_conflicts can drop or duplicate a conflict")
    rets = [norm(r.value) for r in walk_own(fn) if isinstance(r, ast.Return)]
    ctx.check("select-partition", f"{CF}:ConflictList.select_conflicts", rets == ["(new_conflicts, selected_conflicts)"], "returns (not selected, selected)")
    # ---- persistence file -----------------------------------------------------------
    fs = repo.func(WT, "InventoryWorkingTree.set_conflicts")
    fc = repo.func(WT, "InventoryWorkingTree.conflicts")
    ws = {const_value(c.args[0]) for c in calls_in(fs) if call_attr(c) in ("_put_rio", "put_file", "put_bytes") and c.args}
    rs = {const_value(c.args[0]) for c in calls_in(fc) if call_attr(c) in ("get", "get_bytes", "_get_rio") and c.args}
    ctx.check("persistence-file", f"{WT}:InventoryWorkingTree.set_conflicts/conflicts", ws == rs == {"conflicts"} and any(call_attr(c) == "to_stanzas" for c in calls_in(fs)) and any(call_attr(c) == "from_stanzas" for c in calls_in(fc)), f"conflicts are written {sorted(map(str, ws))} and read {sorted(map(str, rs))} under the same name, through to_stanzas/from_stanzas")

    # every call of set_conflicts / set_merge_modified rewrites the control file: Conflict.__eq__ compares fewer
    # fields than are persisted (see compared-attrs-persisted), so no "unchanged" shortcut can be exact
    for meth, fname in (("set_conflicts", "conflicts"), ("set_merge_modified", "merge-hashes")):
        gs = build_cfg(repo.func(WT, f"InventoryWorkingTree.{meth}"))
        wr = [i for i in calling(gs, attr={"_put_rio", "put_file", "put_bytes"}) if any(c.args and const_value(c.args[0]) == fname for c in gs.nodes[i].calls())]
        ctx.require(bool(wr), f"{WT}:InventoryWorkingTree.{meth}: write of {fname!r} not found")
        r = gs.without_exc_edges().reach([gs.entry], avoid=set(wr), include_src=True)
        ctx.check("persistence-unconditional", f"{WT}:InventoryWorkingTree.{meth}", gs.exit not in r, f"{meth}() cannot return normally without having written {fname!r}", message=f"{meth}() has a path that returns without writing {fname!r}: a list that differs only in fields the in-memory comparison ignores (e.g. conflict_path) is not persisted", witness=gs.show_path(gs.without_exc_edges().path([gs.entry], [gs.exit], avoid=set(wr))) if gs.exit in r else None)
    # ---- selection in resolve(): only `paths is None` means "all" --------------------------------------
    CG = "breezy/conflicts.py"
    gr = build_cfg(canonicalise(repo.func(CG, "resolve"), bind_roles(repo.func(CG, "resolve"), RESOLVE_ROLES, f"{CG}:resolve")))
    alls = [n.id for n in gr.nodes if n.kind == "stmt" and isinstance(n.ast, ast.Assign) and norm(n.ast.targets[0]) == "to_process" and norm(n.ast.value) == "tree_conflicts"]
    sel = calling(gr, attr="select_conflicts")
    ctx.require(bool(alls) and bool(sel), f"{CG}:resolve: the all/selected branches were not found")
    ctx.check("selection-respected", f"{CG}:resolve", not (set(alls) & gr.assume({"paths is None": False, "paths is not None": True}).reachable_from_entry()), "every conflict is processed only when paths is None; any list — also an empty one — goes through select_conflicts", message="resolve() treats a non-None selection (e.g. the empty list) as 'all conflicts': resolving nothing resolves everything and removes the helper files")
    ctx.check("selection-respected", f"{CG}:resolve", all(any(norm(a) == "paths" for c in gr.nodes[i].calls() if call_attr(c) == "select_conflicts" for a in c.args) for i in sel), "select_conflicts receives the caller's paths")
    # ---- read-modify-write of the stored conflicts happens under one write lock --------------------------------
    # every function (non-test) that reads X.conflicts() and writes X.set_conflicts(...) does both inside
    # `with X.lock_tree_write()/lock_write()`, or after it entered such a lock for the rest of the function: between an
    # unlocked read and the write another writer's stored conflicts are overwritten without any error
    n_rmw = 0
    for rel in repo.python_files():
        if not rel.startswith("breezy/") or "/tests/" in rel or "set_conflicts" not in repo.text(rel):
            continue
        for q, fn in repo.module(rel).functions().items():
            cs = [(call_recv(c), call_attr(c), c) for c in calls_in(fn) if call_attr(c) in ("conflicts", "set_conflicts")]
            both = {x for x, a, _ in cs if a == "conflicts"} & {x for x, a, _ in cs if a == "set_conflicts"}
            for recv in sorted(x for x in both if x):
                n_rmw += 1
                locks = (f"{recv}.lock_tree_write()", f"{recv}.lock_write()")
                covered = set()
                for w in ast.walk(fn):
                    if isinstance(w, ast.With) and any(norm(i.context_expr) in locks for i in w.items):
                        covered |= {id(x) for x in ast.walk(w)}
                entered = [c.lineno for c in calls_in(fn) if (call_attr(c) == "enter_context" and c.args and norm(c.args[0]) in locks) or (norm(c) in locks and id(c) not in covered and not any(isinstance(w, ast.With) and any(i.context_expr is c for i in w.items) for w in ast.walk(fn)))]
                loose = [f"L{c.lineno}:{norm(c)[:40]}" for x, a, c in cs if x == recv and id(c) not in covered and not any(l_ < c.lineno for l_ in entered)]
                ctx.check("rmw-under-one-lock", f"{rel}:{q}", not loose, f"{q} reads and rewrites {recv}'s conflicts under one write lock", construct="; ".join(loose), message=f"{q} reads {recv}.conflicts() and writes {recv}.set_conflicts() without holding one write lock across both ({'; '.join(loose)}): conflicts another writer stores in between are overwritten — a stored list is not read back")
    ctx.require(n_rmw >= 3, f"only {n_rmw} read-modify-write sites of the stored conflicts found (hand-confirmed: 4)")

    # ---- whole-file replacement: a failed store leaves the previously stored records readable --------------------------
    IW = "InventoryWorkingTree"
    writers = {}
    for q in ("set_conflicts", "set_merge_modified"):
        f_ = repo.func(WT, f"{IW}.{q}")
        helpers = {call_attr(c) for c in calls_in(f_) if call_recv(c) == "self" and repo.has(WT, f"{IW}.{call_attr(c)}") and any(call_recv(x) == "self._transport" for x in calls_in(repo.func(WT, f"{IW}.{call_attr(c)}")))}
        for h in sorted(helpers | {q}):
            writers[h] = repo.func(WT, f"{IW}.{h}")
    ATOMIC = {"put_file", "put_bytes"}
    n_w = 0
    for h, f_ in sorted(writers.items()):
        tw = [c for c in calls_in(f_) if call_recv(c) == "self._transport" and (call_attr(c) or "").startswith(("put_", "append_", "open_write", "delete", "rename", "move"))]
        if not tw:
            continue
        n_w += 1
        badw = [f"L{c.lineno}:{norm(c.func)}" for c in tw if call_attr(c) not in ATOMIC]
        ctx.check("store-replaces-whole-file", f"{WT}:{IW}.{h}", not badw, f"{h} writes its control file only through {sorted(ATOMIC)} (the transport replaces the file when the whole content was produced)", construct="; ".join(badw), message=f"{h} writes the conflicts / merge-hashes control file through {'; '.join(badw)}: the stored file is truncated or extended before the new content is complete, so a store that fails half way (the stanzas are generated lazily) leaves a torn file in place of the records stored before — they are not read back")
    ctx.require(n_w >= 1, f"{WT}: no writer of the conflicts / merge-hashes control files found")
    # ---- add_conflicts merges by the conflicts' own equality, a projection is used for ordering only -----------------
    fa = repo.func(WT, f"{IW}.add_conflicts")
    wa = f"{WT}:{IW}.add_conflicts"
    proj = []
    for n in ast.walk(fa):
        if isinstance(n, ast.Attribute) and n.attr == "sort_key" or isinstance(n, ast.Name) and n.id == "sort_key" and isinstance(n.ctx, ast.Load):
            proj.append(n)
    as_key = set()
    for c in calls_in(fa):
        for k in c.keywords:
            if k.arg == "key" and (call_name(c) == "sorted" or call_attr(c) == "sort"):
                as_key |= {id(x) for x in ast.walk(k.value)}
    aliases = {norm(s_.targets[0]) for s_ in walk_own(fa) if isinstance(s_, ast.Assign) and any(isinstance(x, ast.Attribute) and x.attr == "sort_key" for x in ast.walk(s_.value))}
    stray = [n for n in proj if id(n) not in as_key and not any(isinstance(s_, ast.Assign) and norm(s_.targets[0]) in aliases and any(x is n for x in ast.walk(s_.value)) for s_ in walk_own(fa))]
    keyed = [n for n in ast.walk(fa) if isinstance(n, ast.DictComp) and not isinstance(n.key, ast.Name)]
    ctx.check("add-merges-by-equality", wa, not stray and not keyed and any(call_attr(c) == "set_conflicts" for c in calls_in(fa)), "add_conflicts uses Conflict.sort_key only to order the list it stores; stored and new conflicts are merged by their own equality", construct="; ".join(f"L{n.lineno}:{norm(n)[:50]}" for n in stray + keyed), message="add_conflicts indexes the stored and the new conflicts by a projection (sort_key = path and type): two conflicts of the same kind on the same path that differ in file id, conflict_path or action collapse into one — a stored conflict is dropped and can never be listed or resolved")
    # ---- fourth round: recursive selection is by path containment, in both implementations ------------------------------
    n_selc = 0
    for rel_, q_ in (("breezy/conflicts.py", "ConflictList.select_conflicts"), (CF, "ConflictList.select_conflicts")):
        if not repo.has(rel_, q_):
            continue
        fsel = repo.func(rel_, q_)
        n_selc += 1
        inside = [c for c in calls_in(fsel) if (call_attr(c) or call_name(c)) in ("is_inside_any", "is_inside")]
        textual = [c for c in calls_in(fsel) if call_attr(c) in ("startswith", "endswith", "find", "index", "removeprefix") or (call_attr(c) == "match" and "re" in (call_recv(c) or ""))]
        ctx.check("selection-by-path-containment", f"{rel_}:{q_}", bool(inside) and not textual, "the recursive selection asks osutils.is_inside_any()/is_inside() (component-wise containment, trailing slashes and '' handled) and does no textual prefix test of its own", construct="; ".join(norm(c)[:60] for c in textual), message=f"{q_} decides the recursive selection with `{norm(textual[0])[:70] if textual else 'something other than is_inside_any'}`: a textual prefix test and osutils.is_inside() disagree on a directory given with a trailing slash ('dir/'), on '' and on siblings sharing a name prefix — resolve/revert on such a selection removes other conflicts than the selected ones, or none")
    ctx.require(n_selc == 2, f"select_conflicts implementations found: {n_selc} (expected the generic one and the bzr one)")
    # ---- fourth round: the merge hash recorded by a revert is keyed by the path the file has after the revert ------------
    TR = "breezy/transform.py"
    faf = repo.func(TR, "_alter_files")
    sha_assign = [a for a in ast.walk(faf) if isinstance(a, ast.Assign) and len(a.targets) == 1 and isinstance(a.targets[0], ast.Name) and isinstance(a.value, ast.Call) and call_attr(a.value) == "get_file_sha1" and "target" in (call_recv(a.value) or "") and a.value.args]
    ctx.require(len(sha_assign) == 1, f"{TR}:_alter_files: `<sha> = target_tree.get_file_sha1(<path>)` not found")
    shav, pathv = sha_assign[0].targets[0].id, norm(sha_assign[0].value.args[0])
    stores_mm = [a for a in ast.walk(faf) if isinstance(a, ast.Assign) and len(a.targets) == 1 and isinstance(a.targets[0], ast.Subscript) and norm(a.targets[0].value) == "merge_modified" and norm(a.value) == shav]
    ctx.require(len(stores_mm) >= 1, f"{TR}:_alter_files: no `merge_modified[..] = {shav}` store found")
    for a in stores_mm:
        ctx.check("merge-hash-keyed-by-target-path", f"{TR}:_alter_files", norm(a.targets[0].slice) == pathv, f"the hash of target_tree's text at `{pathv}` is recorded under that same path (set_merge_modified runs after the transform: only post-revert paths resolve to a file id)", construct=norm(a), message=f"`{norm(a)}` records the hash taken at `{pathv}` under another path: set_merge_modified runs after tt.apply(), an entry keyed by the pre-revert path maps to no file and is dropped — after reverting a renamed and modified file to a non-basis tree the stored merge hashes do not read back")


MUTANTS = [
    Mutant("recursive selection by textual prefix", "breezy/conflicts.py", "            if recurse and osutils.is_inside_any(path_set, conflict.path):\n", "            if recurse and any(conflict.path.startswith(p + \"/\") for p in path_set):\n", expect="selection-by-path-containment"),
    Mutant("merge hash stored under the basis path", "breezy/transform.py", "                    merge_modified[target_path] = new_sha1\n", "                    merge_modified[basis_path or target_path] = new_sha1\n", expect="merge-hash-keyed-by-target-path"),
    Mutant("control file appended instead of replaced", WT, "        self._transport.put_file(\n            filename, my_file, mode=self.controldir._get_file_mode()\n        )\n", "        self._transport.append_file(\n            filename, my_file, mode=self.controldir._get_file_mode()\n        )\n", expect="store-replaces-whole-file"),
    Mutant("add_conflicts reads and writes without the tree lock", WT, "        with self.lock_tree_write():\n            conflict_set = set(self.conflicts())\n            conflict_set.update(set(new_conflicts))\n            self.set_conflicts(\n                sorted(conflict_set, key=_mod_bzr_conflicts.Conflict.sort_key)\n            )\n", "        conflict_set = set(self.conflicts())\n        conflict_set.update(set(new_conflicts))\n        self.set_conflicts(\n            sorted(conflict_set, key=_mod_bzr_conflicts.Conflict.sort_key)\n        )\n", expect="rmw-under-one-lock"),
    Mutant("empty selection means all", "breezy/conflicts.py", "        if paths is None:\n            new_conflicts = []", "        if not paths:\n            new_conflicts = []", expect="selection-respected"),
    Mutant("set_conflicts skips the write when the list compares equal", WT, "        with self.lock_tree_write():\n            self._put_rio(\"conflicts\", conflict_list.to_stanzas(), CONFLICT_HEADER_1)", "        with self.lock_tree_write():\n            if self._transport.has(\"conflicts\") and conflict_list == self.conflicts():\n                return\n            self._put_rio(\"conflicts\", conflict_list.to_stanzas(), CONFLICT_HEADER_1)", expect="persistence-unconditional"),
    Mutant("action no longer written", CF, "        s = Conflict.as_stanza(self)\n        s.add(\"action\", self.action)\n        return s", "        s = Conflict.as_stanza(self)\n        return s", expect=["required-are-written", "compared-attrs-persisted"]),
    Mutant("__init__ parameter renamed", CF, "    def __init__(self, path, conflict_path=None, file_id=None):", "    def __init__(self, path, other_path=None, file_id=None):", expect="keys-are-parameters"),
    Mutant("one class unregistered", CF, "    ParentLoop,\n    UnversionedParent,", "    UnversionedParent,", expect="registry-exhaustive"),
    Mutant("conflict_file_id not re-encoded", CF, "        if isinstance(conflict_file_id, str):\n            conflict_file_id = cache_utf8.encode(conflict_file_id)\n", "", expect="bytes-fields-reencoded"),
    Mutant("select_conflicts drops unselected conflicts", CF, "            if selected:\n                selected_conflicts.append(conflict)\n            else:\n                new_conflicts.append(conflict)\n", "            if selected:\n                selected_conflicts.append(conflict)\n", expect="select-partition"),
    Mutant("neutral: s.add calls reordered", CF, "        s.add(\"conflict_path\", self.conflict_path)\n        if self.conflict_file_id is not None:\n            s.add(\"conflict_file_id\", self.conflict_file_id.decode(\"utf8\"))\n", "        if self.conflict_file_id is not None:\n            s.add(\"conflict_file_id\", self.conflict_file_id.decode(\"utf8\"))\n        s.add(\"conflict_path\", self.conflict_path)\n", neutral=True),
]
