"""C42 — exports contain exactly the exported tree: sibling agreement of the three exporters only.

Equality of an archive's contents with the tree's is value equality over all trees and is not decided.  What the three
exporters (directory, tar, zip) do *per entry kind* is in the shape of their code and is compared (K7)."""

import ast

from ..astutil import call_attr, call_recv, calls_in, const_value, norm, walk_own
from ..selftest import Mutant

ID = "C42"
TECHNIQUE = "sibling agreement (K7) of the directory, tar and zip exporters: single entry source, per-kind dispatch, executable-bit handling, root prefixing; component-aware sub-directory filter (K2) (ast)"
FLOOR = 17
EX = "breezy/export.py"
TAR = "breezy/archive/tar.py"
ZIP = "breezy/archive/zip.py"
EXPLANATION = """
X1 (K5) every exporter takes its entries from the one iterator _export_iter_entries(tree, subdir, recurse_nested=...).
X2 (K7) each exporter dispatches the kinds file, directory / tree-reference and symlink; the directory and tar exporters
raise on any other kind.
X3 (K7) the executable bit: in the 'file' arm every exporter consults tree.is_executable(...) and produces different
modes for executable and plain files (dir: 0o777/0o666 before umask, tar: 0o755/0o644, zip: external_attr with 0o755 /
0o644).
X4 (K7) symlinks are exported as symlinks: os.symlink / tarfile.SYMTYPE (the zip exporter writes a `.lnk` text file — a
known finding).
X5 (K2) _export_iter_entries: with a sub-directory only `subdir` itself and paths starting with subdir + "/" are
yielded (a component-aware prefix: `sub` does not match `subdir2`), the tree root is skipped, and what is yielded for
them is the path relative to the sub-directory.
X6 tar and zip place every entry under `root` (pathjoin(root, <relative path>)).
X7 _export_iter_entries asks tree.is_special_path about the entry's tree path (not the exported, sub-directory relative
name). X8 no exporter leaves an iteration of its entry loop early (continue/break), and every normal way through the
symlink arm of the directory and tar exporters creates the link.
X9 (third round) the smart Repository.revision_archive handler only decodes `root` (no default substituted on the server side).
X10 is_special_path (bzr and git trees) recognises special paths by name; a bare startswith(prefix) is reported (bzr: known finding).
X11 every executable-bit decision inside GitRevisionTree (is_executable's return, entries' .executable, path_content_summary) is a call of
   mode_is_executable(mode): the exporters read is_executable(), listings read the entry.
X12 every method the exporters call on `tree` resolves, through ContentFilterTree's MRO, to a definition that does not start by raising
   NotImplementedError (export --filters wraps the tree in ContentFilterTree).
Does not decide: that the bytes written equal the tree's contents (values).
"""


def kind_arms(fn, var_kind):
    """{kind: [statements]} for the if/elif chain over `<entry>.kind`."""
    arms = {}
    for n in ast.walk(fn):
        if isinstance(n, ast.If) and isinstance(n.test, ast.Compare) and norm(n.test.left).endswith(".kind") and len(n.test.ops) == 1:
            c = n.test.comparators[0]
            ks = [c.value] if isinstance(c, ast.Constant) else [e.value for e in getattr(c, "elts", []) if isinstance(e, ast.Constant)]
            for k in ks:
                arms.setdefault(k, n.body)
    return arms


def chain_else_raises(fn):
    for n in ast.walk(fn):
        if isinstance(n, ast.If) and isinstance(n.test, ast.Compare) and norm(n.test.left).endswith(".kind") and const_value(n.test.comparators[0]) == "file":
            cur = n
            while len(cur.orelse) == 1 and isinstance(cur.orelse[0], ast.If):
                cur = cur.orelse[0]
            return any(isinstance(s, ast.Raise) for s in cur.orelse)
    return False


def run(ctx):
    repo = ctx.repo
    exporters = {"dir": (EX, "dir_exporter_generator"), "tar-item": (TAR, "prepare_tarball_item"), "tar": (TAR, "tarball_generator"), "zip": (ZIP, "zip_archive_generator")}
    fns = {k: repo.func(rel, q) for k, (rel, q) in exporters.items()}
    # ---- X1 -----------------------------------------------------------------------------------
    for k in ("dir", "tar", "zip"):
        rel, q = exporters[k]
        src = [c for c in calls_in(fns[k]) if norm(c.func) == "_export_iter_entries"]
        ok = len(src) == 1 and [norm(a) for a in src[0].args[:2]] == ["tree", "subdir"] and any(kw.arg == "recurse_nested" and norm(kw.value) == "recurse_nested" for kw in src[0].keywords)
        ctx.check("X1-single-entry-source", f"{rel}:{q}", ok, f"{q} iterates _export_iter_entries(tree, subdir, recurse_nested=recurse_nested)", construct="; ".join(norm(c)[:70] for c in src), message=f"{q} no longer takes its entries from _export_iter_entries(tree, subdir, …): what is exported can differ from the other exporters (sub-directory filter, special paths)")
    # ---- X2 / X3 / X4 ---------------------------------------------------------------------------
    for k in ("dir", "tar-item", "zip"):
        rel, q = exporters[k]
        where = f"{rel}:{q}"
        arms = kind_arms(fns[k], "kind")
        ctx.check("X2-kinds-dispatched", where, {"file", "directory", "tree-reference", "symlink"} <= set(arms), f"{q} dispatches kinds {sorted(arms)}", construct=str(sorted(arms)), message=f"{q} handles only the kinds {sorted(arms)}: entries of the other kinds are missing from the export")
        if k != "zip":
            ctx.check("X2-kinds-dispatched", where, chain_else_raises(fns[k]), f"{q} raises on an unknown kind")
        # executable bit: the 'file' arm (dir: the later write loop) consults is_executable and yields two modes
        scope = fns[k] if k == "dir" else ast.Module(body=arms.get("file", []), type_ignores=[])
        ex_tests = [n for n in ast.walk(scope) if isinstance(n, ast.If) and any(call_attr(c) == "is_executable" and call_recv(c) == "tree" for c in calls_in(n.test))]
        modes = set()
        for t in ex_tests:
            for s in ast.walk(ast.Module(body=t.body + t.orelse, type_ignores=[])):
                if isinstance(s, ast.Assign):
                    modes.add(norm(s.value))
        if k == "dir":
            # the mode handed to os.open: a local with a default that the is_executable test overrides
            mv = {norm(c.args[2]) for c in calls_in(fns[k]) if norm(c.func) == "os.open" and len(c.args) == 3}
            modes |= {norm(s.value) for s in walk_own(fns[k]) if isinstance(s, ast.Assign) and norm(s.targets[0]) in mv}
        ctx.check("X3-executable-bit", where, len(ex_tests) == 1 and len(modes) >= 2, f"{q}: files get one of two modes depending on tree.is_executable ({sorted(modes)})", construct=str(sorted(modes)), message=f"{q} does not consult tree.is_executable() for files (modes {sorted(modes)}): the exported copy loses (or invents) the executable bit, unlike the other exporters")
        sl = arms.get("symlink", [])
        as_link = any(norm(c.func) == "os.symlink" for s in sl for c in calls_in(s)) or any(isinstance(s, ast.Assign) and norm(s.value) == "tarfile.SYMTYPE" for s in sl)
        ctx.check("X4-symlinks-as-symlinks", where, as_link and any(call_attr(c) == "get_symlink_target" for s in sl for c in calls_in(s)), f"{q} exports a symlink as a symlink with the tree's target", message=f"{q} does not export symlinks as symlinks: the archive holds a regular file (named <name>.lnk, containing the target) where the tree has a symlink")
    # ---- X5 -----------------------------------------------------------------------------------
    from ..astutil import bind_roles, canonicalise

    fi = repo.func(EX, "_export_iter_entries")
    wi = f"{EX}:_export_iter_entries"
    fi = canonicalise(fi, bind_roles(fi, {"entries": ("assign", "~tree\\.iter_entries_by_dir\\(.*\\)"), "path": ("for", "{entries}", 0), "entry": ("for", "{entries}", 1), "final_path": ("assign", "{entry}.name")}, wi))
    tests = [norm(n.test) for n in walk_own(fi) if isinstance(n, ast.If)]
    ctx.check("X5-subdir-filter", wi, "path.startswith(subdir + '/')" in tests and "path == subdir" in tests, "a sub-directory export keeps `subdir` itself and paths under subdir + '/' only", construct=str(tests), message=f"the sub-directory filter is no longer `path == subdir` / `path.startswith(subdir + '/')` ({tests}): entries of a sibling whose name merely starts with the sub-directory's name are exported too (or the sub-tree is incomplete)")
    fin = [s for s in walk_own(fi) if isinstance(s, ast.Assign) and norm(s.targets[0]) == "final_path"]
    vals = sorted(norm(s.value) for s in fin)
    ctx.check("X5-subdir-filter", wi, vals == ["entry.name", "path", "path[len(subdir) + 1:]"], "the exported name is relative to the sub-directory", construct=str(vals))
    ctx.check("X5-subdir-filter", wi, "path == ''" in tests and any(isinstance(y, ast.Yield) and norm(y.value) == "(final_path, path, entry)" for y in ast.walk(fi)), "the tree root itself is skipped; (exported name, tree path, entry) is yielded")
    # ---- X7: control-file filtering looks at the *tree* path ------------------------------------
    # tree.is_special_path() means "this tree path is a control file/dir at the top of the tree"; asked about the
    # exported (sub-directory relative) name it also drops `<subdir>/.bzrignore` and friends from a sub-directory export
    sp = [c for c in calls_in(fi) if call_attr(c) == "is_special_path"]
    ctx.check("X7-special-path-on-tree-path", wi, len(sp) >= 1 and all([norm(a) for a in c.args] == ["path"] for c in sp), "is_special_path is asked about the tree path of the entry", construct="; ".join(norm(c) for c in sp), message=f"_export_iter_entries asks tree.is_special_path about {[norm(a) for c in sp for a in c.args]} instead of the entry's tree path: with a sub-directory export, entries named .bzr* directly under the sub-directory are silently left out — the export is not exactly that sub-tree")
    # ---- X8: no entry the shared iterator yields is skipped by an exporter -----------------------
    from ..cfg import build_cfg

    for k in ("dir", "tar", "zip"):
        rel, q = exporters[k]
        loops = [l_ for l_ in ast.walk(fns[k]) if isinstance(l_, ast.For) and "_export_iter_entries" in norm(l_.iter)]
        ctx.require(len(loops) == 1, f"{rel}:{q}: entry loop not found")
        skips = [f"L{n.lineno}:{type(n).__name__.lower()}" for n in ast.walk(loops[0]) if isinstance(n, (ast.Continue, ast.Break))]
        ctx.check("X8-no-entry-skipped", f"{rel}:{q}", not skips, f"{q}: the entry loop has no continue/break", construct="; ".join(skips), message=f"{q} leaves its entry loop iteration early ({skips}): an entry of the tree is silently missing from the export although the export reports success")
    for k in ("dir", "tar-item"):
        rel, q = exporters[k]
        g8 = build_cfg(fns[k]).without_exc_edges()
        t8 = [n.id for n in g8.nodes if n.kind == "test" and any(isinstance(c, ast.Compare) and norm(c.left).endswith(".kind") and const_value(c.comparators[0]) == "symlink" for c in ast.walk(n.ast))]
        mk = [n.id for n in g8.nodes if any(norm(c.func) == "os.symlink" for c in n.calls()) or (n.kind == "stmt" and isinstance(n.ast, ast.Assign) and norm(n.ast.value) == "tarfile.SYMTYPE")]
        ctx.require(bool(t8) and bool(mk), f"{rel}:{q}: symlink arm / link creation not found")
        starts = [b for t in t8 for (b, l_) in g8.succ[t] if l_ == "T" and b not in mk]
        r8 = g8.reach(starts, avoid=set(mk), include_src=True)
        escaped = sorted(i for i in r8 if i == g8.exit or (g8.nodes[i].kind == "stmt" and isinstance(g8.nodes[i].ast, ast.Expr) and isinstance(g8.nodes[i].ast.value, ast.Yield)))
        ctx.check("X8-no-entry-skipped", f"{rel}:{q}", not escaped, f"{q}: every normal way through the symlink arm creates the link", construct="; ".join(g8.nodes[i].text()[:40] for i in escaped), message=f"{q} can get through its symlink arm without creating the link (and without raising): the tree's symlink is silently missing from the export")
    # ---- X6 -----------------------------------------------------------------------------------
    for k in ("tar-item", "zip"):
        rel, q = exporters[k]
        ctx.check("X6-under-root", f"{rel}:{q}", any(norm(c.func) == "osutils.pathjoin" and c.args and norm(c.args[0]) == "root" for c in calls_in(fns[k])), f"{q} places every entry under `root`")
    tg = [c for c in calls_in(fns["tar"]) if norm(c.func) == "prepare_tarball_item"]
    ctx.check("X6-under-root", f"{TAR}:tarball_generator", len(tg) == 1 and [norm(a) for a in tg[0].args[:2]] == ["tree", "root"], "tarball_generator hands its root to prepare_tarball_item")
    ctx.sample({"exporters": {k: f"{rel}:{q}" for k, (rel, q) in exporters.items()}})
    # ---- the smart archive handler hands the caller's root on as it came (empty means: no root directory) --------------
    SRP = "breezy/bzr/smart/repository.py"
    fah = repo.func(SRP, "SmartServerRepositoryRevisionArchive.do_repository_request")
    wah = f"{SRP}:SmartServerRepositoryRevisionArchive.do_repository_request"
    rparam = "root"
    ctx.require(rparam in [a.arg for a in fah.args.args], f"{wah}: parameter `root` not found")
    rassign = [a for a in walk_own(fah) if isinstance(a, ast.Assign) and any(norm(t) == rparam for t in a.targets)]
    foreign = [f"L{a.lineno}:{norm(a)[:60]}" for a in rassign if not (isinstance(a.value, ast.Call) and call_attr(a.value) == "decode" and norm(a.value.func.value) == rparam)]
    defaults = [norm(c.func) for c in calls_in(fah) if "get_root_name" in norm(c.func)]
    ctx.check("X9-remote-root-verbatim", wah, not foreign and not defaults, "`root` is only decoded before it is passed to the archive generator (the caller already resolved a missing root; an empty one means no root directory)", construct="; ".join(foreign + defaults), message=f"the Repository.revision_archive handler replaces the caller's root ({'; '.join(foreign + defaults)}): an export of a remote revision tree with root='' gets every member under a directory the caller did not ask for, the same export of the local tree does not")
    # ---- X10: what an export leaves out as "special" is decided by name, not by a bare prefix ----------------------------
    n_sp = 0
    for rel_, q_ in (("breezy/bzr/inventorytree.py", "InventoryTree.is_special_path"), ("breezy/git/tree.py", "GitTree.is_special_path")):
        if not repo.has(rel_, q_):
            continue
        n_sp += 1
        fsp_ = repo.func(rel_, q_)
        prefixes = [const_value(c.args[0], None) for c in calls_in(fsp_) if call_attr(c) == "startswith" and c.args and isinstance(const_value(c.args[0], None), str) and not const_value(c.args[0], "").endswith("/")]
        if prefixes:
            ctx.violation("X10-special-by-name", f"{rel_}:{q_}", f"path.startswith({prefixes[0]!r})", f"{q_} treats every path that starts with {prefixes[0]!r} as special: versioned files and directories whose names merely begin that way ({prefixes[0]}hub/, {prefixes[0]}keep, …) are silently left out of every export although no export option asks for it")
        else:
            ctx.check("X10-special-by-name", f"{rel_}:{q_}", True, "special paths are recognised by their (first component's) name")
    ctx.require(n_sp == 2, "is_special_path implementations not found (hand-confirmed: InventoryTree, GitTree)")
    # ---- X12: the filtering wrapper of `export --filters` serves every tree method the exporters call ---------------------
    FT = "breezy/filter_tree.py"
    wanted = {}
    for rel_ in (EX, "breezy/archive/__init__.py", TAR, ZIP):
        for q_, f_ in repo.module(rel_).functions().items():
            for c in calls_in(f_):
                if call_recv(c) == "tree" and call_attr(c):
                    wanted.setdefault(call_attr(c), f"{rel_}:{q_}")
    ctx.require(len(wanted) >= 8 and "get_symlink_target" in wanted, f"exporters: calls on `tree` not found ({sorted(wanted)})")
    _OPTIONAL = {"get_revision_id"}  # called only behind getattr(tree, "_repository"/"get_revision_id", None)
    for m_, site in sorted(wanted.items()):
        if m_ in _OPTIONAL:
            continue
        r_ = repo.resolve_method(FT, "ContentFilterTree", m_)
        abstract = True
        if r_ is not None:
            body_ = [s_ for s_ in r_[2].body if not (isinstance(s_, ast.Expr) and isinstance(s_.value, ast.Constant))]
            abstract = bool(body_) and isinstance(body_[0], ast.Raise) and "NotImplementedError" in norm(body_[0])
        ctx.check("X12-filter-tree-serves-exporters", f"{FT}:ContentFilterTree.{m_}", not abstract, f"tree.{m_}() (called by {site}) resolves on ContentFilterTree to an implementation", construct=f"{r_[0]}:{r_[1]}.{m_}" if r_ else "unresolved", message=f"{site} calls tree.{m_}() but ContentFilterTree (the tree `export --filters` hands to the exporters) only inherits the abstract Tree.{m_}: exporting a tree that needs it raises NotImplementedError — the export option makes the export of such a tree impossible")
    # ---- X11: one decision function for the executable bit of a git revision tree ------------------------------------------
    GT = "breezy/git/tree.py"
    decisions = []
    for q_, f_ in repo.module(GT).functions().items():
        if not q_.startswith("GitRevisionTree."):
            continue
        for s_ in ast.walk(f_):
            if isinstance(s_, ast.Return) and q_ == "GitRevisionTree.is_executable" and s_.value is not None and not (isinstance(s_.value, ast.Constant) and s_.value.value is False):
                decisions.append((q_, s_.value))
            if isinstance(s_, ast.Assign) and len(s_.targets) == 1 and ((isinstance(s_.targets[0], ast.Attribute) and s_.targets[0].attr == "executable") or (isinstance(s_.targets[0], ast.Name) and s_.targets[0].id.startswith("executable"))) and not isinstance(s_.value, ast.Constant):
                decisions.append((q_, s_.value))
    ctx.require(len(decisions) >= 3 and any(q_ == "GitRevisionTree.is_executable" for q_, _ in decisions), f"{GT}: executable-bit decisions of GitRevisionTree not found ({len(decisions)}; hand-confirmed: is_executable, _get_file_ie, path_content_summary)")
    for q_, e_ in decisions:
        okx = isinstance(e_, ast.Call) and norm(e_.func).split(".")[-1] == "mode_is_executable" and len(e_.args) == 1
        ctx.check("X11-git-executable-one-decision", f"{GT}:{q_}", okx, "the executable bit is decided by mode_is_executable(mode) — the same function for is_executable() (read by the exporters) and for the entries' .executable", construct=norm(e_)[:80], message=f"{q_} decides the executable bit with `{norm(e_)[:80]}` while the tree's other views use mode_is_executable(mode): for a blob mode on which the two differ (100775, 100744 — legal in imported history) the exporters, which ask tree.is_executable(), write a file without the x bit that the entry reports as executable")


MUTANTS = [
    Mutant("filter tree no longer forwards symlink targets (fix reverted)", "breezy/filter_tree.py", "    def get_symlink_target(self, path):\n", "    def _get_symlink_target_unused(self, path):\n", expect="X12-filter-tree-serves-exporters"),
    Mutant("git revision tree: only mode 100755 counts as executable", "breezy/git/tree.py", "            # the tree root is a directory\n            return False\n        return mode_is_executable(mode)\n", "            # the tree root is a directory\n            return False\n        return (mode & 0o777) == 0o755\n", expect="X11-git-executable-one-decision"),
    Mutant("git special paths by bare prefix again (fix reverted)", "breezy/git/tree.py", '        return path.split("/", 1)[0] in (\n            ".git",\n            ".gitignore",\n            ".gitattributes",\n            ".gitmodules",\n        )\n', '        return path.startswith(".git")\n', expect="X10-special-by-name"),
    Mutant("special-path test on the exported name", EX, "        if skip_special and tree.is_special_path(path):\n            continue\n", "        if skip_special and tree.is_special_path(path if not subdir else path[len(subdir) + 1 :]):\n            continue\n", expect="X7-special-path-on-tree-path"),
    Mutant("directory exporter skips symlinks it cannot create", EX, "        elif ie.kind == \"symlink\":\n            try:\n", "        elif ie.kind == \"symlink\":\n            if not osutils.supports_symlinks(dest):\n                yield\n                continue\n            try:\n", expect="X8-no-entry-skipped"),
    Mutant("zip exporter ignores the executable bit", ZIP, "                    if tree.is_executable(tp):\n                        zinfo.external_attr = _EXECUTABLE_FILE_ATTR\n                    else:\n                        zinfo.external_attr = _FILE_ATTR\n", "                    zinfo.external_attr = _FILE_ATTR\n", expect="X3-executable-bit"),
    Mutant("tar exporter ignores the executable bit", TAR, "        if tree.is_executable(tree_path):\n            item.mode = 0o755\n        else:\n            item.mode = 0o644\n", "        item.mode = 0o644\n", expect="X3-executable-bit"),
    Mutant("sub-directory filter by plain prefix", EX, "            if path.startswith(subdir + \"/\"):", "            if path.startswith(subdir):", expect="X5-subdir-filter"),
    Mutant("tar exporter drops tree references", TAR, "    elif entry.kind in (\"directory\", \"tree-reference\"):\n        item.type = tarfile.DIRTYPE", "    elif entry.kind == \"directory\":\n        item.type = tarfile.DIRTYPE", expect="X2-kinds-dispatched"),
    Mutant("zip exporter walks the tree itself", ZIP, "            for dp, tp, ie in _export_iter_entries(\n                tree, subdir, recurse_nested=recurse_nested\n            ):", "            for dp, tp, ie in ((p, p, e) for p, e in tree.iter_entries_by_dir() if p):", expect="X1-single-entry-source"),
    Mutant("neutral: tar modes via conditional expression kept in an if", TAR, "        if tree.is_executable(tree_path):\n            item.mode = 0o755\n        else:\n            item.mode = 0o644\n", "        if tree.is_executable(tree_path):\n            item.mode = 0o755\n        else:\n            item.mode = 0o644  # plain\n", neutral=True),
]
