"""C24 — tag transfer never loses or silently rewrites tags: per-key reconcile table, codec symmetry, write provenance."""

import ast

from ..absint import Interp, Raised
from ..astutil import call_attr, call_recv, calls_in, const_value, norm, walk_own
from ..selftest import Mutant

ID = "C24"
TECHNIQUE = "per-key decision table of _reconcile_tags by abstract interpretation over (in source, in destination, equal, overwrite, selector verdict) (K8), key codec symmetry (K6), provenance of the dictionary written to the destination (K5) (ast)"
FLOOR = 42
TG = "breezy/tag.py"
BT = "breezy/bzr/tag.py"
EXPLANATION = """
K8: tag.py:_reconcile_tags is evaluated abstractly on dictionaries holding one tag per class — only in source, only in
destination, same definition on both sides, different definitions — for overwrite in {False, True} and the selector in
{absent, accepts, rejects}: 24 table rows, exhaustive because the function treats every key independently (the loop body
touches result/updates/conflicts only through the loop's own key). Required per row: destination-only tags are kept;
source-only tags are added and reported as updates when selected; identical definitions are untouched; differing
definitions keep the destination value and are reported as (name, source value, destination value) conflicts unless
overwrite, in which case the source value is taken and reported as an update; unselected tags change nothing; the input
dictionaries are not mutated. K6: bzr/tag.py serialises tag names with .encode("utf-8") and deserialises them with
.decode("utf-8"), values pass through bencode/bdecode unchanged. K5: every caller of _reconcile_tags writes the
destination (_set_tag_dict) with exactly the reconciled `result` and returns the reported updates/conflicts; InterTags.merge
also reconciles the master's tags unless ignore_master.
tag-selector-passed-through: every function of branch.py / git/branch.py that takes a tag_selector hands it to the
tags.merge_to() it calls.
remote-tags-cache-follows-write: RemoteBranch._set_tags_bytes refreshes the cached tags on every normal exit while locked.
git-tag-target-holds-object: InterTagsFromGitToLocalGit.merge writes a ref into the target's refs only after resolving the
tagged object in the target repository (third-round seeds).
Fourth round: git-refs-read-through-container — outside transportgit.py/refs.py no breezy/git function calls read_loose_ref/get_packed_refs (a
ref lookup must see loose and packed refs alike). master-tag-merge-unless-source-is-master — GenericInterBranch.pull passes
merge_tags_to_master=not <source is master> (or True), nothing else. git-push-tag-conflict-live — _update_pure_git_refs (bzr -> git push) has
an append to result.tag_conflicts whose enclosing guards are not constants (today: KNOWN FINDING, the guard is `diverged = False`).
tip-move-keeps-master-object — while Branch._clear_cached_state drops _master_branch_cache, BzrBranch.set_last_revision_info assigns it
back (non-constant) on every normal path after the reset: pull locks the master object once, the tag merge asks for it again.
Does not decide: bencode correctness (library); git tag stores beyond the shared reconcile function.
"""


def run(ctx):
    repo = ctx.repo
    fn = repo.func(TG, "_reconcile_tags")
    where = f"{TG}:_reconcile_tags"
    src0 = {"s_only": b"S1", "same": b"V", "differ": b"SRC"}
    dst0 = {"d_only": b"D1", "same": b"V", "differ": b"DST"}
    rows = 0
    for overwrite in (False, True):
        for sel_name, sel in (("no selector", None), ("selector accepts", True), ("selector rejects", False)):
            src, dst = dict(src0), dict(dst0)

            def hook(interp, call, name, ev_args, env, sel=sel):
                if name == "selector":
                    return sel
                return NotImplemented

            it = Interp(call_hook=hook)
            try:
                res = it.call(fn, {"source_dict": src, "dest_dict": dst, "overwrite": overwrite, "selector": (None if sel is None else "selector-object")})
            except Raised as r:
                ctx.require(False, f"{where}: abstract evaluation raised {r.name}")
            ctx.require(isinstance(res, tuple) and len(res) == 3, f"{where}: expected (result, updates, conflicts)")
            result, updates, conflicts = res
            selected = sel is not False
            cfg = f"overwrite={overwrite}, {sel_name}"
            exp = {
                "d_only": (b"D1", False, False),
                "same": (b"V", False, False),
                "s_only": ((b"S1", True, False) if selected else (None, False, False)),
                "differ": ((b"SRC", True, False) if (selected and overwrite) else ((b"DST", False, True) if selected else (b"DST", False, False))),
            }
            for key, (val, upd, conf) in exp.items():
                rows += 1
                got = (result.get(key), key in updates, any(c[0] == key for c in conflicts))
                ctx.check("reconcile-table", where, got == (val, upd, conf), f"[{cfg}] tag '{key}': value {val!r}, update {upd}, conflict {conf}", construct=f"[{cfg}] {key} -> {got}", message=f"[{cfg}] tag '{key}': got (value, update, conflict) = {got}, want {(val, upd, conf)}")
            if selected and not overwrite:
                ctx.check("conflict-shape", where, [c for c in conflicts if c[0] == "differ"] == [("differ", b"SRC", b"DST")], f"[{cfg}] conflicts are (name, source value, destination value)", construct=str(conflicts))
            ctx.check("updates-carry-source-value", where, all(updates[k] == src0[k] for k in updates), f"[{cfg}] reported updates carry the source's value")
            ctx.check("inputs-not-mutated", where, src == src0 and dst == dst0, f"[{cfg}] the input dictionaries are not modified")
    ctx.extra["table_rows"] = rows
    ctx.sample({"classes": ["s_only", "d_only", "same", "differ"], "configs": 6, "rows": rows})
    # ---- codec ----------------------------------------------------------------------
    fs = repo.func(BT, "BasicTags._serialize_tag_dict")
    fd = repo.func(BT, "BasicTags._deserialize_tag_dict")
    enc = [n for n in walk_own(fs) if isinstance(n, ast.DictComp)]
    ok = len(enc) == 1 and norm(enc[0].key) == "k.encode('utf-8')" and norm(enc[0].value) == "v" and any(norm(c.func) == "bencode.bencode" for c in calls_in(fs))
    ctx.check("codec", f"{BT}:BasicTags._serialize_tag_dict", ok, "names are utf-8 encoded, values pass through, the dict is bencoded", construct=norm(enc[0]) if enc else "")
    asg = [s for s in walk_own(fd) if isinstance(s, ast.Assign) and isinstance(s.targets[0], ast.Subscript)]
    ok = len(asg) == 1 and norm(asg[0].targets[0].slice) == "k.decode('utf-8')" and norm(asg[0].value) == "v" and any(norm(c.func) == "bencode.bdecode" for c in calls_in(fd))
    ctx.check("codec", f"{BT}:BasicTags._deserialize_tag_dict", ok, "names are utf-8 decoded, values pass through, the content is bdecoded", construct=norm(asg[0]) if asg else "")
    # ---- provenance ------------------------------------------------------------------
    n_users = 0
    for rel in (TG, BT, "breezy/git/branch.py", "breezy/git/tag.py"):
        if not repo.exists(rel):
            continue
        for q, f in repo.module(rel).functions().items():
            users = [s for s in walk_own(f) if isinstance(s, ast.Assign) and isinstance(s.value, ast.Call) and call_attr(s.value) == "_reconcile_tags"]
            if not users:
                continue
            n_users += 1
            w = f"{rel}:{q}"
            names = [norm(e) for e in users[0].targets[0].elts] if isinstance(users[0].targets[0], ast.Tuple) else []
            ctx.require(len(names) == 3, f"{w}: result of _reconcile_tags is not unpacked into three names")
            sets = [c for c in calls_in(f) if call_attr(c) in ("_set_tag_dict", "set_tag_dict")]
            ctx.check("written-dict-is-result", w, len(sets) >= 1 and all(norm(c.args[0]) == names[0] for c in sets), f"the destination is written with the reconciled `{names[0]}` only", construct="; ".join(norm(c)[:50] for c in sets), message="the destination's tags are written from something other than the reconciled result")
            rets = [norm(r.value) for r in walk_own(f) if isinstance(r, ast.Return)]
            ctx.check("updates-conflicts-returned", w, rets == [f"({names[1]}, {names[2]})"], "the reported updates and conflicts are returned to the caller", construct=str(rets))
            # read-modify-write in one function: the destination dict reconciled is read from the very object that is written
            recv_w = {call_recv(c) for c in sets}
            dst_name = norm(users[0].value.args[1]) if len(users[0].value.args) > 1 else ""
            dsrc = [s.value for s in walk_own(f) if isinstance(s, ast.Assign) and norm(s.targets[0]) == dst_name]
            ok_rmw = len(dsrc) == 1 and isinstance(dsrc[0], ast.Call) and call_attr(dsrc[0]) == "get_tag_dict" and {call_recv(dsrc[0])} == recv_w
            ctx.check("destination-read-with-write", w, ok_rmw, f"the destination dictionary is read (get_tag_dict) from the object that is then written, in the same function (one locked read-modify-write)", construct=f"{dst_name} <- {[norm(x)[:40] for x in dsrc]} / written on {sorted(recv_w)}", message="the destination's tags are reconciled against a dictionary that was not read in the writing function: a snapshot taken before the lock silently drops tags added meanwhile")
            args = [norm(a) for a in users[0].value.args]
            ctx.check("reconcile-arguments", w, len(args) == 4 and args[2] == "overwrite" and args[3] == "selector" and "source" in args[0] and "dest" in args[1], f"_reconcile_tags({', '.join(args)}) — source first, destination second", construct=str(args))
    ctx.require(n_users >= 2, f"only {n_users} callers of _reconcile_tags found")
    fm = repo.func(TG, "InterTags.merge")
    from ..cfg import build_cfg
    from ..rules import calling as _calling

    gm = build_cfg(fm)
    lk = _calling(gm, attr="lock_write", recv="self.target.branch")
    mts = _calling(gm, attr="_merge_to")
    ctx.check("destination-locked-before-read", f"{TG}:InterTags.merge", bool(lk) and bool(mts) and gm.always_before(lk, mts)[0] and not any(call_attr(c) == "get_tag_dict" and "target" in (call_recv(c) or "") for c in calls_in(fm)), "the target branch is write-locked before its tags are read and reconciled (no read of the target's tags outside _merge_to)", message="the target's tag dictionary is read before the target branch is write-locked")
    mt = [c for c in calls_in(fm) if call_attr(c) == "_merge_to"]
    from ..astutil import bound_names

    _mst = bound_names(fm, lambda t, n: t == "None if ignore_master else self.target.branch.get_master_branch()")
    ctx.check("master-tags-reconciled", f"{TG}:InterTags.merge", len(mt) == 2 and len(_mst) == 1 and any(norm(c.args[0]) == f"{_mst[0]}.tags" for c in mt), "the master's tags are reconciled too unless ignore_master")


    # ---- remote store: the tags cached under a lock are what was just written ------------------------------------------
    # RemoteBranch._set_tags_bytes: while the branch is locked every normal exit has refreshed self._tags_bytes — the next
    # merge_to under the same lock builds its result from that cache and overwrites the stored tags with it.
    from ..cfg import build_cfg as _bcfg
    from ..rules import calling as _calling

    RM = "breezy/bzr/remote.py"
    fst = repo.func(RM, "RemoteBranch._set_tags_bytes")
    wst = f"{RM}:RemoteBranch._set_tags_bytes"
    gst = _bcfg(fst).assume({"self.is_locked()": True})  # with exception edges: the VFS fallback lives in a handler
    cache = [n.id for n in gst.nodes if n.kind == "stmt" and isinstance(n.ast, ast.Assign) and norm(n.ast.targets[0]) == "self._tags_bytes"]
    r_ = gst.reach([gst.entry], avoid=set(cache), include_src=True)
    w_ = gst.path([gst.entry], [gst.exit], avoid=set(cache)) if gst.exit in r_ else None
    ctx.check("remote-tags-cache-follows-write", wst, bool(cache) and gst.exit not in r_, "while locked, every normal exit of _set_tags_bytes has refreshed the cached tags", message="RemoteBranch._set_tags_bytes can return (e.g. through the VFS fallback for a server without Branch.set_tags_bytes) without refreshing its cached tags: the next tag merge under the same lock starts from the stale dictionary and overwrites the file — tags stored by the previous transfer vanish without error or conflict", witness=gst.show_path(w_) if w_ else None)
    # ---- every pull/push implementation hands its tag selector on to the tag merge (K7) ----------------------------------
    n_sel = 0
    for rel_ in ("breezy/branch.py", "breezy/git/branch.py"):
        for q_, f_ in repo.module(rel_).functions().items():
            if "tag_selector" not in [a.arg for a in f_.args.args + f_.args.kwonlyargs]:
                continue
            for c in calls_in(f_):
                if call_attr(c) == "merge_to" and (call_recv(c) or "").endswith(".tags"):
                    n_sel += 1
                    passed = any(k.arg == "selector" and norm(k.value) == "tag_selector" for k in c.keywords)
                    ctx.check("tag-selector-passed-through", f"{rel_}:{q_}", passed, f"{q_} hands tag_selector to tags.merge_to", construct=f"L{c.lineno}:{norm(c)[:80]}", message=f"{q_} receives a tag selector but calls `{norm(c)[:70]}` without it: tags the caller deselected are copied all the same (for a git source: pointing at revisions that were never fetched)")
    ctx.require(n_sel >= 5, f"only {n_sel} tag merges in functions with a tag_selector parameter found (hand-confirmed: 7)")
    # ---- git sibling: a tag ref is written into the target only when the target holds the tagged object -----------------
    GB = "breezy/git/branch.py"
    fgm = repo.func(GB, "InterTagsFromGitToLocalGit.merge")
    wgm = f"{GB}:InterTagsFromGitToLocalGit.merge"
    ggm = _bcfg(fgm)
    stores = [(n.id, norm(n.ast.targets[0].value)) for n in ggm.nodes if n.kind == "stmt" and isinstance(n.ast, ast.Assign) and isinstance(n.ast.targets[0], ast.Subscript) and norm(n.ast.targets[0].value).endswith("._git.refs")]
    ctx.require(bool(stores), f"{wgm}: no store into <repo>._git.refs found")
    for sid, refs_expr in stores:
        repo_name = refs_expr[: -len("._git.refs")]
        look = _calling(ggm, attr="lookup_foreign_revision_id", recv=repo_name)
        okg = bool(look) and ggm.always_before(look, [sid])[0]
        ctx.check("git-tag-target-holds-object", wgm, okg, f"`{refs_expr}[...] = ...` is preceded on every path by {repo_name}.lookup_foreign_revision_id(...) (the target must contain the tagged commit)", construct=ggm.nodes[sid].text()[:60], message=f"a tag ref is written into {refs_expr} without first resolving the tagged object in that same repository: a tag whose commit was never fetched becomes a dangling ref, with overwrite a valid tag is replaced by it and disappears from the tag dictionary, and the reported updates cannot be read back")
    # ---- fourth round: refs are read through the container (loose and packed alike), never through its loose-file reader ----
    _OWNERS = ("breezy/git/transportgit.py", "breezy/git/refs.py")  # the ref containers themselves
    n_gitmods, leaks = 0, []
    for rel_ in repo.python_files(sub="breezy/git"):
        if rel_ in _OWNERS:
            continue
        n_gitmods += 1
        for q_, f_ in repo.module(rel_).functions().items():
            for c in calls_in(f_):
                if call_attr(c) in ("read_loose_ref", "get_packed_refs", "_read_loose_ref"):
                    leaks.append((rel_, q_, c))
    ctx.require(n_gitmods >= 20 and all(any(q_.endswith("." + m_) for q_ in repo.module(o_).functions()) for o_, m_ in (("breezy/git/transportgit.py", "read_loose_ref"), ("breezy/git/transportgit.py", "get_packed_refs"))), "breezy/git: the ref container's read_loose_ref/get_packed_refs were not found (renamed?)")
    ctx.check("git-refs-read-through-container", "breezy/git/*", not leaks, "no code outside the ref containers reads a ref through read_loose_ref()/get_packed_refs(): a ref is looked up with refs[..]/get()/in, which see loose and packed refs alike", construct="; ".join(f"{r}:{q} L{c.lineno}" for r, q, c in leaks), message=f"{leaks[0][0]}:{leaks[0][1]} reads a ref with `{norm(leaks[0][2])[:70]}`, which sees only one of the two places a ref is stored: after `git pack-refs` (or gc) the destination's tags live in packed-refs, look absent, and a differing tag is overwritten without a conflict — the destination value is not kept" if leaks else "")
    # ---- fourth round: the bzr -> git ref update has a live conflict branch for differing tags -------------------------
    fup = repo.func(GB, "_update_pure_git_refs")
    wup = f"{GB}:_update_pure_git_refs"
    apps = [c for c in calls_in(fup) if call_attr(c) == "append" and (call_recv(c) or "").endswith(".tag_conflicts")]
    dead = []
    if apps:
        consts = {}
        for s_ in ast.walk(fup):
            if isinstance(s_, ast.Assign) and len(s_.targets) == 1 and isinstance(s_.targets[0], ast.Name):
                consts.setdefault(s_.targets[0].id, []).append(s_.value)

        def _encl(node, target, acc):
            for ch in ast.iter_child_nodes(node):
                if ch is target:
                    return True
                if isinstance(ch, ast.If) and any(t_ is target for b_ in ch.body for t_ in ast.walk(b_)):
                    acc.append(ch.test)
                if _encl(ch, target, acc):
                    return True
            return False

        tests_ = []
        _encl(fup, apps[0], tests_)
        for t_ in tests_:
            if isinstance(t_, ast.Name) and t_.id in consts and all(isinstance(v_, ast.Constant) and not v_.value for v_ in consts[t_.id]):
                dead.append(t_.id)
            if isinstance(t_, ast.Constant) and not t_.value:
                dead.append(norm(t_))
    ctx.check("git-push-tag-conflict-live", wup, bool(apps) and not dead, "the ref update of a bzr -> git push can reach its tag-conflict report (the guard is not a constant)", construct=f"guard {dead}" if dead else "no append to result.tag_conflicts", message=f"_update_pure_git_refs can never report a tag conflict ({'the guard `' + dead[0] + '` is only ever assigned a false constant' if dead else 'nothing is appended to result.tag_conflicts'}) and starts from an empty result dictionary, so `ref not in ret` holds for every ref: a push from a bzr branch to a git branch rewrites a destination tag whose definition differs, without --overwrite and without a conflict")
    # ---- fourth round: moving the tip of a write-locked bound branch keeps the master object it hands out -----------------
    BB = "breezy/bzr/branch.py"
    fcl = repo.func("breezy/branch.py", "Branch._clear_cached_state")
    drops = any(isinstance(s_, ast.Assign) and any(norm(t) == "self._master_branch_cache" for t in s_.targets) for s_ in walk_own(fcl))
    fsl = repo.func(BB, "BzrBranch.set_last_revision_info")
    gsl = _bcfg(fsl)
    clears = _calling(gsl, attr="_clear_cached_state")
    ctx.require(bool(clears), f"{BB}:BzrBranch.set_last_revision_info: the call of _clear_cached_state was not found")
    from ..cfg import assigns_to as _assigns_to

    restores = [n for n in gsl.find(_assigns_to("self._master_branch_cache")) if not (isinstance(gsl.nodes[n].ast, ast.Assign) and isinstance(gsl.nodes[n].ast.value, ast.Constant))]
    ok_keep = (not drops) or gsl.always_after(clears, restores, exits=[gsl.exit])[0]
    ctx.check("tip-move-keeps-master-object", f"{BB}:BzrBranch.set_last_revision_info", ok_keep, "after the cache reset of a tip move the cached master branch object is put back (the bound location did not change)", construct="self._clear_cached_state()", message="set_last_revision_info drops _master_branch_cache with the other caches: GenericInterBranch.pull holds the object get_master_branch() gave it write-locked, the tag merge that follows asks get_master_branch() again, gets a second object for the same master and dies with LockContention — the pull of a source with new revisions and tags into a bound branch updates the master and leaves the bound branch without the source's tags")
    # ---- fourth round: the tag merge into the master is switched off only when the source IS the master -----------------
    BR = "breezy/branch.py"
    fgp = repo.func(BR, "GenericInterBranch.pull")
    pulls = [c for c in calls_in(fgp) if call_attr(c) == "_pull" and norm(c.func) == "self._pull"]
    ctx.require(len(pulls) == 1, f"{BR}:GenericInterBranch.pull: the call of self._pull was not found")
    kwm = [k for k in pulls[0].keywords if k.arg == "merge_tags_to_master"]
    sim = {s_.targets[0].id for s_ in ast.walk(fgp) if isinstance(s_, ast.Assign) and len(s_.targets) == 1 and isinstance(s_.targets[0], ast.Name) and isinstance(s_.value, ast.Compare) and len(s_.value.ops) == 1 and isinstance(s_.value.ops[0], ast.Eq) and any(isinstance(e, ast.Constant) and e.value == "" for e in (s_.value.left, s_.value.comparators[0]))}
    ctx.require(len(sim) == 1, f"{BR}:GenericInterBranch.pull: the `<source is the master> = relpath == \"\"` verdict was not found ({sorted(sim)})")
    simv = next(iter(sim))
    okm = not kwm or (isinstance(kwm[0].value, ast.UnaryOp) and isinstance(kwm[0].value.op, ast.Not) and isinstance(kwm[0].value.operand, ast.Name) and kwm[0].value.operand.id == simv) or (isinstance(kwm[0].value, ast.Constant) and kwm[0].value.value is True)
    ctx.check("master-tag-merge-unless-source-is-master", f"{BR}:GenericInterBranch.pull", okm, f"_pull is told to merge tags into the master unless the source is the master itself (merge_tags_to_master=not {simv})", construct=norm(kwm[0].value) if kwm else "", message=f"GenericInterBranch.pull passes merge_tags_to_master=`{norm(kwm[0].value) if kwm else ''}`: the tag merge that reports conflicts to the caller then skips the master although the source is a third branch — a tag that differs only in the master is not reported as a conflict (the result of the inner master_branch.pull() is discarded), and with a master that has no new revisions the source's new tags never reach it")



MUTANTS = [
    Mutant("tip move drops the cached master object again (fix reverted)", "breezy/bzr/branch.py", "            self._master_branch_cache = master_branch\n", "", expect="tip-move-keeps-master-object"),
    Mutant("git tag merge looks the destination tag up among loose refs only", "breezy/git/branch.py", "            elif overwrite or ref_name not in target_repo._git.refs:\n", "            elif overwrite or target_repo._git.refs.read_loose_ref(ref_name) is None:\n", expect="git-refs-read-through-container"),
    Mutant("master tag merge skipped for every bound pull", "breezy/branch.py", "                merge_tags_to_master=not source_is_master,\n", "                merge_tags_to_master=not bound_location,\n", expect="master-tag-merge-unless-source-is-master"),
    Mutant("git pull forgets the tag selector", "breezy/git/branch.py", "                (\"tags\" in overwrite),\n                ignore_master=True,\n                selector=tag_selector,\n", "                (\"tags\" in overwrite),\n                ignore_master=True,\n", expect="tag-selector-passed-through"),
    Mutant("VFS fallback of _set_tags_bytes leaves the cache stale", "breezy/bzr/remote.py", "        if self.is_locked():\n            self._tags_bytes = bytes\n        medium = self._client._medium\n        if medium._is_remote_before((1, 18)):\n            self._vfs_set_tags_bytes(bytes)\n            return\n", "        medium = self._client._medium\n        if medium._is_remote_before((1, 18)):\n            self._vfs_set_tags_bytes(bytes)\n            return\n        if self.is_locked():\n            self._tags_bytes = bytes\n", expect="remote-tags-cache-follows-write"),
    Mutant("git tag merge resolves the tag in the source repository", "breezy/git/branch.py", "                    updates[tag_name] = target_repo.lookup_foreign_revision_id(peeled)\n", "                    updates[tag_name] = self.source.branch.repository.lookup_foreign_revision_id(peeled)\n", expect="git-tag-target-holds-object"),
    Mutant("destination value overwritten unconditionally", TG, "        elif name not in result or overwrite:\n            updates[name] = target\n            result[name] = target\n        else:\n            conflicts.append((name, target, result[name]))", "        else:\n            updates[name] = target\n            result[name] = target", expect="reconcile-table"),
    Mutant("conflicting tag dropped from the result", TG, "        else:\n            conflicts.append((name, target, result[name]))\n    return result, updates, conflicts", "        else:\n            conflicts.append((name, target, result[name]))\n            del result[name]\n    return result, updates, conflicts", expect="reconcile-table"),
    Mutant("selector ignored", TG, "        if selector and not selector(name):\n            continue\n", "", expect="reconcile-table"),
    Mutant("destination written with the source dict", TG, "        if result != dest_dict:\n            to_tags._set_tag_dict(result)\n        return updates, conflicts\n\n\nclass MemoryTags", "        if result != dest_dict:\n            to_tags._set_tag_dict(dict(source_dict))\n        return updates, conflicts\n\n\nclass MemoryTags", expect="written-dict-is-result"),
    Mutant("tag names decoded as latin-1", BT, "                r[k.decode(\"utf-8\")] = v", "                r[k.decode(\"latin-1\")] = v", expect="codec"),
    Mutant("neutral: sorted iteration", TG, "    for name, target in source_dict.items():", "    for name, target in sorted(source_dict.items()):", neutral=True),
]
